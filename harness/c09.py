"""C09 - After each event the interpreter is quiescent and its dispatch index is exact.

Model: coq/theories/V2/Index.v (instances, heads, State.event_matching_heads, the reverse map
and exactly the mutations statemachine.py/flows.py perform on them); proofs: V2/Index_proofs.v;
theorems: Props/C09.v.

Tie (X), trace inclusion: this harness instruments the real interpreter in a child process
(monkeypatches only: FlowHead setters/__setattr__, FlowState/State __setattr__, traced dicts for
`state.flow_states` and every `flow_state.heads`, wrappers of `_flow_head_changed`,
`_add_head_to_event_matching_structures`, `_remove_head_from_event_matching_structures`).  Every
run_to_completion yields a SEGMENT = (snapshot before, list of primitive operations, snapshot
after).  Each distinct segment is replayed on the model inside Coq (IndexRun.check_seg): every
operation must be a step of the model (side condition = the discipline the invariant proof
needs) and the model's final state must equal the real snapshot (dict orders included).

Direct oracle on the implementation (also the failing-input search): after EVERY
run_to_completion a from-scratch scan of the real State is compared with
`state.event_matching_heads` (multisets) and the reverse map; the quiescence predicate is
evaluated (in Python and, on the distinct snapshots, inside Coq: IndexRun.check_snap).
"""
from __future__ import annotations

import hashlib
import json
import os
import random
import signal
import sys
import time

from harness import common as C

PID = "C09"
GEN: list = []

PREAMBLE = """From Coq Require Import NArith List Bool.
From NG Require Import V2.Index V2.IndexRun V2.Refs.
Import ListNotations.
Open Scope N_scope.
"""

LISTENING = ("waiting", "starting", "started")
DONE = ("stopped", "finished")


class Hang(BaseException):
    """Raised by the per-run interval timer; BaseException so that the interpreter's
    `except Exception` cannot swallow it."""


class Unsupported(Exception):
    pass


# =======================================================================================
# Tracer (runs inside the worker process)


class Tracer:
    def __init__(self):
        self.state = None
        self.enabled = False
        self.events = []
        self.ctx = []
        self.obs = {}            # (inst uid, pos) -> elem tuple
        self.obs_conflicts = []
        self.mods = None
        self.aevents = []        # operations on State.actions / references (V2.Refs)
        self.last_refs = {}      # inst uid -> (listening, tuple(refs)) as last reported

    @staticmethod
    def refs_of(fs):
        d = fs.__dict__
        refs = list(d.get("action_uids") or [])
        for sc in (d.get("scopes") or {}).values():
            refs += list(sc[1])
        st = d.get("_status")
        return (getattr(st, "value", None) in LISTENING, tuple(refs))

    def current_refs(self):
        return {uid: self.refs_of(fs) for uid, fs in dict.items(self.insts())}

    def sync_refs(self):
        """Report the instances whose status class / action references changed since the last
        report (called right before every mutation of State.actions and at the end of a segment)."""
        cur = self.current_refs()
        for uid in list(self.last_refs):
            if uid not in cur:
                self.aevents.append(("ADropInst", uid))
                del self.last_refs[uid]
        for uid, v in cur.items():
            if self.last_refs.get(uid) != v:
                self.aevents.append(("ASetInst", uid, v[0], list(v[1])))
                self.last_refs[uid] = v

    # ---- helpers
    def insts(self):
        fs = getattr(self.state, "flow_states", None)
        return fs if isinstance(fs, dict) else {}

    def inst_attached(self, fs):
        uid = fs.__dict__.get("uid")
        return uid is not None and dict.get(self.insts(), uid) is fs

    def head_owner(self, head):
        d = head.__dict__
        fuid = d.get("flow_state_uid")
        if fuid is None:
            return None
        return dict.get(self.insts(), fuid)

    def head_attached(self, head):
        fs = self.head_owner(head)
        if fs is None:
            return False
        heads = fs.__dict__.get("heads")
        return isinstance(heads, dict) and dict.get(heads, head.__dict__.get("uid")) is head

    def cb_ok(self, cb, fs):
        import functools

        return (
            isinstance(cb, functools.partial)
            and cb.func is self.mods["hc_wrapper"]
            and len(cb.args) == 2
            and cb.args[0] is self.state
            and cb.args[1] is fs
        )

    def emit(self, ev):
        self.events.append(ev)

    def elem_at(self, fs, pos):
        """Element kind at a position of the flow of instance fs (evaluated with the repository's
        own get_event_name_from_element)."""
        sm = self.mods["sm"]
        cfg = self.state.flow_configs.get(fs.flow_id)
        if cfg is None or not isinstance(pos, int) or pos < 0 or pos >= len(cfg.elements):
            return ("end",)
        el = cfg.elements[pos]
        ast = self.mods["ast"]
        if isinstance(el, ast.SpecOp) and el.op == "match":
            try:
                n = self.mods["orig_get_name"](self.state, fs, el)
            except Exception as e:  # noqa: BLE001 - the interpreter would see the same exception
                return ("matchbad", type(e).__name__)
            return ("match", n)
        if isinstance(el, ast.WaitForHeads):
            return ("wait",)
        if isinstance(el, ast.MergeHeads):
            return ("merge",)
        if sm.is_action_op_element(el):
            return ("action",)
        return ("other", type(el).__name__)

    VBASE = 100000

    def observe(self, fs, pos):
        """Records what stands at `pos` of the flow of instance fs NOW and returns the virtual
        position used in the Coq case: pos + VBASE * (version of the element at that position).
        The event name of `match $ref.Finished()` depends on a variable; when the same instance
        comes back to the same position with another value the element gets a new version."""
        uid = fs.__dict__.get("uid")
        if uid is None or not isinstance(pos, int) or isinstance(pos, bool) or pos < 0 or pos >= self.VBASE \
                or fs.__dict__.get("flow_id") not in self.state.flow_configs:
            return pos
        e = self.elem_at(fs, pos)
        vs = self.obs.setdefault((uid, pos), [])
        for i, old in enumerate(vs):
            if old[:2] == e[:2]:
                return pos + self.VBASE * i
        vs.append(e)
        if len(vs) > 1:
            self.obs_conflicts.append((uid, pos, vs[-2], e))
        return pos + self.VBASE * (len(vs) - 1)

    def head_descr(self, head, fs):
        d = head.__dict__
        return (d.get("uid"), self.observe(fs, d.get("_position")), getattr(d.get("_status"), "value", None),
                self.cb_ok(d.get("position_changed_callback"), fs), self.cb_ok(d.get("status_changed_callback"), fs))

    def begin_segment(self):
        self.events = []
        self.ctx = []
        self.obs = {}
        self.obs_conflicts = []
        self.aevents = []
        self.last_refs = self.current_refs() if self.state is not None else {}


TR = Tracer()


def install():
    """Monkeypatch the runtime (idempotent). No file of the repository is touched."""
    if TR.mods is not None:
        return TR.mods
    import functools  # noqa: F401
    import logging

    logging.disable(logging.CRITICAL)
    from nemoguardrails.colang.v2_x.lang import colang_ast as ast
    from nemoguardrails.colang.v2_x.runtime import flows as fl
    from nemoguardrails.colang.v2_x.runtime import serialization as ser
    from nemoguardrails.colang.v2_x.runtime import statemachine as sm

    mods = {"sm": sm, "fl": fl, "ser": ser, "ast": ast}
    TR.mods = mods
    mods["orig_get_name"] = sm.get_event_name_from_element

    # ---- traced dicts -----------------------------------------------------------------
    class TracedHeads(dict):
        def _own(self):
            return self.__dict__.get("_owner")

        def __setitem__(self, k, v):
            o = self._own()
            if TR.enabled and o is not None and TR.inst_attached(o):
                vd = getattr(v, "__dict__", {})
                if vd.get("uid") != k or vd.get("flow_state_uid") != o.uid:
                    TR.emit(("UNKNOWN", "heads[k] = head with another uid/owner"))
                else:
                    TR.observe(o, vd.get("_position"))
                    TR.emit(("ATTACH_HEAD", o.uid) + TR.head_descr(v, o) + (dict.__contains__(self, k),))
            dict.__setitem__(self, k, v)

        def __delitem__(self, k):
            o = self._own()
            if TR.enabled and o is not None and TR.inst_attached(o) and dict.__contains__(self, k):
                TR.emit(("DEL_HEAD", o.uid, k))
            dict.__delitem__(self, k)

        def clear(self):
            o = self._own()
            if TR.enabled and o is not None and TR.inst_attached(o):
                TR.emit(("CLEAR", o.uid))
            dict.clear(self)

        def pop(self, k, *a):
            o = self._own()
            if TR.enabled and o is not None and TR.inst_attached(o) and dict.__contains__(self, k):
                TR.emit(("DEL_HEAD", o.uid, k))
            return dict.pop(self, k, *a)

        def popitem(self):
            o = self._own()
            if TR.enabled and o is not None and TR.inst_attached(o):
                TR.emit(("UNKNOWN", "heads.popitem"))
            return dict.popitem(self)

        def update(self, *a, **kw):
            for k, v in dict(*a, **kw).items():
                self[k] = v

        def setdefault(self, k, default=None):
            if not dict.__contains__(self, k):
                self[k] = default
            return dict.__getitem__(self, k)

    class TracedInsts(dict):
        def _own(self):
            return self.__dict__.get("_owner")

        def __setitem__(self, k, v):
            o = self._own()
            if TR.enabled and o is not None and o is TR.state:
                vd = getattr(v, "__dict__", {})
                heads = vd.get("heads")
                if vd.get("uid") != k or not isinstance(heads, dict):
                    TR.emit(("UNKNOWN", "flow_states[k] = instance with another uid"))
                else:
                    for h in heads.values():
                        TR.observe(v, h.__dict__.get("_position"))
                    TR.emit(("ATTACH_INST", k, vd["_status"].value,
                             [TR.head_descr(h, v) for h in heads.values()], dict.__contains__(self, k)))
            dict.__setitem__(self, k, v)

        def __delitem__(self, k):
            o = self._own()
            if TR.enabled and o is not None and o is TR.state and dict.__contains__(self, k):
                TR.emit(("DEL_INST", k))
            dict.__delitem__(self, k)

        def pop(self, k, *a):
            o = self._own()
            if TR.enabled and o is not None and o is TR.state and dict.__contains__(self, k):
                TR.emit(("DEL_INST", k))
            return dict.pop(self, k, *a)

        def clear(self):
            o = self._own()
            if TR.enabled and o is not None and o is TR.state:
                TR.emit(("UNKNOWN", "flow_states.clear"))
            dict.clear(self)

        def popitem(self):
            o = self._own()
            if TR.enabled and o is not None and o is TR.state:
                TR.emit(("UNKNOWN", "flow_states.popitem"))
            return dict.popitem(self)

        def update(self, *a, **kw):
            for k, v in dict(*a, **kw).items():
                self[k] = v

        def setdefault(self, k, default=None):
            if not dict.__contains__(self, k):
                self[k] = default
            return dict.__getitem__(self, k)

    class TracedActions(dict):
        def _live(self):
            return TR.enabled and self.__dict__.get("_owner") is TR.state and TR.state is not None

        def __setitem__(self, k, v):
            if self._live():
                TR.sync_refs()
                TR.aevents.append(("AAddAction", k))
            dict.__setitem__(self, k, v)

        def __delitem__(self, k):
            if self._live() and dict.__contains__(self, k):
                TR.sync_refs()
                TR.aevents.append(("ADelAction", k))
            dict.__delitem__(self, k)

        def pop(self, k, *a):
            if self._live() and dict.__contains__(self, k):
                TR.sync_refs()
                TR.aevents.append(("ADelAction", k))
            return dict.pop(self, k, *a)

        def popitem(self):
            if self._live() and len(self):
                TR.sync_refs()
                TR.aevents.append(("ADelAction", next(reversed(self))))
            return dict.popitem(self)

        def clear(self):
            if self._live():
                TR.sync_refs()
                TR.aevents.append(("AReplaceActions", []))
            dict.clear(self)

        def update(self, *a, **kw):
            for k, v in dict(*a, **kw).items():
                self[k] = v

        def setdefault(self, k, default=None):
            if not dict.__contains__(self, k):
                self[k] = default
            return dict.__getitem__(self, k)

    mods["TracedHeads"] = TracedHeads
    mods["TracedInsts"] = TracedInsts
    mods["TracedActions"] = TracedActions

    # ---- __setattr__ hooks --------------------------------------------------------------
    def state_setattr(self, name, value):
        if name == "flow_states" and isinstance(value, dict):
            if not isinstance(value, TracedInsts):
                value = TracedInsts(value)
            value.__dict__["_owner"] = self
            if TR.enabled and self is TR.state:
                TR.emit(("RESET",) if len(value) == 0 else ("UNKNOWN", "flow_states replaced by a non-empty dict"))
        elif name in ("event_matching_heads", "event_matching_heads_reverse_map"):
            if TR.enabled and self is TR.state:
                TR.emit(("UNKNOWN", name + " replaced"))
        elif name == "actions" and isinstance(value, dict):
            if not isinstance(value, TracedActions):
                value = TracedActions(value)
            value.__dict__["_owner"] = self
            if TR.enabled and self is TR.state:
                TR.sync_refs()
                TR.aevents.append(("AReplaceActions", list(value.keys())))
        object.__setattr__(self, name, value)

    fl.State.__setattr__ = state_setattr

    def fs_setattr(self, name, value):
        if name == "heads" and isinstance(value, dict):
            if not isinstance(value, TracedHeads):
                value = TracedHeads(value)
            value.__dict__["_owner"] = self
            if TR.enabled and TR.state is not None and TR.inst_attached(self):
                for h in value.values():
                    TR.observe(self, h.__dict__.get("_position"))
                TR.emit(("REPLACE_HEADS", self.uid, [TR.head_descr(h, self) for h in value.values()],
                         [k for k in value.keys()]))
        elif name == "_status":
            if TR.enabled and TR.state is not None and TR.inst_attached(self):
                TR.emit(("INST_STATUS", self.uid, value.value))
        elif name == "uid":
            if TR.enabled and TR.state is not None and "uid" in self.__dict__ and TR.inst_attached(self):
                TR.emit(("UNKNOWN", "uid of an attached instance rewritten"))
        object.__setattr__(self, name, value)

    fl.FlowState.__setattr__ = fs_setattr

    def head_setattr(self, name, value):
        if TR.enabled and TR.state is not None and name in (
            "_position", "_status", "position_changed_callback", "status_changed_callback", "uid", "flow_state_uid"
        ) and TR.head_attached(self):
            fs = TR.head_owner(self)
            if name in ("_position", "_status"):
                top = TR.ctx[-1] if TR.ctx else None
                if top is not None and top["kind"] == "set" and top["head"] is self and name == "_" + top["attr"]:
                    top["raw"] += 1
                else:
                    TR.emit(("UNKNOWN", f"raw write of FlowHead.{name} on an attached head"))
            elif name.endswith("_callback"):
                TR.emit(("SETCB", fs.uid, self.uid, name[0], TR.cb_ok(value, fs)))
            else:
                TR.emit(("UNKNOWN", f"FlowHead.{name} of an attached head rewritten"))
        object.__setattr__(self, name, value)

    fl.FlowHead.__setattr__ = head_setattr

    # ---- setters ------------------------------------------------------------------------
    def wrap_setter(attr):
        orig = fl.FlowHead.__dict__[attr]

        def setter(self, value):
            if not TR.enabled or TR.state is None:
                return orig.fset(self, value)
            fs = TR.head_owner(self)
            att = TR.head_attached(self)
            ctx = {"kind": "set", "head": self, "attr": attr, "hc": 0, "bad": None, "raw": 0, "raised": False, "exc": False}
            TR.ctx.append(ctx)
            try:
                orig.fset(self, value)
            except Exception:
                ctx["exc"] = True
                raise
            finally:
                TR.ctx.pop()
                _emit_set(self, fs, att, attr, value, ctx)

        return property(orig.fget, setter)

    def _emit_set(head, fs, att, attr, value, ctx):
        if ctx["bad"]:
            TR.emit(("UNKNOWN", ctx["bad"]))
            return
        if ctx["hc"] > 1 or (ctx["exc"] and not ctx["raised"]):
            TR.emit(("UNKNOWN", f"setter of FlowHead.{attr}: {ctx['hc']} callback invocations, exception={ctx['exc']}"))
            return
        fire = "NoFire" if ctx["hc"] == 0 else ("FireRaise" if ctx["raised"] else "Fire")
        if att:
            if ctx["raw"] > 1:
                TR.emit(("UNKNOWN", f"setter of FlowHead.{attr} wrote the field {ctx['raw']} times"))
                return
            TR.observe(fs, head.__dict__.get("_position"))
            if attr == "position":
                if not isinstance(value, int) or isinstance(value, bool):
                    TR.emit(("UNKNOWN", "position is not an int"))
                    return
                TR.emit(("SET", fs.uid, head.uid, "position", TR.observe(fs, value), fire, ctx["raw"]))
            else:
                TR.emit(("SET", fs.uid, head.uid, "status", getattr(value, "value", None), fire, ctx["raw"]))
        else:
            if ctx["hc"] == 0:
                return  # a write to a head object outside the state: invisible to the index
            if fs is None:
                TR.emit(("UNKNOWN", "callback of a head whose instance is not in the state fired"))
                return
            TR.emit(("SET_DETACHED", fs.uid, head.uid, TR.observe(fs, head.__dict__.get("_position")),
                     head.__dict__.get("_status").value, ctx["raised"]))

    fl.FlowHead.position = wrap_setter("position")
    fl.FlowHead.status = wrap_setter("status")

    # ---- _flow_head_changed, add, remove --------------------------------------------------
    orig_hc = sm._flow_head_changed
    orig_add = sm._add_head_to_event_matching_structures
    orig_remove = sm._remove_head_from_event_matching_structures

    def hc_wrapper(state, flow_state, head):
        if not TR.enabled or TR.state is None:
            return orig_hc(state, flow_state, head)
        ok = state is TR.state and TR.inst_attached(flow_state) and head.__dict__.get("flow_state_uid") == flow_state.uid
        att = ok and TR.head_attached(head)
        parent = TR.ctx[-1] if TR.ctx else None
        ctx = {"kind": "hc", "head": head, "raised": False}
        TR.ctx.append(ctx)
        if ok:
            TR.observe(flow_state, head.__dict__.get("_position"))
        try:
            return orig_hc(state, flow_state, head)
        except Exception:
            ctx["raised"] = True
            raise
        finally:
            TR.ctx.pop()
            if parent is not None and parent["kind"] == "set":
                if parent["head"] is head and ok:
                    parent["hc"] += 1
                    parent["raised"] = parent["raised"] or ctx["raised"]
                else:
                    parent["bad"] = "setter callback invoked with another state/instance/head"
            elif parent is not None:
                TR.emit(("UNKNOWN", "_flow_head_changed nested in " + parent["kind"]))
            elif not ok:
                TR.emit(("UNKNOWN", "_flow_head_changed with a state/instance that is not the current one"))
            elif att:
                TR.emit(("HC", flow_state.uid, head.uid, ctx["raised"]))
            else:
                TR.emit(("HC_DETACHED", flow_state.uid, head.uid, TR.observe(flow_state, head.__dict__.get("_position")),
                         head.__dict__.get("_status").value, ctx["raised"],
                         TR.cb_ok(head.__dict__.get("position_changed_callback"), flow_state),
                         TR.cb_ok(head.__dict__.get("status_changed_callback"), flow_state)))

    def add_wrapper(state, flow_state, head):
        if TR.enabled and TR.state is not None:
            top = TR.ctx[-1] if TR.ctx else None
            if top is None or top["kind"] != "hc" or top["head"] is not head:
                TR.emit(("UNKNOWN", "_add_head_to_event_matching_structures outside _flow_head_changed"))
        return orig_add(state, flow_state, head)

    def remove_wrapper(state, flow_state, head):
        if TR.enabled and TR.state is not None:
            top = TR.ctx[-1] if TR.ctx else None
            if top is not None and top["kind"] == "hc" and top["head"] is head:
                pass
            elif top is not None:
                TR.emit(("UNKNOWN", "_remove_head_from_event_matching_structures nested in " + top["kind"]))
            elif state is TR.state and TR.inst_attached(flow_state) and TR.head_attached(head) and TR.head_owner(head) is flow_state:
                TR.emit(("REMOVE", flow_state.uid, head.uid))
            else:
                TR.emit(("UNKNOWN", "_remove_head_from_event_matching_structures on a detached head/instance"))
        return orig_remove(state, flow_state, head)

    mods["hc_wrapper"] = hc_wrapper
    sm._flow_head_changed = hc_wrapper
    ser._flow_head_changed = hc_wrapper
    sm._add_head_to_event_matching_structures = add_wrapper
    sm._remove_head_from_event_matching_structures = remove_wrapper
    return mods


def instrument_state(state):
    """Traced dicts + owners for a State that was not built under the hooks' eyes
    (json_to_state)."""
    mods = install()
    if not isinstance(state.flow_states, mods["TracedInsts"]):
        state.flow_states = state.flow_states  # goes through state_setattr
    state.flow_states.__dict__["_owner"] = state
    if not isinstance(state.actions, mods["TracedActions"]):
        state.actions = state.actions
    state.actions.__dict__["_owner"] = state
    for fs in dict.values(state.flow_states):
        if not isinstance(fs.heads, mods["TracedHeads"]):
            fs.heads = fs.heads
        fs.heads.__dict__["_owner"] = fs


# =======================================================================================
# Snapshots of the real State


def snapshot(state):
    """Abstract snapshot: everything the model state has, plus what quiescence needs."""
    insts = []
    flow_states = state.flow_states if isinstance(state.flow_states, dict) else {}
    problems = []
    for uid, fs in flow_states.items():
        heads = []
        for hk, h in fs.heads.items():
            d = TR.head_descr(h, fs)
            if hk != d[0] or h.flow_state_uid != uid:
                problems.append(f"head key/uid mismatch in {uid}")
            if not (d[3] and d[4]):
                problems.append(f"head {d[0]} of {uid} has no (or a foreign) position/status callback")
            heads.append([d[0], d[1], d[2]])
        if fs.uid != uid:
            problems.append(f"instance key/uid mismatch {uid}")
        insts.append({
            "uid": uid, "flow_id": fs.flow_id, "status": fs._status.value, "heads": heads,
            "children": list(fs.child_flow_uids), "actions": list(fs.action_uids),
            "scope_flows": [u for sc in fs.scopes.values() for u in sc[0]],
            "scope_actions": [u for sc in fs.scopes.values() for u in sc[1]],
            "fork_heads": list(fs.head_fork_uids.values()),
        })
    index = [[n, [list(x) for x in lst]] for n, lst in state.event_matching_heads.items()]
    rev = [[k, n] for k, n in state.event_matching_heads_reverse_map.items()]
    return {"insts": insts, "index": index, "rev": rev, "queue": len(state.internal_events),
            "actions": list(state.actions.keys()), "problems": problems}


def split_rev_key(key, snap_insts):
    """The reverse-map key is flow_state.uid + head.uid; head uids are uuid4 strings (36 chars)."""
    if len(key) < 36:
        raise Unsupported("reverse-map key shorter than a head uid")
    return key[:-36], key[-36:]


# =======================================================================================
# Direct oracle on the implementation (independent restatement of the property text)


def oracle(state, mods, crashed=False):
    """Returns a list of (signature, one-line description, details).  crashed=True (an exception
    escaped run_to_completion): only what holds at every moment is checked - no stale or duplicate
    entry, reverse map exactly inverse."""
    ast = mods["ast"]
    out = []
    flow_states = state.flow_states
    # ---- from-scratch scan
    expected = {}
    for uid, fs in flow_states.items():
        st = fs._status.value
        cfg = state.flow_configs[fs.flow_id]
        for hk, h in fs.heads.items():
            if (st in LISTENING or (crashed and st == "stopping")) and h._status.value != "inactive" \
                    and 0 <= h._position < len(cfg.elements):
                el = cfg.elements[h._position]
                if isinstance(el, ast.SpecOp) and el.op == "match":
                    try:
                        n = mods["orig_get_name"](state, fs, el)
                    except Exception:  # noqa: BLE001
                        continue
                    expected[(n, uid, hk)] = expected.get((n, uid, hk), 0) + 1
    actual = {}
    for n, lst in state.event_matching_heads.items():
        for e in lst:
            k = (n, e[0], e[1])
            actual[k] = actual.get(k, 0) + 1

    def describe(uid, hk):
        fs = flow_states.get(uid)
        if fs is None:
            return "no-instance", "-", "-"
        h = fs.heads.get(hk)
        if h is None:
            return fs._status.value, "no-head", "-"
        cfg = state.flow_configs[fs.flow_id]
        kind = "end"
        if 0 <= h._position < len(cfg.elements):
            el = cfg.elements[h._position]
            kind = ("match" if isinstance(el, ast.SpecOp) and el.op == "match" else type(el).__name__)
        return fs._status.value, h._status.value, kind

    for k, c in actual.items():
        if c > expected.get(k, 0):
            ist, hst, kind = describe(k[1], k[2])
            what = "duplicate" if expected.get(k, 0) else "stale"
            out.append((f"index-{what}-entry:instance={ist}:head={hst}:on={kind}",
                        f"event_matching_heads[{k[0]!r}] holds ({k[1]}, {k[2]}) {c}x; a from-scratch scan finds it {expected.get(k, 0)}x",
                        {"entry": list(k), "count": c, "scan": expected.get(k, 0)}))
    for k, c in expected.items():
        if crashed:
            break
        if c > actual.get(k, 0):
            ist, hst, kind = describe(k[1], k[2])
            # under which name, if any, is the head registered?
            under = [n for (n, u, hk2) in actual if (u, hk2) == (k[1], k[2])]
            what = "registered-under-another-name" if under else "missing"
            out.append((f"index-{what}:instance={ist}:head={hst}",
                        f"a scan finds head ({k[1]}, {k[2]}) waiting for {k[0]!r}; the index has it under {under or 'nothing'}",
                        {"entry": list(k), "registered_under": under}))
    # ---- reverse map exactly inverse
    want_rev = {}
    for (n, u, hk), c in actual.items():
        want_rev[u + hk] = n
    got_rev = dict(state.event_matching_heads_reverse_map)
    if want_rev != got_rev:
        extra = sorted(set(got_rev) - set(want_rev))
        miss = sorted(set(want_rev) - set(got_rev))
        diff = sorted(k for k in set(got_rev) & set(want_rev) if got_rev[k] != want_rev[k])
        kind = "extra-key" if extra else ("missing-key" if miss else "wrong-name")
        out.append((f"reverse-map-not-inverse:{kind}",
                    f"event_matching_heads_reverse_map is not the inverse of the index: extra={extra[:3]} missing={miss[:3]} differing={diff[:3]}",
                    {"extra": extra, "missing": miss, "differing": diff}))
    # ---- quiescence
    if crashed:
        return out
    if len(state.internal_events) != 0:
        out.append(("not-quiescent:internal-event-pending", f"{len(state.internal_events)} internal events pending after run_to_completion",
                    {"pending": [getattr(e, "name", None) for e in state.internal_events][:5]}))
    for uid, fs in flow_states.items():
        st = fs._status.value
        cfg = state.flow_configs[fs.flow_id]
        if st in DONE:
            if len(fs.heads) != 0:
                out.append((f"done-instance-holds-position:{st}", f"instance {uid} is {st} but still has {len(fs.heads)} heads", {"instance": uid}))
            continue
        if st == "stopping":
            out.append(("not-quiescent:stopping-instance", f"instance {uid} left in status STOPPING", {"instance": uid}))
            continue
        for hk, h in fs.heads.items():
            hs = h._status.value
            if hs == "inactive":
                continue
            if hs == "merging":
                out.append(("not-quiescent:merging-head", f"head of {uid} left in status MERGING at {h._position}", {"instance": uid, "pos": h._position}))
                continue
            kind = "end"
            if 0 <= h._position < len(cfg.elements):
                el = cfg.elements[h._position]
                if isinstance(el, ast.SpecOp) and el.op == "match":
                    kind = "match"
                elif isinstance(el, ast.WaitForHeads):
                    kind = "wait"
                elif isinstance(el, ast.SpecOp):
                    kind = "SpecOp-" + str(el.op)
                else:
                    kind = type(el).__name__
            if kind not in ("match", "wait"):
                out.append((f"not-quiescent:active-head-on-{kind}", f"active head of running instance {uid} parked on {kind} at {h._position}",
                            {"instance": uid, "pos": h._position}))
        for c in fs.child_flow_uids:
            if c not in flow_states:
                out.append(("dangling-reference:child-flow", f"running instance {uid} references child flow {c} that no longer exists", {"instance": uid, "ref": c}))
        for a in fs.action_uids:
            if a not in state.actions:
                out.append(("dangling-reference:action", f"running instance {uid} references action {a} that no longer exists", {"instance": uid, "ref": a}))
        for sc in fs.scopes.values():
            for c in sc[0]:
                if c not in flow_states:
                    out.append(("dangling-reference:scope-flow", f"a scope of running instance {uid} references flow {c} that no longer exists", {"instance": uid, "ref": c}))
            for a in sc[1]:
                if a not in state.actions:
                    out.append(("dangling-reference:scope-action", f"a scope of running instance {uid} references action {a} that no longer exists", {"instance": uid, "ref": a}))
        for hk in fs.head_fork_uids.values():
            if hk not in fs.heads:
                out.append(("dangling-reference:fork-head", f"fork table of running instance {uid} references head {hk} that no longer exists", {"instance": uid, "ref": hk}))
    return out


# =======================================================================================
# Grouping of low-level events into the model's operations


def group_events(events):
    """Syntactic grouping; anything that is not one of the patterns the model knows becomes
    ('OUnknown', text)."""
    ops = []
    i = 0
    n = len(events)
    while i < n:
        e = events[i]
        k = e[0]
        if k == "RESET":
            ops.append(("OResetInsts",))
            i += 1
        elif k == "ATTACH_INST":
            _, f, st, heads, replaced = e
            pat = events[i + 1:i + 4]
            if (not replaced and len(heads) == 1 and len(pat) == 3
                    and pat[0][:4] == ("SETCB", f, heads[0][0], "p") and pat[1][:4] == ("SETCB", f, heads[0][0], "s")
                    and pat[2][0] == "HC" and pat[2][1:3] == (f, heads[0][0]) and not pat[2][3]):
                h = heads[0]
                ops.append(("ONewInst", f, st, h[0], h[1], h[2], pat[0][4], pat[1][4]))
                i += 4
            else:
                ops.append(("OUnknown", f"flow_states[{f}] assigned outside the add_new_flow_instance pattern (replaced={replaced}, heads={len(heads)})"))
                i += 1
        elif k == "SET":
            _, f, h, attr, val, fire, raw = e
            ops.append(("OSetPos" if attr == "position" else "OSetStatus", f, h, val, fire))
            i += 1
        elif k == "HC":
            ops.append(("OHeadChanged", e[1], e[2], e[3]))
            i += 1
        elif k == "ATTACH_HEAD":
            _, f, h, pos, st, cbp, cbs, replaced = e
            if replaced:
                ops.append(("OUnknown", "flow_state.heads[uid] overwritten"))
                i += 1
            elif i + 1 < n and events[i + 1][0] == "SET" and events[i + 1][1:4] == (f, h, "position"):
                nx = events[i + 1]
                ops.append(("OForkHead", f, h, pos, st, cbp, cbs, nx[4], nx[5]))
                i += 2
            else:
                ops.append(("OAttachHead", f, h, pos, st, cbp, cbs))
                i += 1
        elif k == "DEL_HEAD":
            ops.append(("ODelHead", e[1], e[2]))
            i += 1
        elif k == "REMOVE":
            f = e[1]
            j = i
            removed = []
            while j < n and events[j][0] == "REMOVE" and events[j][1] == f:
                removed.append(events[j][2])
                j += 1
            if j < n and events[j] == ("CLEAR", f):
                ops.append(("OClearHeads", f, removed))
                i = j + 1
            else:
                ops.append(("OUnknown", "explicit _remove_head_from_event_matching_structures not followed by heads.clear()"))
                i += 1
        elif k == "CLEAR":
            ops.append(("OClearHeads", e[1], []))
            i += 1
        elif k == "HC_DETACHED":
            _, f, h, pos, st, raised, cbp, cbs = e
            nx = events[i + 1] if i + 1 < n else None
            if nx is not None and nx[0] == "REPLACE_HEADS" and nx[1] == f and nx[3] == [h] and len(nx[2]) == 1 \
                    and nx[2][0][0] == h and nx[2][0][1] == pos and nx[2][0][2] == st:
                ops.append(("OMainRestart", f, h, pos, st, nx[2][0][3], nx[2][0][4], raised))
                i += 2
            else:
                ops.append(("ODetachedChanged", f, h, pos, st, raised))
                i += 1
        elif k == "SET_DETACHED":
            _, f, h, pos, st, raised = e
            ops.append(("ODetachedChanged", f, h, pos, st, raised))
            i += 1
        elif k == "INST_STATUS":
            ops.append(("OInstStatus", e[1], e[2]))
            i += 1
        elif k == "DEL_INST":
            ops.append(("ODelInst", e[1]))
            i += 1
        elif k == "REPLACE_HEADS":
            ops.append(("OUnknown", "flow_state.heads replaced outside the main-restart pattern"))
            i += 1
        elif k == "SETCB":
            ops.append(("OUnknown", "callback of an attached head reassigned"))
            i += 1
        elif k == "UNKNOWN":
            ops.append(("OUnknown", e[1]))
            i += 1
        else:
            ops.append(("OUnknown", "event " + str(k)))
            i += 1
    return ops


# =======================================================================================
# Canonical form + Coq terms


HST = {"active": "HActive", "inactive": "HInactive", "merging": "HMerging"}
FST = {"waiting": "FWaiting", "starting": "FStarting", "started": "FStarted", "stopping": "FStopping",
       "stopped": "FStopped", "finished": "FFinished"}


class Interner:
    def __init__(self):
        self.m = {}

    def __call__(self, kind, x):
        k = (kind, x)
        if k not in self.m:
            self.m[k] = len(self.m) + 1
        return self.m[k]


def _pos(p):
    if not isinstance(p, int) or isinstance(p, bool) or p < 0 or p > 10**8:
        raise Unsupported(f"position {p!r}")
    return str(p)


def coq_state(sn, I):
    insts = []
    for it in sn["insts"]:
        heads = [f"({I('u', h[0])}, mkH {_pos(h[1])} {HST[h[2]]})" for h in it["heads"]]
        insts.append(f"({I('u', it['uid'])}, mkI {FST[it['status']]} {C.coq_list(heads)})")
    index = []
    for n, lst in sn["index"]:
        entries = ["(%d, %d)" % (I("u", e[0]), I("u", e[1])) for e in lst]
        index.append(f"({I('n', n)}, {C.coq_list(entries)})")
    rev = []
    for k, n in sn["rev"]:
        f, h = split_rev_key(k, sn["insts"])
        rev.append(f"(({I('u', f)}, {I('u', h)}), {I('n', n)})")
    return f"(mkS {C.coq_list(insts)} {C.coq_list(index)} {C.coq_list(rev)})"


def coq_snapshot(sn, I):
    st = coq_state(sn, I)
    refs = []
    for it in sn["insts"]:
        def L(xs, kind="u"):
            return C.coq_list([str(I(kind, x)) for x in xs])
        refs.append(f"({I('u', it['uid'])}, mkR {L(it['children'])} {L(it['actions'], 'a')} {L(it['scope_flows'])} "
                    f"{L(it['scope_actions'], 'a')} {L(it['fork_heads'])})")
    acts = C.coq_list([str(I("a", a)) for a in sn["actions"]])
    return f"(mkSnap {sn['queue']} {acts} {C.coq_list(refs)} {st})"


def coq_op(o, I):
    k = o[0]
    b = C.coq_bool
    if k == "OResetInsts":
        return "OResetInsts"
    if k == "ONewInst":
        _, f, st, h, pos, hst, cbp, cbs = o
        return f"(ONewInst {I('u', f)} {FST[st]} {I('u', h)} (mkH {_pos(pos)} {HST[hst]}) {b(cbp)} {b(cbs)})"
    if k == "OSetPos":
        return f"(OSetPos {I('u', o[1])} {I('u', o[2])} {_pos(o[3])} {o[4]})"
    if k == "OSetStatus":
        if o[3] not in HST:
            raise Unsupported(f"head status {o[3]!r}")
        return f"(OSetStatus {I('u', o[1])} {I('u', o[2])} {HST[o[3]]} {o[4]})"
    if k == "OHeadChanged":
        return f"(OHeadChanged {I('u', o[1])} {I('u', o[2])} {b(o[3])})"
    if k == "OAttachHead":
        _, f, h, pos, st, cbp, cbs = o
        return f"(OAttachHead {I('u', f)} {I('u', h)} (mkH {_pos(pos)} {HST[st]}) {b(cbp)} {b(cbs)})"
    if k == "OForkHead":
        _, f, h, pos, st, cbp, cbs, p2, fire = o
        return f"(OForkHead {I('u', f)} {I('u', h)} (mkH {_pos(pos)} {HST[st]}) {b(cbp)} {b(cbs)} {_pos(p2)} {fire})"
    if k == "ODelHead":
        return f"(ODelHead {I('u', o[1])} {I('u', o[2])})"
    if k == "OClearHeads":
        return f"(OClearHeads {I('u', o[1])} {C.coq_list([str(I('u', h)) for h in o[2]])})"
    if k == "OMainRestart":
        _, f, h, pos, st, cbp, cbs, raised = o
        return f"(OMainRestart {I('u', f)} {I('u', h)} (mkH {_pos(pos)} {HST[st]}) {b(cbp)} {b(cbs)} {b(raised)})"
    if k == "OInstStatus":
        return f"(OInstStatus {I('u', o[1])} {FST[o[2]]})"
    if k == "ODelInst":
        return f"(ODelInst {I('u', o[1])})"
    if k == "ODetachedChanged":
        _, f, h, pos, st, raised = o
        return f"(ODetachedChanged {I('u', f)} {I('u', h)} (mkH {_pos(pos)} {HST[st]}) {b(raised)})"
    if k == "OUnknown":
        return "(OUnknown 0)"
    raise Unsupported(k)


def coq_table(obs, I, used):
    """Program-table rows for the (instance, position) pairs the case mentions."""
    rows = {}
    for (uid, pos) in sorted(used, key=lambda x: (str(x[0]), x[1])):
        vs = obs.get((uid, pos % Tracer.VBASE))
        if vs is None or pos // Tracer.VBASE >= len(vs):
            if pos >= Tracer.VBASE:
                raise Unsupported(f"position {pos} of {uid} was never observed")
            raise Unsupported(f"position {pos} of {uid} was never observed")
        e = vs[pos // Tracer.VBASE]
        if e[0] == "end":
            continue
        if e[0] == "match":
            t = f"EMatch {I('n', e[1])}"
        else:
            t = {"matchbad": "EMatchBad", "wait": "EWait", "merge": "EMerge", "action": "EAction", "other": "EOther"}[e[0]]
        rows.setdefault(uid, []).append(f"({_pos(pos)}, {t})")
    return C.coq_list([f"({I('u', uid)}, {C.coq_list(r)})" for uid, r in rows.items()])


def used_positions(before, ops, after):
    used = set()
    for sn in (before, after):
        for it in sn["insts"]:
            for h in it["heads"]:
                used.add((it["uid"], h[1]))
    cur = {}
    for sn in (before,):
        for it in sn["insts"]:
            for h in it["heads"]:
                cur[(it["uid"], h[0])] = h[1]
    for o in ops:
        k = o[0]
        if k == "ONewInst":
            used.add((o[1], o[4]))
        elif k == "OSetPos":
            used.add((o[1], o[3]))
        elif k in ("OAttachHead", "OMainRestart", "ODetachedChanged"):
            used.add((o[1], o[3]))
        elif k == "OForkHead":
            used.add((o[1], o[3]))
            used.add((o[1], o[7]))
    return used


def segment_term(seg):
    """seg = {"before","ops","after","obs"}; returns (coq term, canonical hash)."""
    I = Interner()
    before, ops, after = seg["before"], seg["ops"], seg["after"]
    obs = {(k[0], k[1]): [tuple(e) for e in v] for k, v in seg["obs"]}
    s0 = coq_state(before, I)
    cops = [coq_op(o, I) for o in ops]
    s1 = coq_state(after, I)
    used = used_positions(before, ops, after)
    tbl = coq_table(obs, I, used)
    term = f"({tbl}, {s0}, {C.coq_list(cops)}, {s1})"
    return term, hashlib.sha1(term.encode()).hexdigest()


def astate_of(sn):
    return {"actions": list(sn["actions"]),
            "insts": [[it["uid"], it["status"] in LISTENING, list(it["actions"]) + list(it["scope_actions"])] for it in sn["insts"]]}


def aseg_term(before, aops, after):
    I = Interner()

    def st(a):
        insts = [f"({I('u', u)}, ({C.coq_bool(l)}, {C.coq_list([str(I('a', x)) for x in r])}))" for u, l, r in a["insts"]]
        return f"(mkA {C.coq_list([str(I('a', x)) for x in a['actions']])} {C.coq_list(insts)})"

    def op(o):
        k = o[0]
        if k in ("AAddAction", "ADelAction"):
            return f"({k} {I('a', o[1])})"
        if k == "AReplaceActions":
            return f"(AReplaceActions {C.coq_list([str(I('a', x)) for x in o[1]])})"
        if k == "ASetInst":
            return f"(ASetInst {I('u', o[1])} {C.coq_bool(o[2])} {C.coq_list([str(I('a', x)) for x in o[3]])})"
        if k == "ADropInst":
            return f"(ADropInst {I('u', o[1])})"
        raise Unsupported(k)

    term = f"({st(before)}, {C.coq_list([op(o) for o in aops])}, {st(after)})"
    return term, hashlib.sha1(term.encode()).hexdigest()


def snapshot_term(sn, obs_list):
    I = Interner()
    obs = {(k[0], k[1]): [tuple(e) for e in v] for k, v in obs_list}
    body = coq_snapshot(sn, I)
    used = {(it["uid"], h[1]) for it in sn["insts"] for h in it["heads"]}
    tbl = coq_table(obs, I, used)
    term = f"({tbl}, {body})"
    return term, hashlib.sha1(term.encode()).hexdigest()


# =======================================================================================
# Programs: generated grammar + shipped library flows


EVENTS = ["E1", "E2", "E3"]
OUTS = ["O1", "O2", "O3"]


class ProgGen:
    """Random Colang 2 programs: flows with match/send/start/await/activate/when/or-and groups/
    if/while, parameters, several interaction loops.  Flow f_i only calls f_j with j > i (no
    unbounded recursion); `main` calls anything."""

    def __init__(self, rng):
        self.rng = rng
        self.used_events = set()
        self.uses_user = False
        self.var_n = 0

    def ev(self):
        e = self.rng.choice(EVENTS)
        self.used_events.add(e)
        return e

    def match_atom(self):
        r = self.rng.random()
        if r < 0.15:
            self.uses_user = True
            return 'UtteranceUserAction.Finished(final_transcript="hi")'
        e = self.ev()
        if r < 0.3:
            return f"{e}(x=1)"
        return f"{e}()"

    def group(self, atom, depth=0):
        r = self.rng.random()
        if depth >= 2 or r < (0.5 if depth == 0 else 0.8):
            return atom()
        op = self.rng.choice([" or ", " and "])
        n = 2 if self.rng.random() < 0.8 else 3
        parts = []
        for _ in range(n):
            g = self.group(atom, depth + 1)
            parts.append("(" + g + ")" if (" or " in g or " and " in g) else g)
        return op.join(parts)

    def flow_call(self, callees):
        name, npar = self.rng.choice(callees)
        if npar:
            return f"{name} {self.rng.choice([1, 2])}"
        return name

    def stmts(self, ind, depth, callees, in_loop=False, budget=None):
        rng = self.rng
        n = rng.choice([1, 1, 2] if depth else [1, 2, 2, 3])
        out = []
        pad = "  " * ind
        for _ in range(n):
            r = rng.random()
            if r < 0.22:
                out.append(pad + "match " + self.group(self.match_atom))
            elif r < 0.30:
                out.append(pad + f"send {rng.choice(OUTS)}()")
            elif r < 0.38:
                out.append(pad + f'await UtteranceBotAction(script="{rng.choice("ab")}")')
            elif r < 0.45:
                self.var_n += 1
                v = f"$a{self.var_n}"
                out.append(pad + f'start UtteranceBotAction(script="{rng.choice("ab")}") as {v}')
                k = rng.random()
                if k < 0.5:
                    out.append(pad + f"match {v}.Finished()")
                elif k < 0.7:
                    out.append(pad + f"match {v}.Finished() or {self.match_atom()}")
                elif k < 0.85:
                    out.append(pad + f"send {v}.Stop()")
            elif r < 0.55 and callees:
                out.append(pad + "await " + self.group(lambda: self.flow_call(callees)))
            elif r < 0.63 and callees:
                self.var_n += 1
                v = f"$r{self.var_n}"
                out.append(pad + f"start {self.flow_call(callees)} as {v}")
                k = rng.random()
                if k < 0.5:
                    out.append(pad + f"match {v}.Finished()")
                elif k < 0.65:
                    out.append(pad + f"match {v}.Finished() or {v}.Failed()")
                elif k < 0.8:
                    out.append(pad + f"send {v}.Stop()")
            elif r < 0.68 and callees:
                out.append(pad + "activate " + self.flow_call(callees))
            elif r < 0.78 and depth < 2:
                ncase = rng.randint(1, 3)
                for c in range(ncase):
                    kw = "when" if c == 0 else "or when"
                    if callees and rng.random() < 0.3:
                        cond = self.flow_call(callees)
                    else:
                        cond = self.group(self.match_atom, 1)
                    out.append(pad + f"{kw} {cond}")
                    out += self.stmts(ind + 1, depth + 1, callees, in_loop)
                if rng.random() < 0.2 and not in_loop:
                    out.append(pad + "else")
                    out += self.stmts(ind + 1, depth + 1, callees, in_loop)
            elif r < 0.84 and depth < 2:
                out.append(pad + f"if $x == {rng.choice([0, 1])}")
                out += self.stmts(ind + 1, depth + 1, callees, in_loop)
                if rng.random() < 0.5:
                    out.append(pad + "else")
                    out += self.stmts(ind + 1, depth + 1, callees, in_loop)
            elif r < 0.89 and depth < 2:
                self.var_n += 1
                v = f"$i{self.var_n}"
                out.append(pad + f"{v} = 0")
                out.append(pad + f"while {v} < 2")
                out.append(pad + f"  {v} = {v} + 1")
                body = self.stmts(ind + 1, depth + 1, callees, True)
                if not any("match" in b or "await" in b or "when" in b for b in body):
                    body.append(pad + "  match " + self.match_atom())
                out += body
                if rng.random() < 0.3:
                    out.append(pad + "  " + rng.choice(["break", "continue"]))
            elif r < 0.93:
                out.append(pad + f"$x = {rng.choice([0, 1])}")
            elif r < 0.96:
                out.append(pad + rng.choice(["abort", "return"]))
                break
            else:
                out.append(pad + 'log "x"')
        return out

    def program(self):
        rng = self.rng
        nflows = rng.choice([0, 1, 1, 2, 2, 3])
        flows = []
        for i in range(nflows):
            flows.append((f"f{chr(97 + i)}", rng.choice([0, 0, 1])))
        text = []
        for i, (name, npar) in enumerate(flows):
            callees = flows[i + 1:]
            dec = []
            r = rng.random()
            if r < 0.2:
                dec.append(f'@loop("L{rng.randint(1, 2)}")')
            elif r < 0.3:
                dec.append('@loop("NEW")')
            text += dec
            text.append(f"flow {name}" + (" $p" if npar else ""))
            body = ["  $x = " + ("$p" if npar and rng.random() < 0.5 else "0")]
            # start with a waiting statement (an activated flow that ends at once never terminates: C10/F4)
            body.append("  match " + self.group(self.match_atom))
            body += self.stmts(1, 0, callees)
            text += body
            text.append("")
        text.append("flow main")
        body = ["  $x = 0"] + self.stmts(1, 0, flows)
        if rng.random() < 0.6:
            body.append("  match Never()")
        text += body
        src = "\n".join(text) + "\n"
        alphabet = [["ev", e, {}] for e in sorted(self.used_events)]
        xs = sorted({l.split("(x=1)")[0].split()[-1].lstrip("(") for l in text if "(x=1)" in l})
        if xs:
            alphabet.append(["ev", xs[0], {"x": 1}])
        if self.uses_user:
            alphabet.append(["user", "hi"])
        if "BotAction" in src:
            alphabet.append(["fin", 0])
        alphabet.append(["ev", "Unrelated", {}])
        return src, alphabet



def shared_action_programs(rng, n):
    """Family: several flows start an IDENTICAL action on the same event (co-winning heads ->
    one shared action uid in several FlowState.action_uids / scopes) and end at different times
    and in different ways (action finished, event, abort, stopped by the parent, scope left)."""
    act = 'UtteranceBotAction(script="s")'
    owner_forms = [
        # (how the flow uses the shared action, what follows)
        ["  await {act}"],
        ["  start {act} as $act", "  match E2()"],
        ["  start {act} as $act", "  match $act.Finished()", "  match E3()"],
        ["  start {act} as $act", "  match E2()", "  send $act.Stop()", "  match E3()"],
        ["  start {act} as $act", "  match E2()", '  await UtteranceBotAction(script="t")'],
        ["  start {act} as $act", "  match E2()", "  abort"],
        ["  when {act}", "    match E3()", "  or when E2()", "    match E3()"],
        ["  when E2()", "    match E3()", "  or when {act}", "    send O1()"],
        ["  start {act} as $act", "  match E2() or $act.Finished()", "  match E3()"],
        ["  start {act} as $act", "  match $act.Finished() or E2()"],
        ["  await {act}", "  await {act}"],
    ]
    mains = [
        ["  start fa", "  start fb", "  match Never()"],
        ["  start fa and fb", "  match Never()"],
        ["  await fa or fb", "  match Never()"],
        ["  await fa and fb", "  match E3()"],
        ["  activate fa", "  start fb", "  match Never()"],
        ["  start fa as $r", "  start fb", "  match E3()", "  send $r.Stop()", "  match Never()"],
        ["  when fa", "    match E3()", "  or when fb", "    match E3()", "  match Never()"],
        ["  start fa", "  start fb", "  start fc", "  match Never()"],
    ]
    out = []
    seen = set()
    tries = 0
    while len(out) < n and tries < n * 20:
        tries += 1
        m = rng.choice(mains)
        names = ["fa", "fb"] + (["fc"] if any("fc" in l for l in m) else [])
        text = []
        for nm in names:
            form = rng.choice(owner_forms)
            dec = ['@loop("L1")'] if rng.random() < 0.1 else []
            text += dec + [f"flow {nm}", "  match E1()"] + [l.format(act=act) for l in form] + [""]
        text += ["flow main"] + m
        src = "\n".join(text) + "\n"
        if src in seen:
            continue
        seen.add(src)
        alpha = [["ev", "E1", {}], ["fin", 0], ["ev", "E2", {}], ["ev", "E3", {}], ["ev", "Unrelated", {}]]
        out.append({"src": src, "alphabet": alpha})
    return out


def reference_programs(rng, n):
    """Family: the event name of a match statement depends on a variable.  Helper flows take a
    reference parameter and are started several times with references to actions / flows of
    DIFFERENT types; flows come back to the same match statement with another value."""
    acts = ['UtteranceBotAction(script="u")', 'GestureBotAction(gesture="g")', 'TimerBotAction(timer_name="t", duration=1)',
            'UtteranceBotAction(script="v")']
    watchers = [
        ["flow watch $ref", "  match $ref.Finished()"],
        ["flow watch $ref", "  match $ref.Started()", "  match $ref.Finished()"],
        ["flow watch $ref", "  match $ref.Finished() or E1()", "  send O1()"],
        ["flow watch $ref", "  when $ref.Finished()", "    send O1()", "  or when E1()", "    send O2()"],
        ["flow watch $ref", "  match E1()", "  match $ref.Finished()"],
    ]
    out, seen, tries = [], set(), 0
    while len(out) < n and tries < n * 20:
        tries += 1
        kind = rng.choice(["watch", "watch", "watch", "loop", "flowref", "event"])
        text = []
        if kind == "watch":
            k = rng.choice([2, 2, 3])
            chosen = rng.sample(acts, k)
            text += rng.choice(watchers) + ["", "flow main"]
            for i, a in enumerate(chosen):
                text.append(f"  start {a} as $a{i}")
            order = list(range(k))
            rng.shuffle(order)
            for i in order:
                text.append(f"  {rng.choice(['start', 'start', 'activate'])} watch $a{i}" + (f" as $w{i}" if True else ""))
            text[-k:] = [l if l.strip().startswith("start") else l.split(" as ")[0] for l in text[-k:]]
            j = rng.choice(order)
            if text[-k + order.index(j)].strip().startswith("start"):
                text.append(f"  match $w{j}.Finished()")
                text.append("  send O3()")
            text.append("  match Never()")
        elif kind == "loop":
            a, b = rng.sample(acts, 2)
            text += ["flow main", "  $i = 0", "  while $i < 3", "    if $i == 1", f"      start {a} as $r", "    else",
                     f"      start {b} as $r", "    $i = $i + 1", "    match $r.Finished()", "  match Never()"]
        elif kind == "flowref":
            a = rng.choice(acts)
            text += rng.choice(watchers) + ["", "flow fx", "  match E2()", "", "flow main", f"  start {a} as $a0", "  start fx as $f0"]
            lines = ["  start watch $a0", "  start watch $f0"]
            rng.shuffle(lines)
            text += lines + ["  match Never()"]
        else:
            text += ["flow main", "  match E1() as $e", "  send O1()", "  match E2() as $e", "  match $e.Never() or E3()",
                     "  match Never()"] if rng.random() < 0.5 else \
                    ["flow w $ref", "  match $ref.Finished()", "", "flow main", f"  start {rng.choice(acts)} as $r", "  start w $r",
                     f"  start {rng.choice(acts)} as $r", "  start w $r", "  match Never()"]
        src = "\n".join(text) + "\n"
        if src in seen:
            continue
        seen.add(src)
        alpha = [["fin", 0], ["fin", 1], ["started", 0], ["ev", "E1", {}], ["ev", "E2", {}], ["fin", 2]]
        out.append({"src": src, "alphabet": alpha})
    return out


def error_programs(rng, n):
    """Family: statements that raise while they are executed (an action event that cannot be
    created, unknown variables, arithmetic errors, invalid priority) at every kind of position:
    as the only actionable head of a round, next to other heads, inside groups and scopes, in
    a child flow somebody waits for, in main."""
    errs = [
        ["$t = None", 'start UtteranceBotAction(script=$t)'],
        ["$t = 3", 'await UtteranceBotAction(script=$t)'],
        ["$t = None", 'start GestureBotAction(gesture=$t) as $g', "match $g.Finished()"],
        ['start UtteranceBotAction(script=$undefined_var)'],
        ["$y = 1 / 0"],
        ["$y = $nope + 1"],
        ["match $nope.Finished()"],
        ["send $nope.Stop()"],
        ["priority 7"],
        ["$t = None", "send O1(x=$t)", 'await UtteranceBotAction(script=$t)'],
    ]
    shapes = ["child-waited", "child-plain", "main", "when", "group", "two-heads", "activated"]
    out, seen, tries = [], set(), 0
    while len(out) < n and tries < n * 20:
        tries += 1
        e = rng.choice(errs)
        shape = rng.choice(shapes)
        trig = rng.choice(["match E1()", 'match UtteranceUserAction.Finished(final_transcript="hi")'])
        pre = rng.choice([[], ["send O2()"], ['start UtteranceBotAction(script="ok") as $ok']])
        body = [trig] + pre + e + ["match E3()"]
        ind = lambda ls, k=1: ["  " * k + l for l in ls]
        if shape == "child-waited":
            text = ["flow a"] + ind(body) + ["", "flow main", "  start a as $ref", "  match $ref.Failed() or $ref.Finished()",
                                             '  start UtteranceBotAction(script="after")', "  match Never()"]
        elif shape == "child-plain":
            text = ["flow a"] + ind(body) + ["", "flow main", "  start a", "  match E2()", "  send O3()", "  match Never()"]
        elif shape == "main":
            text = ["flow main"] + ind(body) + ["  match Never()"]
        elif shape == "when":
            text = ["flow a"] + ind(["match E1()", "when E2()"]) + ind(e, 2) + ind(["or when E3()"]) + ind(["send O1()"], 2) + \
                   ["  match E3()", "", "flow main", "  await a", "  send O3()", "  match Never()"]
        elif shape == "group":
            text = ["flow a"] + ind(body) + ["", "flow b", "  match E1()", "  match E2()", "", "flow main",
                                             f"  await a {rng.choice(['or', 'and'])} b", "  send O3()", "  match Never()"]
        elif shape == "two-heads":
            text = ["flow a"] + ind(body) + ["", "flow b", "  " + trig, '  start UtteranceBotAction(script="b")', "  match E2()", "",
                                             "flow main", "  start a", "  start b", "  match Never()"]
        else:
            text = ["flow a"] + ind(body) + ["", "flow main", "  activate a", "  match Never()"]
        src = "\n".join(text) + "\n"
        if src in seen:
            continue
        seen.add(src)
        alpha = [["ev", "E1", {}], ["user", "hi"], ["ev", "E2", {}], ["ev", "E3", {}], ["fin", 0]]
        out.append({"src": src, "alphabet": alpha})
    return out


def conflict_programs(rng, n):
    """Family: DIFFERENT actions become ready in the same interaction loop after one event, so
    all but one head lose the action conflict; the losers sit inside when-cases, or/and groups
    (pattern-failure handlers), nested, several at once, with and without an else branch."""
    def act(i):
        return ['UtteranceBotAction(script="c%d")' % i, 'GestureBotAction(gesture="c%d")' % i][i % 2]

    out, seen, tries = [], set(), 0
    while len(out) < n and tries < n * 30:
        tries += 1
        kind = rng.choice(["one-flow-when", "one-flow-when", "two-flows", "two-flows", "group", "nested", "three"])
        ctr = [0]

        def nxt():
            ctr[0] += 1
            return act(ctr[0])

        def when_block(ind, ncase, with_else, nested=False):
            pad = "  " * ind
            ls = []
            for c in range(ncase):
                ls.append(pad + ("when " if c == 0 else "or when ") + nxt())
                if nested and c == 0:
                    ls += when_block(ind + 1, 2, rng.random() < 0.5)
                else:
                    ls.append(pad + "  " + rng.choice(["start " + nxt(), "send O1()", "match E2()"]))
            if with_else:
                ls.append(pad + "else")
                ls.append(pad + "  " + rng.choice(["start " + nxt(), "send O2()", "match E2()"]))
            return ls

        text = []
        if kind == "one-flow-when":
            text = ["flow main", "  match E1()"] + when_block(1, rng.choice([2, 2, 3]), rng.random() < 0.6) + \
                   ["  match E2()", "  start " + nxt(), "  match E3()"]
        elif kind == "two-flows":
            text = ["flow a", "  match E1()", "  start " + nxt(), "  match E2()", "", "flow b", "  match E1()"] + \
                   when_block(1, rng.choice([1, 2]), rng.random() < 0.7) + ["  match E3()", "", "flow main",
                   "  " + rng.choice(["activate a", "start a"]), "  " + rng.choice(["activate b", "start b"]), "  match Never()"]
        elif kind == "group":
            op = rng.choice([" or ", " or ", " and "])
            k = rng.choice([2, 3])
            text = ["flow a", "  match E1()", "  await " + op.join(nxt() for _ in range(k)), "  send O1()", "  match E2()", "",
                    "flow main", "  start a as $r", "  match $r.Finished() or $r.Failed()", "  send O3()", "  match Never()"]
            if rng.random() < 0.5:
                text = ["flow c", "  match E1()", "  start " + nxt(), "  match E3()", ""] + text[:-4] + \
                       ["  start c", "  start a as $r", "  match $r.Finished() or $r.Failed()", "  send O3()", "  match Never()"]
        elif kind == "nested":
            text = ["flow main", "  match E1()"] + when_block(1, 2, rng.random() < 0.5, nested=True) + ["  match E2()", "  match Never()"]
        else:
            text = []
            for nm in ("a", "b", "c"):
                text += [f"flow {nm}", "  match E1()"]
                if rng.random() < 0.6:
                    text += when_block(1, rng.choice([1, 2]), rng.random() < 0.6)
                else:
                    text += ["  start " + nxt()]
                text += ["  match E2()", ""]
            text += ["flow main", "  start a", "  start b", "  start c", "  match Never()"]
        src = "\n".join(text) + "\n"
        if src in seen:
            continue
        seen.add(src)
        alpha = [["ev", "E1", {}], ["fin", 0], ["ev", "E2", {}], ["fin", 1], ["ev", "E3", {}]]
        out.append({"src": src, "alphabet": alpha})
    return out

def library_programs():
    """Shipped Colang 2 library flows (each file that parses offline) with small drivers."""
    lib = os.path.join(C.REPO, "nemoguardrails", "colang", "v2_x", "library")

    def rd(name):
        txt = open(os.path.join(lib, name), encoding="utf-8").read()
        return "\n".join(l for l in txt.splitlines() if not l.startswith("import ")) + "\n"

    user = [["user", "hi"], ["user", "other"], ["fin", 0], ["started", 0], ["ev", "Unrelated", {}]]
    progs = []
    progs.append(("lib-core-dialog", ["core.co"], """
flow main
  activate tracking bot talking state
  activate tracking user talking state
  user said "hi"
  bot say "hello"
  user said something
  bot inform "bye"
""", user))
    progs.append(("lib-core-when", ["core.co"], """
flow main
  activate notification of colang errors
  activate notification of undefined flow start
  when user said "hi"
    bot say "one"
  or when user said something
    bot ask "two"
  or when bot said something
    bot express "three"
  user said something unexpected
""", user))
    progs.append(("lib-core-observe", ["core.co"], """
flow greeting
  user said "hi"
  bot say "hello"

flow main
  activate greeting
  activate observation of flow "greeting"
  await_flow_by_name "greeting"
  start undefined_flow_xyz
  wait indefinitely
""", user))
    progs.append(("lib-timing", ["core.co", "timing.co"], """
flow main
  activate tracking bot talking state
  when user was silent 5
    bot say "still there?"
  or when user said something
    bot say "ok"
  wait 2
  user didnt respond 3
  bot was silent 1
""", user + [["fin", 1]]))
    progs.append(("lib-guardrails", ["core.co", "guardrails.co"], """
flow input rails $input_text
  $ok = await SelfCheckInputAction
  if not $ok
    bot refuse to respond
    abort

flow output rails $output_text
  $ok = await SelfCheckOutputAction
  if not $ok
    bot refuse to respond
    abort

flow main
  activate llm continuation
  user said "hi"
  bot say "hello"
  user said something
  bot say "bye"

flow llm continuation
  match Never()
""", [["user", "hi"], ["fin", 0], ["finret", 0, True], ["finret", 0, False], ["ev", "Unrelated", {}]]))
    progs.append(("lib-avatars", ["core.co", "timing.co", "avatars.co"], """
flow main
  activate tracking bot talking state
  user said "hi"
  bot say "hello"
  user said something
""", user))
    progs.append(("lib-llm", ["core.co", "llm.co"], """
flow main
  activate llm continuation
  activate automating intent detection
  user said "hi"
  bot say "hello"
""", user))
    progs.append(("lib-passthrough", ["core.co", "llm.co", "passthrough.co"], """
flow main
  activate llm continuation
  user said "hi"
  bot say "hello"
""", user))
    out = []
    for pid, files, main, alpha in progs:
        try:
            src = "".join(rd(f) for f in files) + main
        except Exception as e:  # noqa: BLE001
            out.append({"id": pid, "src": None, "error": repr(e), "alphabet": alpha, "library": files})
            continue
        out.append({"id": pid, "src": src, "alphabet": alpha, "library": files})
    return out


# =======================================================================================
# Worker: explores one batch of programs in a child process


class Sched:
    """Replacement of the `random` module inside statemachine.py: choice() follows a prefix of
    indices and then takes index 0; the arities are recorded so that all outcomes can be enumerated."""

    def __init__(self, prefix=()):
        self.prefix = list(prefix)
        self.trace = []

    def choice(self, seq):
        n = len(seq)
        i = self.prefix[len(self.trace)] if len(self.trace) < len(self.prefix) else 0
        if i >= n:
            i = 0
        self.trace.append((i, n))
        return seq[i]

    def __getattr__(self, name):
        return getattr(random, name)


def _alarm(_sig, _frm):
    raise Hang()


class Explorer:
    def __init__(self, prog, cfg, sink):
        self.prog = prog
        self.cfg = cfg
        self.sink = sink            # dict collecting results for this program
        self.mods = install()
        self.deadline = time.time() + cfg.get("prog_budget_s", 20)
        self.nodes = 0

    # ---- one traced call ---------------------------------------------------------------
    def traced(self, state, fn, label, hist):
        """Runs fn() (a run_to_completion, or initialize+start) traced; returns (ok, state')."""
        TR.state = state
        TR.enabled = True
        TR.begin_segment()
        before = snapshot(state)
        sched = Sched(label.get("sched", ()))
        self.mods["sm"].random = sched
        signal.setitimer(signal.ITIMER_REAL, self.cfg.get("run_timeout_s", 5))
        status = "ok"
        try:
            new_state = fn()
        except Hang:
            status = "hang"
            new_state = None
        except Exception as e:  # noqa: BLE001
            status = "crash:" + type(e).__name__
            self.sink["crash_samples"].append({"history": hist, "error": repr(e)[:300], "program": self.prog["id"]})
            new_state = None
        except BaseException as e:  # the repository's verification hook (step budget)
            if type(e).__name__ != "VerifStepBudgetExceeded":
                raise
            status = "hang"
            new_state = None
        finally:
            signal.setitimer(signal.ITIMER_REAL, 0)
            TR.enabled = False
            self.mods["sm"].random = random
        self.sink["runs"] += 1
        crashed = status.startswith("crash")
        if status != "ok":
            self.sink["status_counts"][status] = self.sink["status_counts"].get(status, 0) + 1
            if not crashed:
                return status, None, sched
            # an exception escaped (C10's business); the mutations traced so far are still a run of
            # the model, and the state left behind must not hold stale entries
            new_state = state
        events = TR.events
        TR.enabled = True   # observations during the snapshot
        TR.sync_refs()
        aops = list(TR.aevents)
        after = snapshot(new_state)
        TR.enabled = False
        ops = group_events(events)
        self.sink["ops"] += len(ops)
        for o in ops:
            self.sink["op_hist"][o[0]] = self.sink["op_hist"].get(o[0], 0) + 1
        replay = {"program": self.prog["id"], "src": self.prog["src"], "history": hist, "mode": self.cfg.get("mode")}
        # unmodelled operations / inconsistent observations
        for o in ops:
            if o[0] == "OUnknown":
                self.sink["unknown"].append({"what": o[1], **replay})
        for c in TR.obs_conflicts:
            self.sink["name_drift"].append({"instance": c[0], "pos": c[1], "first": list(c[2]), "then": list(c[3]), **replay})
        for p in after["problems"]:
            self.sink["snapshot_problems"].append({"what": p, **replay})
        # segment for the Coq replay
        seg = {"before": before, "ops": ops, "after": after, "obs": [[list(k), [list(e) for e in v]] for k, v in TR.obs.items()]}
        try:
            term, h = segment_term(seg)
            if h not in self.sink["seg_seen"]:
                self.sink["seg_seen"].add(h)
                nontrivial = (before["index"] != after["index"] or any(
                    o[0] in ("OForkHead", "ODelHead", "OClearHeads", "OMainRestart", "ONewInst", "ODelInst") for o in ops))
                self.sink["segments"].append({"hash": h, "term": term, "n_ops": len(ops), "nontrivial": bool(nontrivial),
                                              "program": self.prog["id"], "history": hist})
            if aops or after["actions"] or before["actions"]:
                aterm, ah = aseg_term(astate_of(before), aops, astate_of(after))
                if ah not in self.sink["aseg_seen"]:
                    self.sink["aseg_seen"].add(ah)
                    self.sink["asegs"].append({"hash": ah, "term": aterm, "n_ops": len(aops), "program": self.prog["id"], "history": hist})
                self.sink["aops"] += len(aops)
            sterm, sh = snapshot_term(after, seg["obs"])
            if not crashed and sh not in self.sink["snap_seen"]:
                self.sink["snap_seen"].add(sh)
                self.sink["snaps"].append({"hash": sh, "term": sterm, "program": self.prog["id"], "history": hist})
        except Unsupported as e:
            self.sink["unsupported"].append({"what": str(e), **replay})
        # direct oracle
        fork_dangling = 0
        for sig, what, det in oracle(new_state, self.mods, crashed=crashed):
            if sig == "dangling-reference:fork-head":
                fork_dangling += 1
                continue
            self.sink["findings"].append({"sig": sig, "what": what, "details": det, **replay})
        self.sink["obs_fork_table_dangling"] += fork_dangling
        self.sink["oracle_evals"] += 1
        if crashed:
            return status, None, sched
        return "ok", new_state, sched

    # ---- events ------------------------------------------------------------------------
    def concretise(self, sym, pending):
        from nemoguardrails.utils import new_event_dict, new_uuid

        k = sym[0]
        if k == "ev":
            return {"type": sym[1], **sym[2]}
        if k == "user":
            return new_event_dict("UtteranceUserActionFinished", final_transcript=sym[1], action_uid=new_uuid(), is_success=True)
        if k in ("fin", "started", "finret"):
            idx = sym[1]
            if idx >= len(pending):
                return None
            typ, uid = pending[idx]
            base = typ[len("Start"):]
            if k == "started":
                return new_event_dict(base + "Started", action_uid=uid)
            kw = {"action_uid": uid, "is_success": True}
            if k == "finret":
                kw["return_value"] = sym[2]
            if base == "UtteranceBotAction":
                kw["final_script"] = "x"
            return new_event_dict(base + "Finished", **kw)
        raise ValueError(sym)

    @staticmethod
    def update_pending(pending, sym, state):
        p = list(pending)
        if sym is not None and sym[0] in ("fin", "finret") and sym[1] < len(p):
            del p[sym[1]]
        for e in state.outgoing_events:
            t = e.get("type", "")
            if t.startswith("Start") and t.endswith("Action") and "action_uid" in e:
                p.append((t, e["action_uid"]))
            elif t.startswith("Stop") and t.endswith("Action"):
                p = [x for x in p if x[1] != e.get("action_uid")]
        return p[:4]

    # ---- exploration -------------------------------------------------------------------
    def run(self):
        import copy

        sm, fl = self.mods["sm"], self.mods["fl"]
        from nemoguardrails.colang import parse_colang_file
        from nemoguardrails.colang.v2_x.runtime.runtime import create_flow_configs_from_flow_list

        try:
            parsed = parse_colang_file(filename="", content=self.prog["src"], include_source_mapping=True, version="2.x")["flows"]
            cfg = create_flow_configs_from_flow_list(parsed)
            state = fl.State(flow_states=[], flow_configs=cfg)
        except Exception as e:  # noqa: BLE001
            self.sink["load"] = "parse-error: " + repr(e)[:200]
            return

        def boot():
            sm.initialize_state(state)
            return sm.run_to_completion(state, sm.InternalEvent(name="StartFlow", arguments={"flow_id": "main"}, matching_scores=[]))

        try:
            status, st, _ = self.traced(state, boot, {}, [])
        except Exception as e:  # noqa: BLE001 - initialize_state raising ColangSyntaxError etc.
            self.sink["load"] = "init-error: " + repr(e)[:200]
            return
        if status != "ok":
            self.sink["load"] = "boot-" + status.split(":")[0]
            return
        self.sink["load"] = "ok"
        self.dfs(st, [], self.update_pending([], None, st), 0, copy)

    def clone(self, state, copy):
        return self.deepcopy_state(state, copy)

    def roundtrip(self, state):
        """json_to_state(state_to_json(state)): the callbacks are re-created there.  The abstract
        snapshot must be unchanged and every head must carry callbacks bound to the NEW state."""
        ser = self.mods["ser"]
        try:
            js = ser.state_to_json(state)
            st2 = ser.json_to_state(js)
        except Hang:
            raise
        except Exception:  # noqa: BLE001 - C11's business (e.g. a regex in a variable)
            self.sink["roundtrip_errors"] += 1
            return state
        instrument_state(st2)
        TR.state = st2
        TR.enabled = True
        TR.begin_segment()
        a = snapshot(state)
        b = snapshot(st2)
        TR.enabled = False
        self.sink["roundtrips"] += 1
        ka = {k: a[k] for k in ("insts", "index", "rev", "queue", "actions")}
        kb = {k: b[k] for k in ("insts", "index", "rev", "queue", "actions")}
        if ka != kb or b["problems"]:
            self.sink["findings"].append({
                "sig": "roundtrip-changes-index-layer" if ka != kb else "roundtrip-loses-callbacks",
                "what": "json_to_state(state_to_json(state)) differs from the live state in instances/heads/index/reverse map"
                        if ka != kb else "; ".join(b["problems"][:3]),
                "details": {"before": ka, "after": kb} if ka != kb else {"problems": b["problems"]},
                "program": self.prog["id"], "src": self.prog["src"], "history": "(at a node)", "mode": "roundtrip"})
        return st2

    @staticmethod
    def deepcopy_state(state, copy):
        # the flow configurations are not modified after initialize_state: share them between the copies
        memo = {id(state.flow_configs): state.flow_configs}
        for fc in state.flow_configs.values():
            memo[id(fc)] = fc
        return copy.deepcopy(state, memo)

    def dfs(self, state, hist, pending, depth, copy):
        """Breadth first by history length, so that a budget cut only loses the longest histories."""
        sm = self.mods["sm"]
        level = [(state, hist, pending)]
        for d in range(depth, self.cfg["max_len"]):
            nxt = []
            for (st0, h0, pend0) in level:
                if self.cfg.get("mode") == "roundtrip":
                    signal.setitimer(signal.ITIMER_REAL, 30)
                    try:
                        st0 = self.roundtrip(st0)
                    except Hang:
                        self.sink["truncated"] = True
                        return
                    finally:
                        signal.setitimer(signal.ITIMER_REAL, 0)
                for sym in self.prog["alphabet"]:
                    scheds = [()]
                    done = 0
                    while scheds and done < self.cfg.get("max_scheds", 3):
                        if time.time() > self.deadline or self.sink["runs"] >= self.cfg.get("max_runs", 10**9):
                            self.sink["truncated"] = True
                            self.sink["truncated_at_len"] = d + 1
                            if time.time() > self.deadline:
                                self.sink["truncated_by_time"] = True
                            return
                        pre = scheds.pop(0)
                        ev = self.concretise(sym, pend0)
                        if ev is None:
                            break
                        st = self.clone(st0, copy)
                        if self.cfg.get("mode") == "aging":
                            from datetime import timedelta

                            for fs in st.flow_states.values():
                                fs.__dict__["status_updated"] = fs.__dict__["status_updated"] - timedelta(seconds=10)
                        h2 = h0 + [sym if not pre else sym + [{"choices": list(pre)}]]
                        status, st2, sched = self.traced(st, lambda: sm.run_to_completion(st, ev), {"sched": pre}, h2)
                        done += 1
                        # other outcomes of random.choice
                        for j in range(len(pre), len(sched.trace)):
                            if sched.trace[j][1] > 1:
                                self.sink["choice_points"] += 1
                                for c in range(1, sched.trace[j][1]):
                                    scheds.append(tuple(x[0] for x in sched.trace[:j]) + (c,))
                        if status == "ok" and d + 1 < self.cfg["max_len"]:
                            nxt.append((st2, h2, self.update_pending(pend0, sym, st2)))
            level = nxt
            self.sink["complete_len"] = d + 1


def new_sink():
    return {"runs": 0, "ops": 0, "op_hist": {}, "status_counts": {}, "unknown": [], "name_drift": [], "snapshot_problems": [],
            "segments": [], "snaps": [], "seg_seen": set(), "snap_seen": set(), "asegs": [], "aseg_seen": set(), "aops": 0, "unsupported": [], "findings": [],
            "obs_fork_table_dangling": 0, "oracle_evals": 0, "crash_samples": [], "roundtrips": 0, "roundtrip_errors": 0,
            "choice_points": 0, "truncated": False, "load": None, "complete_len": 0}


def worker_main(jobfile, outfile):
    job = json.load(open(jobfile))
    install()
    signal.signal(signal.SIGALRM, _alarm)
    seg_seen, snap_seen, aseg_seen = set(), set(), set()
    with open(outfile, "w") as out:
        for prog in job["programs"]:
            out.write(json.dumps({"begin": prog["id"]}) + "\n")
            out.flush()
            sink = new_sink()
            sink["seg_seen"], sink["snap_seen"], sink["aseg_seen"] = seg_seen, snap_seen, aseg_seen
            cfg = dict(job["cfg"])
            cfg["mode"] = prog.get("mode")
            t0 = time.time()
            try:
                Explorer(prog, cfg, sink).run()
            except Hang:
                sink["load"] = (sink["load"] or "") + "+hang-outside-run"
            sink["wall_s"] = round(time.time() - t0, 2)
            sink.pop("seg_seen")
            sink.pop("snap_seen")
            sink.pop("aseg_seen")
            for k in ("unknown", "name_drift", "snapshot_problems", "unsupported", "findings", "crash_samples"):
                sink[k + "_n"] = len(sink[k])
                sink[k] = sink[k][:5]
            out.write(json.dumps({"id": prog["id"], "mode": prog.get("mode"), "result": sink}, default=str) + "\n")
            out.flush()


# =======================================================================================
# Main process


def make_programs(tier, seed):
    rng = random.Random(seed * 1000003 + 9)
    n_gen = 150 if tier == "quick" else 650
    progs = []
    modes = [None, None, None, "aging", "roundtrip"]
    seen = set()
    tries = 0
    while len(progs) < n_gen and tries < n_gen * 5:
        tries += 1
        g = ProgGen(random.Random(rng.getrandbits(64)))
        src, alpha = g.program()
        h = hashlib.sha1(src.encode()).hexdigest()
        if h in seen:
            continue
        seen.add(h)
        progs.append({"id": f"g{len(progs)}", "src": src, "alphabet": alpha, "mode": modes[len(progs) % len(modes)]})
    # shared-action family: mostly in the aged mode (the 5-second clean-up runs before every event)
    n_fam = 36 if tier == "quick" else 150
    fam_modes = ["aging", "aging", None, "roundtrip"]
    for i, fp in enumerate(shared_action_programs(random.Random(rng.getrandbits(64)), n_fam)):
        progs.append({"id": f"s{i}", "src": fp["src"], "alphabet": fp["alphabet"], "mode": fam_modes[i % len(fam_modes)]})
    n_ref = 28 if tier == "quick" else 120
    ref_modes = [None, "roundtrip", None, "aging"]
    for i, fp in enumerate(reference_programs(random.Random(rng.getrandbits(64)), n_ref)):
        progs.append({"id": f"r{i}", "src": fp["src"], "alphabet": fp["alphabet"], "mode": ref_modes[i % len(ref_modes)]})
    n_err = 32 if tier == "quick" else 140
    err_modes = [None, None, "aging", "roundtrip"]
    for i, fp in enumerate(error_programs(random.Random(rng.getrandbits(64)), n_err)):
        progs.append({"id": f"e{i}", "src": fp["src"], "alphabet": fp["alphabet"], "mode": err_modes[i % len(err_modes)]})
    n_cf = 32 if tier == "quick" else 140
    cf_modes = [None, None, "roundtrip", "aging"]
    for i, fp in enumerate(conflict_programs(random.Random(rng.getrandbits(64)), n_cf)):
        progs.append({"id": f"c{i}", "src": fp["src"], "alphabet": fp["alphabet"], "mode": cf_modes[i % len(cf_modes)]})
    libs = []
    for lp in library_programs():
        if lp.get("src") is None:
            libs.append(lp)
            continue
        for mode in (None, "aging", "roundtrip"):
            libs.append({"id": lp["id"] + ("-" + mode if mode else ""), "src": lp["src"], "alphabet": lp["alphabet"],
                         "mode": mode, "library": lp["library"]})
    return progs, libs


def run_workers(batches, cfg, tag, timeout_s):
    """Each batch in its own child process under `timeout`; a killed batch is resumed after the
    program that was running when it died (that program is recorded as a hang)."""
    import subprocess

    d = os.path.join(C.BUILD, "c09", tag)
    os.makedirs(d, exist_ok=True)
    env = dict(os.environ)
    env.update(C.impl_env())
    env.setdefault("NEMO_GUARDRAILS_VERIF_MAX_STEPS", "20000")
    results = {}
    hangs = []
    pending = [(i, b) for i, b in enumerate(batches) if b]
    rounds = 0
    while pending and rounds < 6:
        rounds += 1
        procs = []
        for i, b in pending:
            jf = os.path.join(d, f"job_{i}_{rounds}.json")
            of = os.path.join(d, f"out_{i}_{rounds}.jsonl")
            json.dump({"programs": b, "cfg": cfg}, open(jf, "w"))
            if os.path.exists(of):
                os.remove(of)
            p = subprocess.Popen(["timeout", "-k", "5", str(timeout_s), C.PY, "-m", "harness.c09", "--worker", jf, of],
                                 cwd=C.VERIF, env=env, stdout=subprocess.DEVNULL, stderr=subprocess.PIPE)
            procs.append((i, b, of, p))
        nxt = []
        for i, b, of, p in procs:
            _, err = p.communicate()
            done_ids = []
            began = None
            if os.path.exists(of):
                for line in open(of):
                    try:
                        rec = json.loads(line)
                    except Exception:  # noqa: BLE001 - a truncated last line of a killed worker
                        continue
                    if "begin" in rec:
                        began = rec["begin"]
                    else:
                        results[rec["id"]] = rec
                        done_ids.append(rec["id"])
                        began = None
            rest = [x for x in b if x["id"] not in done_ids]
            if rest:
                if began is not None:
                    hangs.append({"program": began, "rc": p.returncode, "stderr": (err or b"").decode("utf-8", "replace")[-300:]})
                    rest = [x for x in rest if x["id"] != began]
                elif p.returncode != 0 and not done_ids:
                    hangs.append({"program": rest[0]["id"], "rc": p.returncode, "stderr": (err or b"").decode("utf-8", "replace")[-600:]})
                    rest = rest[1:]
                if rest:
                    nxt.append((i, rest))
        pending = nxt
    return results, hangs


def run(tier, seed, replay=None):
    out = C.Outcome(PID, tier, seed)
    b = C.build_and_audit(PID, GEN)
    C.proof_coverage(out, b, "make theories/Props/C09.vo && coqc Props/C09.v (Print Assumptions)")
    for br in b["broken"]:
        out.add_broken(br, b["log"])
    with C.BuildLock():
        okm, logm = C.coq_make(["theories/V2/IndexRun.vo", "theories/V2/Refs.vo"])
    if not okm:
        out.add_broken("coq:theories/V2/IndexRun.v", logm)

    quick = tier == "quick"
    cfg = {"max_len": 3 if quick else 4, "max_scheds": 3 if quick else 8, "run_timeout_s": 5,
           "prog_budget_s": 30 if quick else 90, "max_runs": 130 if quick else 1200}
    progs, libs = [], []
    corpus_dir = os.path.join(C.VERIF, "corpus", PID)
    corpus = []
    if os.path.isdir(corpus_dir):
        for fn in sorted(os.listdir(corpus_dir)):
            if fn.endswith(".json"):
                d = json.load(open(os.path.join(corpus_dir, fn)))
                corpus.append({"id": "corpus-" + fn[:-5], "src": d["src"], "alphabet": d["alphabet"], "mode": d.get("mode")})
    if replay:
        d = json.load(open(replay))
        r = d.get("replay", d)
        hist = [s[:-1] if (len(s) and isinstance(s[-1], dict) and "choices" in s[-1]) else s for s in r.get("history", [])] \
            if isinstance(r.get("history"), list) else []
        alpha = []
        for s in hist + r.get("alphabet", []):
            if s not in alpha:
                alpha.append(s)
        progs = [{"id": "replay", "src": r["src"], "alphabet": alpha or [["ev", "Unrelated", {}]], "mode": r.get("mode")}]
        cfg["max_len"] = max(1, len(hist))
        cfg["max_scheds"] = 8
        cfg["prog_budget_s"] = 120
    else:
        progs, libs = make_programs(tier, seed)
    lib_load_errors = [l for l in libs if l.get("src") is None]
    libs = [l for l in libs if l.get("src") is not None]
    all_progs = corpus + libs + progs
    nw = C.NPROC
    batches = [[] for _ in range(nw)]
    for i, p in enumerate(all_progs):
        batches[i % nw].append(p)
    per_batch = max(len(x) for x in batches) if all_progs else 0
    t0 = time.time()
    results, hangs = run_workers(batches, cfg, tier, timeout_s=60 + per_batch * (cfg["prog_budget_s"] + 6))
    explore_s = round(time.time() - t0, 1)

    # ---- aggregate
    agg = {"runs": 0, "ops": 0, "oracle_evals": 0, "roundtrips": 0, "roundtrip_errors": 0, "choice_points": 0,
           "obs_fork_table_dangling": 0, "aops": 0}
    asegs = {}
    op_hist, status_counts, loads = {}, {}, {}
    segs, snaps = {}, {}
    findings, unknown, drift, snapprob, unsupported, crashes = [], [], [], [], [], []
    truncated = 0
    truncated_time = 0
    complete = {}
    per_mode = {}
    for pid_, rec in results.items():
        r = rec["result"]
        for k in agg:
            agg[k] += r.get(k, 0)
        for k, v in r["op_hist"].items():
            op_hist[k] = op_hist.get(k, 0) + v
        for k, v in r["status_counts"].items():
            status_counts[k] = status_counts.get(k, 0) + v
        ld = (r["load"] or "none").split(":")[0]
        loads[ld] = loads.get(ld, 0) + 1
        per_mode[str(rec.get("mode"))] = per_mode.get(str(rec.get("mode")), 0) + 1
        truncated += 1 if r["truncated"] else 0
        truncated_time += 1 if r.get("truncated_by_time") else 0
        complete[r.get("complete_len", 0)] = complete.get(r.get("complete_len", 0), 0) + 1
        for s in r["segments"]:
            segs.setdefault(s["hash"], s)
        for s in r["snaps"]:
            snaps.setdefault(s["hash"], s)
        for s in r.get("asegs", []):
            asegs.setdefault(s["hash"], s)
        findings += r["findings"]
        unknown += r["unknown"]
        drift += r["name_drift"]
        snapprob += r["snapshot_problems"]
        unsupported += r["unsupported"]
        crashes += r["crash_samples"]
    lib_status = {p["id"]: (results[p["id"]]["result"]["load"] if p["id"] in results else "no-result") for p in libs}
    for l in lib_load_errors:
        lib_status[l["id"]] = "read-error " + l.get("error", "")

    # ---- findings of the direct oracle (property text, on the implementation)
    findings.sort(key=lambda f: (len(f.get("history") or []), len(f.get("src") or "")))
    for f in findings[:200]:
        out.findings.append(C.Finding(f["sig"], f["what"], {
            "src": f["src"], "history": f["history"], "mode": f.get("mode"), "details": f["details"],
            "alphabet": next((p["alphabet"] for p in all_progs if p["id"] == f.get("program")), [])}))
    for s in snapprob[:5]:
        out.findings.append(C.Finding("head-without-own-callbacks", s["what"],
                                      {"src": s["src"], "history": s["history"], "mode": s.get("mode")}))
    # ---- trace inclusion, inside Coq
    seg_list = list(segs.values())
    snap_list = list(snaps.values())
    bad_segs, bad_snaps = [], []
    if okm and seg_list:
        bools, err = C.run_cases(PID + "_seg", PREAMBLE, [s["term"] for s in seg_list], "check_seg", shard=120)
        if err:
            out.add_broken("correspondence:C09-trace-inclusion(coqc)", err)
        else:
            bad_segs = [s for ok, s in zip(bools, seg_list) if not ok]
    if okm and snap_list:
        bools, err = C.run_cases(PID + "_snap", PREAMBLE, [s["term"] for s in snap_list], "check_snap", shard=300)
        if err:
            out.add_broken("correspondence:C09-snapshots(coqc)", err)
        else:
            bad_snaps = [s for ok, s in zip(bools, snap_list) if not ok]
    aseg_list = list(asegs.values())
    bad_asegs = []
    if okm and aseg_list:
        bools, err = C.run_cases(PID + "_aseg", PREAMBLE, [s["term"] for s in aseg_list], "check_aseg", shard=300)
        if err:
            out.add_broken("correspondence:C09-action-references(coqc)", err)
        else:
            bad_asegs = [s for ok, s in zip(bools, aseg_list) if not ok]
    if bad_asegs:
        s = min(bad_asegs, key=lambda s: (s["n_ops"], len(s["term"])))
        diag = C.eval_term(PID + "_aseg", PREAMBLE, f"diag_aseg {s['term']}")
        src = next((p["src"] for p in all_progs if p["id"] == s["program"]), None)
        out.add_broken("correspondence:C09-action-references",
                       f"{len(bad_asegs)} of {len(aseg_list)} distinct segments are not runs of V2.Refs (an action removed while a running "
                       f"flow references it, a running flow referencing a missing action, or the final table differs). "
                       f"smallest: program={s['program']} history={json.dumps(s['history'])}\n"
                       f"diag (index of the first failing operation, final model state): {diag[-800:]}\nprogram:\n{src}\nterm: {s['term'][:2000]}")
    if bad_segs:
        s = min(bad_segs, key=lambda s: (s["n_ops"], len(s["term"])))
        diag = C.eval_term(PID + "_seg", PREAMBLE, f"diag_seg {s['term']}")
        src = next((p["src"] for p in all_progs if p["id"] == s["program"]), None)
        out.add_broken("correspondence:C09-trace-inclusion",
                       f"{len(bad_segs)} of {len(seg_list)} distinct segments of real runs are not runs of V2.Index "
                       f"(an operation outside the discipline, or the model's final index differs from the real one). "
                       f"smallest: program={s['program']} history={json.dumps(s['history'])}\n"
                       f"diag (Some (op index, code) | final model state): {diag[-1500:]}\nprogram:\n{src}\nterm: {s['term'][:3000]}")
    if bad_snaps:
        s = min(bad_snaps, key=lambda s: len(s["term"]))
        src = next((p["src"] for p in all_progs if p["id"] == s["program"]), None)
        q = C.eval_term(PID + "_snap", PREAMBLE, f"(check_quiescent {s['term']}, check_exact {s['term']})")
        out.add_broken("correspondence:C09-snapshot-predicates",
                       f"{len(bad_snaps)} of {len(snap_list)} distinct snapshots of the real State after run_to_completion fail "
                       f"quiescentb/exactb evaluated in Coq; smallest: program={s['program']} history={json.dumps(s['history'])} "
                       f"(quiescent, exact)={q[-200:]}\nprogram:\n{src}\nterm: {s['term'][:3000]}")
    if unknown:
        u = min(unknown, key=lambda u: (len(u["history"]), len(u["src"])))
        out.add_broken("correspondence:C09-unmodelled-operation",
                       f"{len(unknown)}+ traced mutations are not operations of V2.Index; e.g. `{u['what']}` in program\n{u['src']}\nhistory={json.dumps(u['history'])}")
    if unsupported:
        u = unsupported[0]
        out.add_broken("correspondence:C09-untranslatable", f"{len(unsupported)}+ segments could not be printed as Coq terms: {u['what']}\n{u['src']}")
    if not results:
        out.add_broken("harness:no-results", json.dumps(hangs)[:2000])
    elif loads.get("ok", 0) * 2 < len(all_progs) or agg["oracle_evals"] == 0:
        out.add_broken("harness:exploration-degenerate",
                       f"only {loads.get('ok', 0)} of {len(all_progs)} programs could be started ({loads}); run status {status_counts}; "
                       f"first crashes: {json.dumps(crashes[:3])[:1500]}")

    n_nontrivial = sum(1 for s in seg_list if s["nontrivial"])
    out.coverage.update({
        "evaluations": agg["runs"],
        "distinct_nontrivial": n_nontrivial,
        "rule": "one evaluation = one traced run_to_completion of the real interpreter (oracle evaluated after each); a case = a "
                "DISTINCT segment (snapshot before, operations, snapshot after; uids renamed by first occurrence) replayed on V2.Index "
                "in Coq; non-trivial = the index content changes or the segment creates/deletes heads or instances",
        "samples": [{"program": s["program"], "history": s["history"], "n_ops": s["n_ops"]} for s in seg_list[:3]],
        "input_distribution": {
            "programs": len(all_progs), "programs_with_result": len(results), "generated": len(progs), "library_variants": len(libs),
            "corpus": len(corpus), "modes": per_mode, "load": loads, "library_load": lib_status,
            "history_length": cfg["max_len"], "choice_schedules_per_event": cfg["max_scheds"], "random_choice_points": agg["choice_points"],
            "op_mix": op_hist, "run_status": status_counts, "programs_truncated_by_run_budget": truncated, "of_which_by_wall_clock(nondeterministic)": truncated_time,
            "max_runs_per_program": cfg.get("max_runs"),
            "programs_by_exhaustively_explored_history_length": {str(k): v for k, v in sorted(complete.items())},
            "json_roundtrips": agg["roundtrips"], "json_roundtrip_errors(C11)": agg["roundtrip_errors"],
        },
        "traces_validated_against_impl": len(seg_list),
        "distinct_segments": len(seg_list), "distinct_snapshots_checked_in_coq": len(snap_list),
        "operations_traced": agg["ops"], "oracle_evaluations": agg["oracle_evals"],
        "oracle_violations": len(findings),
        "correspondence_disagreements": len(bad_segs) + len(bad_snaps) + len(unknown) + len(bad_asegs),
        "distinct_action_reference_segments": len(aseg_list), "action_reference_operations_traced": agg["aops"],
        "hangs_or_killed_programs(C10)": hangs[:10], "hang_count": len(hangs) + status_counts.get("hang", 0),
        "crashes(C10)": crashes[:5],
        "observation_fork_table_entries_pointing_to_deleted_heads": agg["obs_fork_table_dangling"],
        "explore_s": explore_s,
        "positions_revisited_with_another_event_name(sampled)": len(drift),
    })
    out.assumptions += [
        "the theorems speak about V2.Index; the real interpreter is tied to it by trace inclusion on the explored runs only "
        "(generated grammar + library flows, histories up to the stated length, enumerated random.choice outcomes)",
        "C09_quiescent (run_to_completion always reaches a quiescent state) is NOT proved: validated by exploration, quiescentb "
        "evaluated inside Coq on every distinct snapshot of the real State after an event",
        "the program table (element kind and event-name key per instance and position) is data computed with the repository's own "
        "get_event_name_from_element",
        "the reverse-map key flow_uid+head_uid is modelled as the pair; head uids are 36-character uuid4 strings (checked when printing)",
        "harness instrumentation (monkeypatched setters, __setattr__ hooks, traced dicts) and the grouping of low-level events into "
        "operations (group_events) are trusted",
        "hangs and exceptions escaping run_to_completion are recorded but belong to C10",
    ]
    if tier == "thorough" and b["ok"]:
        ok, log = C.coqchk(PID, b["files"])
        out.coverage["coqchk"] = "ok" if ok else "FAILED"
        if not ok:
            out.add_broken("coqchk", log)
    return C.finish(out)


if __name__ == "__main__":
    if len(sys.argv) >= 4 and sys.argv[1] == "--worker":
        sys.path.insert(1, C.REPO)
        worker_main(sys.argv[2], sys.argv[3])
    elif len(sys.argv) >= 2 and sys.argv[1] == "--gen":
        g = ProgGen(random.Random(int(sys.argv[2]) if len(sys.argv) > 2 else 0))
        src, alpha = g.program()
        print(src)
        print(alpha)
