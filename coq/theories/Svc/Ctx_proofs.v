(* C15 - proofs about Svc/Ctx.v *)
From Coq Require Import List Bool Arith.
From NG Require Import Svc.Ctx.
Import ListNotations.

(* when the entry code always writes the variable, every request's LLM calls see exactly the
   request's own options - for every sequence of requests and task creations, whatever ran
   before in the same or in any other context *)
Theorem own_options_seen : forall (V : Type) (ops : list (cop V)) (c : ctxs V),
    Forall (fun x => snd x = fst x) (crun V true c ops).
Proof.
  intros V ops. induction ops as [|o rest IH]; intros c; simpl.
  - constructor.
  - destruct o as [p ch | k own]; simpl.
    + apply IH.
    + constructor; [reflexivity | apply IH].
Qed.

(* when it writes only for requests that carry options, a request without options served in a
   context that served one with options before sees the other request's options *)
Theorem conditional_set_refuted :
  exists (ops : list (cop nat)) own seen,
    In (own, seen) (crun nat false (cinit nat) ops) /\ own = None /\ seen = Some 7.
Proof.
  exists [CReq 0 (Some 7); CReq 0 None], None, (Some 7). split; [|split; reflexivity].
  simpl. right. left. reflexivity.
Qed.

(* ... but not across tasks: a child created BEFORE the other request ran does not see it *)
Example fork_isolates :
  crun nat false (cinit nat) [CFork 0 1; CReq 0 (Some 7); CReq 1 None] = [(Some 7, Some 7); (None, None)].
Proof. reflexivity. Qed.
