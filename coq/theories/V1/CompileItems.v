(* C12 (Colang 1.0) - data of the flow compiler nemoguardrails/colang/v1_0/lang/coyml_parser.py

   `item`  : the structured CoYML item list that `_extract_elements` receives (after
             `_dict_to_element`): leaves, `if` (then/else), `while` (do), `any` (leaf children)
             and raw python lists (= one branch each; consecutive lists form one branch group).
   `elem`  : a flat element as the runtime sees it, restricted to what decides closedness:
             the `_type` and every offset field, as INTEGERS (Z), so that "lands outside the
             flow" is expressible.  Definitions only. *)
From Coq Require Import ZArith List String Bool.
Import ListNotations.
Open Scope Z_scope.

(* leaves: what `_dict_to_element` returns for a shorthand dict that is not if/while/any *)
Inductive leaf :=
| LOther (t : string)          (* UserIntent, run_action, flow, meta, an event type, ... *)
| LCheck
| LStop                        (* `stop` / `abort` given as CoYML (the .co keyword compiles to `bot stop`) *)
| LBreak
| LContinue                    (* `pass` / `continue` *)
| LReturn                      (* {"_type":"jump","_next":"-1","_absolute":True} *)
| LSet (ellipsis : bool)       (* `$x = ...` is rewritten by _process_ellipsis *)
| LLabel (name : string)       (* `label` / `checkpoint` *)
| LGoto (name : string).

Inductive item :=
| ILeaf (l : leaf)
| IIf (th el : list item)
| IWhile (body : list item)
| IAny (children : list leaf)
| IList (branch : list item).

Inductive etype :=
| TOther (t : string)
| TCheck | TStop | TBreak | TContinue
| TSet (ellipsis : bool)
| TLabel (name : string)       (* only before _resolve_gotos *)
| TGoto (name : string)        (* only before _resolve_gotos *)
| TIf | TWhile | TJump | TBranch | TAny.

Record elem := mkE {
  e_type  : etype;
  e_next  : option Z;          (* _next *)
  e_abs   : bool;              (* _absolute *)
  e_else  : option Z;          (* _next_else *)
  e_brk   : option Z;          (* _next_on_break *)
  e_cont  : option Z;          (* _next_on_continue *)
  e_heads : list Z;            (* branch_heads *)
  e_label : option string      (* _label (set on the jump a label becomes) *)
}.

Definition plain (t : etype) : elem := mkE t None false None None None [] None.
Definition jump (n : Z) : elem := mkE TJump (Some n) false None None None [] None.

(* Python exceptions of _resolve_gotos *)
Inductive cerr := DupLabel | UndefLabel.
Inductive res (A : Type) := Ok (a : A) | Err (e : cerr).
Arguments Ok {A}. Arguments Err {A}.

(* ---- boolean equalities used by the correspondence check ---- *)
Definition etype_eqb (a b : etype) : bool :=
  match a, b with
  | TOther s, TOther t => String.eqb s t
  | TCheck, TCheck | TStop, TStop | TBreak, TBreak | TContinue, TContinue => true
  | TSet x, TSet y => Bool.eqb x y
  | TLabel s, TLabel t => String.eqb s t
  | TGoto s, TGoto t => String.eqb s t
  | TIf, TIf | TWhile, TWhile | TJump, TJump | TBranch, TBranch | TAny, TAny => true
  | _, _ => false
  end.

Definition opt_eqb {A} (eqb : A -> A -> bool) (a b : option A) : bool :=
  match a, b with
  | None, None => true
  | Some x, Some y => eqb x y
  | _, _ => false
  end.

Fixpoint list_eqb {A} (eqb : A -> A -> bool) (a b : list A) : bool :=
  match a, b with
  | [], [] => true
  | x :: a', y :: b' => eqb x y && list_eqb eqb a' b'
  | _, _ => false
  end.

Definition elem_eqb (a b : elem) : bool :=
  etype_eqb (e_type a) (e_type b) && opt_eqb Z.eqb (e_next a) (e_next b) &&
  Bool.eqb (e_abs a) (e_abs b) && opt_eqb Z.eqb (e_else a) (e_else b) &&
  opt_eqb Z.eqb (e_brk a) (e_brk b) && opt_eqb Z.eqb (e_cont a) (e_cont b) &&
  list_eqb Z.eqb (e_heads a) (e_heads b) && opt_eqb String.eqb (e_label a) (e_label b).
