(* C09 - After each event the interpreter is quiescent and its dispatch index is exact.
   Property theorems only; every proof is `exact <lemma>`; Print Assumptions beneath each.

   The theorems are about V2.Index: flow instances, heads, State.event_matching_heads, the
   reverse map and exactly the mutations statemachine.py / flows.py perform on them, each with
   the side condition (the discipline) under which the real code performs it; `step` fails when
   a side condition is violated.  `run prog empty_state ops = Ok s` therefore reads: s is the
   state after ANY finite sequence of operations that respects the discipline, for ANY program
   table.  harness/c09.py checks on every explored run of the real interpreter that its traced
   mutations are such a sequence (IndexRun.check_seg, trace inclusion).

   NOT proved (needs the whole interpreter): "run_to_completion always ends in a quiescent
   state".  That part - C09_quiescent - is VALIDATED BY EXPLORATION: `quiescentb` is evaluated
   inside Coq (IndexRun.check_snap) on every distinct snapshot of the real State after an
   event; what IS proved about quiescence is below (C09_quiescent_index_exact,
   C09_done_instances_hold_no_position, C09_no_dispatch_to_dead). *)
From Coq Require Import NArith List Bool.
From NG Require Import V2.Index V2.Index_proofs V2.IndexRun V2.IndexRun_proofs V2.Index_examples V2.Refs V2.Refs_proofs.
Import ListNotations.
Open Scope N_scope.

(* the invariant (no duplicate, no stale entry, no missed head, reverse map exactly inverse,
   done instances without heads, dict keys unique) is preserved by every single operation *)
Theorem C09_invariant_preserved :
  forall prog s o s', Inv prog s -> step prog s o = Ok s' -> Inv prog s'.
Proof. exact step_inv. Qed.
Print Assumptions C09_invariant_preserved.

Theorem C09_invariant_initially : forall prog, Inv prog empty_state.
Proof. exact empty_inv. Qed.
Print Assumptions C09_invariant_initially.

(* exactness: after any finite sequence of operations, whenever no instance is in the transient
   STOPPING status (always the case at quiescence), the index holds per event name exactly the
   multiset a from-scratch scan of all listening instances finds *)
Theorem C09_index_exact :
  forall prog ops s,
    run prog empty_state ops = Ok s -> no_stopping s ->
    forall n k, count_occ key_dec (ix_get s n) k = count_occ key_dec (scan prog s n) k.
Proof. exact reachable_index_exact. Qed.
Print Assumptions C09_index_exact.

(* ... and at every moment (STOPPING instances included): no duplicates, every head a scan finds
   is registered, every registered entry is an attached non-inactive head on that match *)
Theorem C09_index_sandwich :
  forall prog ops s,
    run prog empty_state ops = Ok s ->
    forall n k,
      (count_occ key_dec (ix_get s n) k <= 1)%nat /\
      (scanb prog s n k = true -> count_occ key_dec (ix_get s n) k = 1%nat) /\
      (count_occ key_dec (ix_get s n) k = 1%nat -> relevant prog s k = Some n).
Proof. exact reachable_index_sandwich. Qed.
Print Assumptions C09_index_sandwich.

(* the reverse map is exactly the inverse of the index *)
Theorem C09_reverse_map_inverse :
  forall prog ops s,
    run prog empty_state ops = Ok s ->
    forall k n, rev_get s k = Some n <-> In k (ix_get s n).
Proof. exact reachable_rev_exact. Qed.
Print Assumptions C09_reverse_map_inverse.

(* the same from any snapshot that satisfies the invariant (runs are continued from snapshots) *)
Theorem C09_index_exact_continued :
  forall prog s0 ops s,
    Inv prog s0 -> run prog s0 ops = Ok s -> no_stopping s ->
    forall n k, count_occ key_dec (ix_get s n) k = count_occ key_dec (scan prog s n) k.
Proof. exact continued_index_exact. Qed.
Print Assumptions C09_index_exact_continued.

(* quiescence part, on the model: a quiescent snapshot has an exact index *)
Theorem C09_quiescent_index_exact :
  forall prog ops sn,
    run prog empty_state ops = Ok (sn_state sn) -> quiescentb prog sn = true ->
    forall n k, count_occ key_dec (ix_get (sn_state sn) n) k = count_occ key_dec (scan prog (sn_state sn) n) k.
Proof. exact reachable_quiescent_exact. Qed.
Print Assumptions C09_quiescent_index_exact.

(* the decision procedure evaluated in Coq on the snapshots of the real State is sound: on a
   snapshot with unique dict keys it implies that the index is exactly the scan *)
Theorem C09_exactb_sound :
  forall prog s,
    WF s -> exactb prog s = true ->
    forall n k, count_occ key_dec (ix_get s n) k = count_occ key_dec (scan prog s n) k.
Proof. exact exactb_sound. Qed.
Print Assumptions C09_exactb_sound.

(* finished or failed instances hold no position *)
Theorem C09_done_instances_hold_no_position :
  forall prog ops s,
    run prog empty_state ops = Ok s ->
    forall f i, find_inst s f = Some i -> is_done (i_st i) = true -> i_heads i = [].
Proof. exact reachable_done_no_heads. Qed.
Print Assumptions C09_done_instances_hold_no_position.

(* the next event is never dispatched to a dead instance or to a head that no longer exists *)
Theorem C09_no_dispatch_to_dead :
  forall prog ops s,
    run prog empty_state ops = Ok s ->
    forall n k, In k (ix_get s n) ->
      exists i hd, find_inst s (fst k) = Some i /\ is_done (i_st i) = false /\
                   aget N.eqb (i_heads i) (snd k) = Some hd /\ h_st hd <> HInactive /\
                   prog (fst k) (h_pos hd) = Some (EMatch n).
Proof. exact reachable_no_dispatch_to_dead. Qed.
Print Assumptions C09_no_dispatch_to_dead.

(* every action referenced by a running flow still exists: V2.Refs models State.actions against
   the references of the instances (action_uids, scope action lists); an action is removed
   (del, or the rebuild of the 5-second clean-up) only if no listening instance references it.
   After any finite sequence of such operations - from the empty state or from a snapshot of the
   real State that passed refs_okb - every listening instance only references existing actions *)
Theorem C09_refs_exist :
  forall ops s, arun empty_astate ops = Some s -> ARefsOK s.
Proof. exact reachable_refs_exist. Qed.
Print Assumptions C09_refs_exist.

Theorem C09_refs_exist_continued :
  forall s0 ops s,
    refs_okb (a_actions s0) (a_insts s0) = true -> arun s0 ops = Some s -> ARefsOK s.
Proof. exact continued_refs_exist. Qed.
Print Assumptions C09_refs_exist_continued.

(* dropping a shared action together with its finished owner is not a step *)
Theorem C09_shared_action_dropped_is_no_step :
  arun empty_astate
    [ASetInst 1 true []; ASetInst 2 true []; AAddAction 7;
     ASetInst 1 true [7]; ASetInst 2 true [7];
     ASetInst 1 false [7]; ADropInst 1; AReplaceActions []]
  = None.
Proof. exact shared_action_dropped_is_no_step. Qed.
Print Assumptions C09_shared_action_dropped_is_no_step.

(* regression documentation: the operations a broken discipline would produce are not steps *)
Theorem C09_clear_without_removal_is_no_step :
  run (prog_of t0) empty_state (ops0 ++ [OClearHeads 1 []]) = Fail E_STALE.
Proof. exact clear_without_removal_rejected. Qed.
Print Assumptions C09_clear_without_removal_is_no_step.

Theorem C09_silent_setter_is_no_step :
  run (prog_of t0) empty_state (ops0 ++ [OSetStatus 1 11 HInactive NoFire]) = Fail E_FIRE.
Proof. exact silent_setter_rejected. Qed.
Print Assumptions C09_silent_setter_is_no_step.

(* the hypotheses above are inhabited by a non-trivial reachable, quiescent state *)
Theorem C09_hypotheses_inhabited :
  run (prog_of t0) empty_state ops0 = Ok s_ex
  /\ ix_get s_ex 2 = [(1, 11)]
  /\ quiescentb (prog_of t0) sn_ex = true
  /\ exactb (prog_of t0) s_ex = true.
Proof. exact reachable_nontrivial. Qed.
Print Assumptions C09_hypotheses_inhabited.
