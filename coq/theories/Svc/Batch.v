(* C19 - transition system of BasicEmbeddingsIndex._batch_get_embeddings / _run_batch
   (nemoguardrails/embeddings/basic.py), composed with the cache_embeddings wrapper of
   Svc/EmbCache.v around the model call.

   asyncio is a transition system: an atomic step is the code one task runs between two
   suspensions; the scheduler is any sequence of enabled labels.  Real time is not modelled:
   expiry of `asyncio.sleep(self.max_batch_hold)` (LTimer) and the return of the embedding
   model (LModel) are scheduler choices, as is the moment a request task first runs (arrival).

   Shared state = the attributes of the index object (real names):
     _req_queue, _req_results, _req_idx, _current_batch_finished_event,
     _current_batch_full_event, _current_batch_submitted.
   asyncio.Event objects: the pair (finished, full) created for the k-th batch is event pair k
   (k = number of _run_batch tasks spawned before); an Event that is set stays set (only
   _current_batch_submitted is ever cleared, so its waiters carry a `woken` flag: Event.wait()
   returns once the waiter's future was resolved by set(), whatever clear() did afterwards).
   `await ev.wait()` on an event that is already set does not suspend.

   Tasks: one per request (pc rpc), one per _run_batch (pc bpc).  The two helper tasks
   _run_batch creates for asyncio.wait (the sleep and full_event.wait()) touch no shared state
   and are folded into the enabling condition of the batch task's second step.

   Python exceptions are explicit pcs (RError / BError); the `while` loop that would spin
   without ever suspending (queue full while _current_batch_submitted is set) is RSpin.
   Definitions only. *)
From Coq Require Import List Bool Arith.
From NG Require Import Svc.EmbCache.
Import ListNotations.

Fixpoint upd {A : Type} (l : list A) (i : nat) (x : A) : list A :=
  match l, i with
  | [], _ => []
  | _ :: r, 0 => x :: r
  | a :: r, S i' => a :: upd r i' x
  end.

Definition memb (k : nat) (l : list nat) : bool := existsb (Nat.eqb k) l.

(* Python dict with int keys, insertion order kept *)
Section Dict.
  Variable V : Type.
  Definition dict := list (nat * V).
  Fixpoint dict_get (d : dict) (k : nat) : option V :=
    match d with
    | [] => None
    | (k', v) :: r => if k =? k' then Some v else dict_get r k
    end.
  Fixpoint dict_set (d : dict) (k : nat) (v : V) : dict :=
    match d with
    | [] => [(k, v)]
    | (k', v') :: r => if k =? k' then (k', v) :: r else (k', v') :: dict_set r k v
    end.
  Fixpoint dict_del (d : dict) (k : nat) : dict :=
    match d with
    | [] => []
    | (k', v') :: r => if k =? k' then r else (k', v') :: dict_del r k
    end.
End Dict.
Arguments dict_get {V} d k.
Arguments dict_set {V} d k v.
Arguments dict_del {V} d k.

Inductive cache_mode :=
| CacheOff        (* cache_config.enabled = False *)
| CacheLocal      (* store "in_memory": EmbeddingsCache.from_config builds a fresh store per call *)
| CacheShared.    (* store "filesystem": one persistent store *)

Inductive label :=
| LReq (i : nat)      (* request task i runs its next atomic step *)
| LBatch (k : nat)    (* _run_batch task k runs its next atomic step *)
| LTimer (k : nat)    (* asyncio.sleep(max_batch_hold) of batch k expires *)
| LModel (k : nat).   (* the model answers batch k's call and task k runs on to its end *)

Section Batch.
  Variables text key vec : Type.
  Variable text_eq_dec : forall a b : text, {a = b} + {a <> b}.
  Variable key_eq_dec : forall a b : key, {a = b} + {a <> b}.
  Variable kg : text -> key.
  Variable emb : text -> vec.            (* the embedding model, text by text *)
  Variable max_batch_size : nat.
  Variable cmode : cache_mode.

  Inductive rpc :=
  | RInit                            (* _batch_get_embeddings(text) not entered yet *)
  | RWaitSub (woken : bool)          (* in `await self._current_batch_submitted.wait()` *)
  | RWaitFin (rid : nat) (k : nat)   (* in `await self._current_batch_finished_event.wait()` on event k, req_id = rid *)
  | RDone (r : option vec)           (* returned r (None = Python None) *)
  | RError                           (* KeyError / AttributeError escaped *)
  | RSpin.                           (* `while len(queue) >= max: await <set event>.wait()` never suspends *)

  Inductive bpc :=
  | BInit                                          (* spawned by ensure_future, not run yet *)
  | BHold (full : nat) (fired : bool)              (* in asyncio.wait([sleep(hold), full_event.wait()]) *)
  | BModel (ev : option nat) (items : list (nat * text))
           (cached : tdict text vec) (uncached : list text)   (* awaiting the model call *)
  | BDone
  | BError.

  Record state := mkState {
    req_queue : dict text;                 (* self._req_queue : {req_id: text} *)
    req_results : dict (option vec);       (* self._req_results : {req_id: embedding} *)
    req_idx : nat;                         (* self._req_idx *)
    cur_finished : option nat;             (* self._current_batch_finished_event : None | Event k *)
    cur_full : option nat;                 (* self._current_batch_full_event *)
    submitted : bool;                      (* self._current_batch_submitted.is_set() *)
    finished_set : list nat;               (* finished events that are set *)
    full_set : list nat;                   (* full events that are set *)
    reqs : list (text * rpc);              (* request tasks with their argument *)
    batches : list bpc;                    (* _run_batch tasks, in spawn order *)
    cstore : store key vec                 (* the persistent cache store (CacheShared) *)
  }.

  Definition init (texts : list text) (st : store key vec) : state :=
    mkState [] [] 0 None None false [] [] (map (fun t => (t, RInit)) texts) [] st.

  Definition set_req (s : state) (i : nat) (x : text * rpc) : state :=
    mkState (req_queue s) (req_results s) (req_idx s) (cur_finished s) (cur_full s) (submitted s)
            (finished_set s) (full_set s) (upd (reqs s) i x) (batches s) (cstore s).

  Definition set_batch (s : state) (k : nat) (b : bpc) : state :=
    mkState (req_queue s) (req_results s) (req_idx s) (cur_finished s) (cur_full s) (submitted s)
            (finished_set s) (full_set s) (reqs s) (upd (batches s) k b) (cstore s).

  Definition with_store (s : state) (st : store key vec) : state :=
    mkState (req_queue s) (req_results s) (req_idx s) (cur_finished s) (cur_full s) (submitted s)
            (finished_set s) (full_set s) (reqs s) (batches s) st.

  (* result = self._req_results[req_id]; del self._req_results[req_id]; return result *)
  Definition fetch (s : state) (i : nat) (t : text) (rid : nat) : state :=
    match dict_get (req_results s) rid with
    | Some r =>
        mkState (req_queue s) (dict_del (req_results s) rid) (req_idx s) (cur_finished s) (cur_full s)
                (submitted s) (finished_set s) (full_set s) (upd (reqs s) i (t, RDone r)) (batches s) (cstore s)
    | None => set_req s i (t, RError)
    end.

  (* _batch_get_embeddings from the `while` test to the suspension in finished_event.wait() *)
  Definition req_enter (s : state) (i : nat) (t : text) : state :=
    if max_batch_size <=? length (req_queue s) then
      set_req s i (t, if submitted s then RSpin else RWaitSub false)
    else
      let rid := req_idx s in
      let q := dict_set (req_queue s) rid t in
      let nb := length (batches s) in
      (* if self._current_batch_finished_event is None: new events, submitted.clear(), ensure_future *)
      let fin := match cur_finished s with None => nb | Some k => k end in
      let full := match cur_finished s with None => Some nb | Some _ => cur_full s end in
      let sub := match cur_finished s with None => false | Some _ => submitted s end in
      let bs := match cur_finished s with None => batches s ++ [BInit] | Some _ => batches s end in
      (* if len(self._req_queue) >= self.max_batch_size: self._current_batch_full_event.set() *)
      let fset := if max_batch_size <=? length q
                  then match full with Some f => Some (f :: full_set s) | None => None end
                  else Some (full_set s) in
      match fset with
      | None => mkState q (req_results s) (S rid) (Some fin) full sub (finished_set s) (full_set s)
                        (upd (reqs s) i (t, RError)) bs (cstore s)
      | Some fs =>
          let s1 := mkState q (req_results s) (S rid) (Some fin) full sub (finished_set s) fs
                            (reqs s) bs (cstore s) in
          if memb fin (finished_set s) then fetch s1 i t rid
          else set_req s1 i (t, RWaitFin rid fin)
      end.

  (* _current_batch_submitted.set(): every waiter's future is resolved *)
  Definition wake (r : text * rpc) : text * rpc :=
    match r with
    | (t, RWaitSub _) => (t, RWaitSub true)
    | _ => r
    end.

  (* for i in range(len(embeddings)): self._req_results[batch_ids[i]] = embeddings[i] *)
  Fixpoint assign (ids : list nat) (embs : list (option vec)) (res : dict (option vec))
    : option (dict (option vec)) :=
    match embs with
    | [] => Some res
    | e :: embs' => match ids with
                    | [] => None
                    | id :: ids' => assign ids' embs' (dict_set res id e)
                    end
    end.

  (* the tail of _run_batch once `embeddings` is known: store results, batch_event.set() *)
  Definition finish (s : state) (k : nat) (ev : option nat) (ids : list nat)
             (embs : list (option vec)) : state :=
    match assign ids embs (req_results s) with
    | None => set_batch s k BError
    | Some res =>
        match ev with
        | None => mkState (req_queue s) res (req_idx s) (cur_finished s) (cur_full s) (submitted s)
                          (finished_set s) (full_set s) (reqs s) (upd (batches s) k BError) (cstore s)
        | Some e => mkState (req_queue s) res (req_idx s) (cur_finished s) (cur_full s) (submitted s)
                            (e :: finished_set s) (full_set s) (reqs s) (upd (batches s) k BDone) (cstore s)
        end
    end.

  (* self._get_embeddings(batch) = cache_embeddings(func): first half, and whether func
     (the model) is awaited at all *)
  Definition call_store (s : state) : store key vec :=
    match cmode with CacheShared => cstore s | _ => [] end.

  Definition begin_call (s : state) (batch : list text) : tdict text vec * list text :=
    match cmode with
    | CacheOff => ([], batch)
    | _ => wrap_begin text_eq_dec key_eq_dec kg (call_store s) batch
    end.

  Definition needs_model (u : list text) : bool :=
    match cmode with
    | CacheOff => true
    | _ => match u with [] => false | _ :: _ => true end
    end.

  Definition end_call (s : state) (batch : list text) (c : tdict text vec) (u : list text)
             (fresh : list vec) : list (option vec) * store key vec :=
    match cmode with
    | CacheOff => (map Some fresh, cstore s)
    | CacheLocal => (fst (wrap_end text_eq_dec key_eq_dec kg [] batch c u fresh), cstore s)
    | CacheShared => wrap_end text_eq_dec key_eq_dec kg (cstore s) batch c u fresh
    end.

  (* _run_batch after asyncio.wait returned, up to the model call (or to the end when the
     cache answers everything) *)
  Definition collect (s : state) (k : nat) : state :=
    let ev := cur_finished s in
    let items := req_queue s in
    let batch := map snd items in
    let s1 := mkState [] (req_results s) (req_idx s) None (cur_full s) true (finished_set s)
                      (full_set s) (map wake (reqs s)) (batches s) (cstore s) in
    let '(c, u) := begin_call s batch in
    if needs_model u then set_batch s1 k (BModel ev items c u)
    else let '(embs, st) := end_call s1 batch c u [] in
         finish (with_store s1 st) k ev (map fst items) embs.

  Definition step (l : label) (s : state) : option state :=
    match l with
    | LReq i =>
        match nth_error (reqs s) i with
        | Some (t, RInit) => Some (req_enter s i t)
        | Some (t, RWaitSub true) => Some (req_enter s i t)
        | Some (t, RWaitFin rid k) =>
            if memb k (finished_set s) then Some (fetch s i t rid) else None
        | _ => None
        end
    | LBatch k =>
        match nth_error (batches s) k with
        | Some BInit =>
            Some (set_batch s k (match cur_full s with Some f => BHold f false | None => BError end))
        | Some (BHold f fired) =>
            if fired || memb f (full_set s) then Some (collect s k) else None
        | _ => None
        end
    | LTimer k =>
        match nth_error (batches s) k with
        | Some (BHold f false) => Some (set_batch s k (BHold f true))
        | _ => None
        end
    | LModel k =>
        match nth_error (batches s) k with
        | Some (BModel ev items c u) =>
            let '(embs, st) := end_call s (map snd items) c u (map emb u) in
            Some (finish (with_store s st) k ev (map fst items) embs)
        | _ => None
        end
    end.

  Definition enabled (l : label) (s : state) : bool :=
    match step l s with Some _ => true | None => false end.

  (* a finite schedule: every label must be enabled when its turn comes *)
  Fixpoint exec (sched : list label) (s : state) : option state :=
    match sched with
    | [] => Some s
    | l :: r => match step l s with Some s' => exec r s' | None => None end
    end.

  (* an infinite schedule: a slot whose label is not enabled is an idle slot *)
  Definition step_or_stay (l : label) (s : state) : state :=
    match step l s with Some s' => s' | None => s end.

  Fixpoint run (sched : nat -> label) (s0 : state) (n : nat) : state :=
    match n with
    | 0 => s0
    | S m => step_or_stay (sched m) (run sched s0 m)
    end.

  Definition req_done (r : text * rpc) : bool :=
    match r with (_, RDone _) => true | _ => false end.

  Definition all_done (s : state) : bool := forallb req_done (reqs s).

End Batch.

Arguments RInit {vec}.
Arguments RWaitSub {vec} woken.
Arguments RWaitFin {vec} rid k.
Arguments RDone {vec} r.
Arguments RError {vec}.
Arguments RSpin {vec}.
Arguments BInit {text vec}.
Arguments BHold {text vec} full fired.
Arguments BModel {text vec} ev items cached uncached.
Arguments BDone {text vec}.
Arguments BError {text vec}.
Arguments req_queue {text key vec} s.
Arguments req_results {text key vec} s.
Arguments req_idx {text key vec} s.
Arguments cur_finished {text key vec} s.
Arguments cur_full {text key vec} s.
Arguments submitted {text key vec} s.
Arguments finished_set {text key vec} s.
Arguments full_set {text key vec} s.
Arguments reqs {text key vec} s.
Arguments batches {text key vec} s.
Arguments cstore {text key vec} s.
Arguments init {text key vec} texts st.
Arguments all_done {text key vec} s.
Arguments req_done {text vec} r.
Arguments step {text key vec} text_eq_dec key_eq_dec kg emb max_batch_size cmode l s.
Arguments enabled {text key vec} text_eq_dec key_eq_dec kg emb max_batch_size cmode l s.
Arguments exec {text key vec} text_eq_dec key_eq_dec kg emb max_batch_size cmode sched s.
Arguments run {text key vec} text_eq_dec key_eq_dec kg emb max_batch_size cmode sched s0 n.
Arguments step_or_stay {text key vec} text_eq_dec key_eq_dec kg emb max_batch_size cmode l s.
Arguments set_req {text key vec} s i x.
Arguments set_batch {text key vec} s k b.
Arguments with_store {text key vec} s st.
Arguments fetch {text key vec} s i t rid.
Arguments req_enter {text key vec} max_batch_size s i t.
Arguments wake {text vec} r.
Arguments assign {vec} ids embs res.
Arguments finish {text key vec} s k ev ids embs.
Arguments call_store {text key vec} cmode s.
Arguments begin_call {text key vec} text_eq_dec key_eq_dec kg cmode s batch.
Arguments needs_model {text} cmode u.
Arguments end_call {text key vec} text_eq_dec key_eq_dec kg cmode s batch c u fresh.
Arguments collect {text key vec} text_eq_dec key_eq_dec kg cmode s k.
Arguments mkState {text key vec} req_queue req_results req_idx cur_finished cur_full submitted finished_set full_set reqs batches cstore.
