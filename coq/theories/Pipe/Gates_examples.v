(* Pipe.Gates_examples - non-vacuity: concrete turns / conversations that inhabit the hypotheses
   of the C01 / C02 theorems (evaluated by vm_compute on the models). *)
From Coq Require Import List String Bool Arith.
From NG Require Import Pipe.Rails Pipe.TurnV1 Pipe.TurnV2.
Import ListNotations.
Open Scope string_scope.
Open Scope list_scope.

Definition ex_llm (t i : nat) (p : prompt) : text :=
  (* the completion echoes what flowed into the prompt, so leaks would be visible *)
  String.concat "|" (map (fun h => match h with HUser x => x | HBot x => x end) (p_hist p) ++ [p_user p]).

Definition ex_turn (vf : nat -> nat -> rail -> text -> verdict) :=
  turn_v1 vf ex_llm (fun o => o) (fun _ _ => DAsk) (fun o => o) (fun _ => None) (fun o => o) "REFUSED".

Definition ex_cf := mkCfg [10; 11; 12] [20; 21] false false false.

(* rail 11 rewrites *)
Definition vf_rw (t c : nat) (r : rail) (x : text) : verdict :=
  if Nat.eqb r 11 then Rewrite "clean" else if Nat.eqb r 21 then Rewrite (x ++ "!")%string else Accept.

Definition ex_rewrite_statement : Prop :=
  let '(st, tr, rp) := ex_turn vf_rw ex_cf init_state "secret" in
  rail_calls SIn tr = [(10, "secret"); (11, "secret"); (12, "clean")] /\
  map (fun ip => p_user (snd ip)) (llm_calls tr) = ["clean"] /\
  rail_calls SOut tr = [(20, "clean|clean"); (21, "clean|clean")] /\
  rp = RMsg ["clean|clean!"] /\ user_message st = Some "clean" /\ skip st = false.

Lemma ex_rewrite : ex_rewrite_statement.
Proof. vm_compute. repeat split; reflexivity. Qed.

(* rail 11 rejects *)
Definition vf_rej (t c : nat) (r : rail) (x : text) : verdict := if Nat.eqb r 11 then Reject else Accept.

Definition ex_reject_statement : Prop :=
  let '(st, tr, rp) := ex_turn vf_rej ex_cf init_state "bad" in
  nth_error (rail_calls SIn tr) 1 = Some (11, "bad") /\ vf_rej (tidx init_state) 1 11 "bad" = Reject /\
  rail_calls SIn tr = [(10, "bad"); (11, "bad")] /\ llm_calls tr = [] /\ rp = RMsg ["REFUSED"].

Lemma ex_reject : ex_reject_statement.
Proof. vm_compute. repeat split; reflexivity. Qed.

(* two inputs, same rewritten text *)
Definition ex_nonint_statement : Prop :=
  exists tr1 c1 tr2 c2,
    run_rails (vf_rw 0) SIn (irails ex_cf) 0 "secret one" = (tr1, c1, Passed "clean") /\
    run_rails (vf_rw 0) SIn (irails ex_cf) 0 "another secret" = (tr2, c2, Passed "clean") /\
    tr1 <> tr2.

Lemma ex_nonint : ex_nonint_statement.
Proof. do 4 eexists. split; [vm_compute; reflexivity|]. split; [vm_compute; reflexivity|]. discriminate. Qed.

(* ---- C02: a 4-turn conversation in which turn 1 is blocked by an output rail and turn 2 is
   rewritten; turn 3 is checked by both rails again; the flag is false at every boundary ---- *)
Definition vf_c02 (t c : nat) (r : rail) (x : text) : verdict :=
  if Nat.eqb t 1 && Nat.eqb r 21 then Reject
  else if Nat.eqb t 2 && Nat.eqb r 20 then Rewrite "softened" else Accept.

Definition ex_conv :=
  conv_v1 vf_c02 (fun t i p => "answer") (fun o => o) (fun _ _ => DAsk) (fun o => o) (fun _ => None) (fun o => o)
          "REFUSED" (mkCfg [] [20; 21] false false false) init_state ["q0"; "q1"; "q2"; "q3"].

Definition ex_c02_statement : Prop :=
  map (fun r => (skip (fst (fst r)), rail_calls SOut (snd (fst r)), snd r)) ex_conv =
  [ (false, [(20, "answer"); (21, "answer")], RMsg ["answer"]);
    (false, [(20, "answer"); (21, "answer")], RMsg ["REFUSED"]);
    (false, [(20, "answer"); (21, "softened")], RMsg ["softened"]);
    (false, [(20, "answer"); (21, "answer")], RMsg ["answer"]) ].

Lemma ex_c02 : ex_c02_statement.
Proof. vm_compute. reflexivity. Qed.

(* a dialog-mode turn with a predefined message: the skip flag is set and reset within the turn,
   the next turn's LLM message is checked *)
Definition ex_predef_conv :=
  conv_v1 (fun _ _ _ _ => Accept) (fun t i p => "llm text") (fun o => o)
          (fun t o => if Nat.eqb t 0 then DBot "greet" else DBot "answer") (fun o => o)
          (fun bi => if String.eqb bi "greet" then Some "Hello!" else None) (fun o => o)
          "REFUSED" (mkCfg [] [20] true false false) init_state ["hi"; "question"].

Definition ex_predef_statement : Prop :=
  map (fun r => (skip (fst (fst r)), rail_calls SOut (snd (fst r)), snd r)) ex_predef_conv =
  [ (false, [], RMsg ["Hello!"]); (false, [(20, "llm text")], RMsg ["llm text"]) ].

Lemma ex_predef : ex_predef_statement.
Proof. vm_compute. reflexivity. Qed.
