(* C10 part 1: one `slide` of a guarded flow stops within |elements|+1 steps. *)
From Coq Require Import List Arith Bool Lia.
From NG Require Import V2.Term.
Import ListNotations.

Lemma catch_labels_in : forall es pos l,
  nth_error es pos = Some (ECatch (Some l)) -> In l (catch_labels es).
Proof.
  induction es as [|e es IH]; intros pos l H.
  - destruct pos; discriminate.
  - destruct pos as [|pos]; simpl in H.
    + inversion H; subst. simpl. left; reflexivity.
    + specialize (IH _ _ H). destruct e; simpl; auto.
      destruct l0; simpl; auto.
Qed.

Lemma opt_targets_in : forall es ls l i,
  In l ls -> label_pos es l = Some i -> In (S i) (opt_targets es ls).
Proof.
  intros es ls l i Hin Hl. unfold opt_targets. apply in_flat_map.
  exists l. split; [assumption|]. rewrite Hl. left; reflexivity.
Qed.

Ltac break_match_hyp H :=
  repeat match type of H with
         | context [match ?x with _ => _ end] => destruct x eqn:?; try discriminate
         end.

Lemma exec_cont_succ : forall ti es o pos cs e pos' cs' st ni,
  nth_error es pos = Some e ->
  incl cs (catch_labels es) ->
  exec_elem es o pos cs e = Cont pos' cs' st ni ->
  (forall b, e <> EWaitInt b) ->
  In pos' (succs_gen ti es pos) /\ incl cs' (catch_labels es).
Proof.
  intros ti es o pos cs e pos' cs' st ni Hnth Hcs Hex Hnw.
  unfold succs_gen. rewrite Hnth.
  destruct e.
  - (* EBlock *) destruct o; discriminate.
  - (* EWaitInt *) exfalso; eapply Hnw; reflexivity.
  - (* EWaitHeads *) destruct o; try discriminate. inversion Hex; subst. split; [left; reflexivity|assumption].
  - (* EJump *)
    unfold target. destruct cond; destruct o; try discriminate; simpl in Hex; break_match_hyp Hex;
      inversion Hex; subst; (split; [simpl; auto | assumption]).
  - (* ELabel *) destruct o; try discriminate; inversion Hex; subst; (split; [left; reflexivity|assumption]).
  - (* EStep *) destruct o; try discriminate; inversion Hex; subst; (split; [left; reflexivity|assumption]).
  - (* EStart *) destruct o; try discriminate; inversion Hex; subst; (split; [left; reflexivity|assumption]).
  - (* EFork *) destruct o; try discriminate; simpl in Hex; break_match_hyp Hex.
  - (* EReturn *) destruct o; discriminate.
  - (* EAbort *)
    destruct o; try discriminate; simpl in Hex; break_match_hyp Hex; inversion Hex; subst;
      (split; [|assumption]); eapply opt_targets_in; try eassumption; apply Hcs; left; reflexivity.
  - (* ECatch *)
    destruct o; try discriminate; simpl in Hex; break_match_hyp Hex; inversion Hex; subst;
      (split; [left; reflexivity|]).
    + intros x [Hx|Hx]; [subst; eapply catch_labels_in; eassumption | apply Hcs; assumption].
    + intros x Hx. apply Hcs. right; assumption.
    + intros x [Hx|Hx]; [subst; eapply catch_labels_in; eassumption | apply Hcs; assumption].
    + intros x Hx. apply Hcs. right; assumption.
  - (* EBreak *)
    destruct o; try discriminate; simpl in Hex; break_match_hyp Hex; inversion Hex; subst;
      (split; [|assumption]); try (left; reflexivity);
      eapply opt_targets_in; try eassumption; left; reflexivity.
Qed.

Lemma exec_waitint_stops : forall es o pos cs b, exists s, exec_elem es o pos cs (EWaitInt b) = Stop s.
Proof. intros. destruct o; simpl; eauto. Qed.

Lemma check_rank_edge : forall ti es r p q,
  check_rank_gen ti es r = true -> p < length es -> In q (succs_gen ti es p) ->
  rank_at r (Nat.min q (length es)) < rank_at r p /\ rank_at r p <= length es.
Proof.
  intros ti es r p q Hc Hp Hq. unfold check_rank_gen in Hc.
  apply andb_true_iff in Hc. destruct Hc as [_ Hall].
  rewrite forallb_forall in Hall.
  assert (Hin : In p (seq 0 (length es))) by (apply in_seq; lia).
  specialize (Hall p Hin). apply andb_true_iff in Hall. destruct Hall as [Hle Hed].
  rewrite forallb_forall in Hed. specialize (Hed q Hq). unfold edge_ok in Hed.
  apply Nat.ltb_lt in Hed. apply Nat.leb_le in Hle. split; assumption.
Qed.

(* the measure: rank of the current position *)
Lemma slide_fuel_bound : forall es r, check_rank es r = true ->
  forall fuel orc k pos cs starts ni,
    incl cs (catch_labels es) ->
    (pos < length es -> rank_at r pos < fuel) -> 0 < fuel ->
    s_stop (slide_fuel fuel es orc k pos cs starts ni) <> OutOfFuel.
Proof.
  intros es r Hc. induction fuel as [|fuel IH]; intros orc k pos cs starts ni Hcs Hrk Hpos.
  - lia.
  - simpl. destruct (nth_error es pos) as [e|] eqn:Hnth; [|simpl; discriminate].
    assert (Hlt : pos < length es) by (apply nth_error_Some; congruence).
    destruct (exec_elem es (orc k) pos cs e) as [pos' cs' st ni'|s] eqn:Hex.
    + assert (Hnw : forall b, e <> EWaitInt b).
      { intros b Hb; subst e. destruct (exec_waitint_stops es (orc k) pos cs b) as [s Hs]. congruence. }
      destruct (exec_cont_succ false es (orc k) pos cs e pos' cs' st ni' Hnth Hcs Hex Hnw) as [Hin Hcs'].
      destruct (check_rank_edge false es r pos pos' Hc Hlt Hin) as [Hdec Hle].
      specialize (Hrk Hlt).
      apply IH; [assumption | | lia].
      intros Hp'. rewrite Nat.min_l in Hdec by lia. lia.
    + simpl. unfold exec_elem in Hex.
      destruct (orc k); destruct e; try (inversion Hex; subst; discriminate);
        repeat match type of Hex with
               | context [match ?x with _ => _ end] => destruct x eqn:?; try discriminate
               end; inversion Hex; subst; discriminate.
Qed.

Theorem slide_bound : forall p, guardedb p = true ->
  forall es, In es p ->
  forall orc pos cs, incl cs (catch_labels es) ->
    s_stop (slide (length es + 1) es orc pos cs) <> OutOfFuel.
Proof.
  intros p Hg es Hin orc pos cs Hcs. unfold guardedb in Hg. rewrite forallb_forall in Hg.
  specialize (Hg es Hin). unfold guarded_flowb in Hg. unfold slide.
  eapply slide_fuel_bound; [exact Hg | assumption | | lia].
  intros Hp. unfold check_rank, check_rank_gen in Hg. apply andb_true_iff in Hg. destruct Hg as [_ Hall].
  rewrite forallb_forall in Hall. assert (Hi : In pos (seq 0 (length es))) by (apply in_seq; lia).
  specialize (Hall pos Hi). apply andb_true_iff in Hall. destruct Hall as [Hle _].
  apply Nat.leb_le in Hle. lia.
Qed.

(* the same with an externally supplied certificate (used by the harness for very long flows) *)
Theorem slide_bound_cert : forall es r, check_rank es r = true ->
  forall orc pos cs, incl cs (catch_labels es) ->
    s_stop (slide (length es + 1) es orc pos cs) <> OutOfFuel.
Proof.
  intros es r Hc orc pos cs Hcs. unfold slide.
  eapply slide_fuel_bound; [exact Hc | assumption | | lia].
  intros Hp. unfold check_rank, check_rank_gen in Hc. apply andb_true_iff in Hc. destruct Hc as [_ Hall].
  rewrite forallb_forall in Hall. assert (Hi : In pos (seq 0 (length es))) by (apply in_seq; lia).
  specialize (Hall pos Hi). apply andb_true_iff in Hall. destruct Hall as [Hle _].
  apply Nat.leb_le in Hle. lia.
Qed.

(* the number of executed elements is bounded as well *)
Lemma slide_fuel_steps : forall fuel es orc k pos cs starts ni,
  s_steps (slide_fuel fuel es orc k pos cs starts ni) <= k + fuel.
Proof.
  induction fuel as [|fuel IH]; intros; simpl; [lia|].
  destruct (nth_error es pos); [|simpl; lia].
  destruct (exec_elem es (orc k) pos cs e); [|simpl; lia].
  etransitivity; [apply IH|]. lia.
Qed.

(* an unguarded loop really spins: the hypothesis of slide_bound is not vacuous-by-weakness *)
Example unguarded_spins : exists es orc, guarded_flowb es = false /\
  forall n, s_stop (slide n es orc 1 []) = OutOfFuel.
Proof.
  exists [EBlock; ELabel 0 false; EStep; EJump 0 false], (fun _ => OTrue).
  split; [reflexivity|].
  assert (H : forall n k st ni,
      s_stop (slide_fuel n [EBlock; ELabel 0 false; EStep; EJump 0 false] (fun _ => OTrue) k 2 [] st ni) = OutOfFuel /\
      s_stop (slide_fuel n [EBlock; ELabel 0 false; EStep; EJump 0 false] (fun _ => OTrue) k 3 [] st ni) = OutOfFuel /\
      s_stop (slide_fuel n [EBlock; ELabel 0 false; EStep; EJump 0 false] (fun _ => OTrue) k 1 [] st ni) = OutOfFuel).
  { induction n as [|n IH]; intros; [repeat split; reflexivity|].
    destruct (IH (S k) st ni) as [H2 [H3 H1]].
    repeat split; simpl; unfold label_pos; simpl; try apply IH. }
  intros n. unfold slide. apply H.
Qed.
