(* C15 - the history-cache theorems instantiated for the join key and for the lookup AS THE
   CURRENT SOURCE HAS IT (Gen/C15Consts.v), and the vm_compute witnesses for defect F6. *)
From Coq Require Import List String Ascii Bool Arith Lia.
From NG Require Import Gen.C15Consts Svc.HistKey Svc.HistKey_proofs Svc.HistCache Svc.HistCache_proofs Svc.HistRun.
Import ListNotations.
Open Scope string_scope.
Open Scope list_scope.

Lemma str_eqb_eq : forall (A : Type) (A_eq_dec : forall x y : A, {x = y} + {x <> y}) (x y : list A),
    str_eqb A_eq_dec x y = true <-> x = y.
Proof.
  intros A A_eq_dec x y. unfold str_eqb. destruct (list_eq_dec A_eq_dec x y); split; congruence.
Qed.

(* isolation for the join key (any alphabet, separator, role cases) with the lookup of the
   current source: needs the verified lookup *)
Lemma isolation_now :
  forall (A : Type) (A_eq_dec : forall x y : A, {x = y} + {x <> y})
         (sep : list A) (contributes : role -> bool)
         (Ev : Type) (conv : list (msg A) -> list Ev) (G : list Ev -> list Ev)
         (reply : list Ev -> msg A) (is_reply : role -> bool),
    (forall ev, is_reply (m_role (reply ev)) = true) ->
    forall convs, honest A is_reply convs ->
    forall sched c,
      shared_trace A A_eq_dec (list A) (str_eqb A_eq_dec) (key sep contributes) Ev conv G reply
                   hist_lookup_verifies_messages convs sched c
      = firstn (count c sched)
               (alone A A_eq_dec (list A) (str_eqb A_eq_dec) (key sep contributes) Ev conv G reply
                      hist_lookup_verifies_messages (convs c)).
Proof.
  intros A A_eq_dec sep contributes Ev conv G reply is_reply Hr convs Hh sched c.
  apply (isolation A A_eq_dec (list A) (str_eqb A_eq_dec) (str_eqb_eq A A_eq_dec)
                   (key sep contributes) Ev conv G reply is_reply Hr).
  - exact Hh.
  - left. reflexivity.
Qed.

(* isolation for the lookup as shipped (key only), for ANY key function that is injective on
   the message lists in play *)
Lemma isolation_injective :
  forall (A : Type) (A_eq_dec : forall x y : A, {x = y} + {x <> y})
         (K : Type) (K_eqb : K -> K -> bool), (forall x y, K_eqb x y = true <-> x = y) ->
  forall (keyf : list (msg A) -> K)
         (Ev : Type) (conv : list (msg A) -> list Ev) (G : list Ev -> list Ev)
         (reply : list Ev -> msg A) (is_reply : role -> bool),
    (forall ev, is_reply (m_role (reply ev)) = true) ->
    forall convs, honest A is_reply convs ->
    keyf_injective_on A K keyf (in_play A Ev conv G reply convs) ->
    forall sched c,
      shared_trace A A_eq_dec K K_eqb keyf Ev conv G reply false convs sched c
      = firstn (count c sched) (alone A A_eq_dec K K_eqb keyf Ev conv G reply false (convs c)).
Proof.
  intros A A_eq_dec K K_eqb HK keyf Ev conv G reply is_reply Hr convs Hh Hinj sched c.
  apply (isolation A A_eq_dec K K_eqb HK keyf Ev conv G reply is_reply Hr).
  - exact Hh.
  - right. exact Hinj.
Qed.

(* ---- F6 ---- *)

Lemma reply_c_is_reply : forall ev, is_reply_c (m_role (reply_c ev)) = true.
Proof. reflexivity. Qed.

Lemma f6_honest : honest ascii is_reply_c f6_convs.
Proof.
  intros [|[|c]]; simpl.
  - constructor; [|constructor]. split; [discriminate|]. constructor; [reflexivity|constructor].
  - constructor; [|constructor]. split; [discriminate|].
    constructor; [reflexivity|]. constructor; [reflexivity|constructor].
  - constructor.
Qed.

(* the key of the current source is not injective: separator not escaped, roles ignored,
   other roles invisible *)
Lemma key_now_collisions :
  key_now [mk (RUser, "a:R")] = key_now [mk (RUser, "a"); mk (RAssistant, "R")] /\
  key_now [mk (RUser, "a")] = key_now [mk (RAssistant, "a")] /\
  key_now [mk (RUser, "a"); mk (ROther 0, "x")] = key_now [mk (RUser, "a")].
Proof. vm_compute. repeat split. Qed.

Lemma key_now_not_injective : ~ key_injective_on sep_now contributes_now (fun _ => True).
Proof.
  apply (key_not_injective ascii sep_now contributes_now).
  - exists RUser. reflexivity.
  - exact []. 
  - exact [].
Qed.

(* with the lookup as shipped (key only) the collision changes what a conversation is turned
   into: conversation 1, honest, sees conversation 0's events *)
Lemma collision_changes_events :
  exists convs sched c,
    honest ascii is_reply_c convs /\
    shared_c false convs sched c <> firstn (count c sched) (alone_c false (convs c)).
Proof.
  exists f6_convs, [0; 1], 1. split; [exact f6_honest|].
  vm_compute. discriminate.
Qed.

(* ... and with the verified lookup it does not (instance of the theorem, by computation) *)
Example collision_harmless_when_verified :
  shared_c true f6_convs [0; 1] 1 = firstn (count 1 [0; 1]) (alone_c true (f6_convs 1)).
Proof. vm_compute. reflexivity. Qed.

(* the injectivity hypothesis is satisfiable by a non-trivial family: separator-free texts *)
Example injective_family :
  forall ms ms' : list (msg ascii),
    sep_free ascii ":"%char ms -> sep_free ascii ":"%char ms' ->
    all_contribute ascii contributes_now ms -> all_contribute ascii contributes_now ms' ->
    map m_role ms = map m_role ms' -> key_now ms = key_now ms' -> ms = ms'.
Proof.
  intros ms ms'. apply (key_injective_sep_free ascii sep_now contributes_now ":"%char). reflexivity.
Qed.
