(* C20 - the theorems of Path_proofs.v / Threads_proofs.v instantiated at the alphabet N (code
   points) with the constants read from the CURRENT source (Gen/C20Consts.v).  The side
   conditions on the reject pattern are decided here by computation on the generated value:
   if the source no longer rejects separators, or neither rejects ".." nor applies the
   commonprefix test, these lemmas fail to check. *)
From Coq Require Import List NArith Bool Arith Lia.
From NG Require Import Gen.C20Consts Svc.Path Svc.Path_proofs Svc.Threads Svc.Threads_proofs Svc.PathRun.
Import ListNotations.
Open Scope N_scope.

(* ---------------------------------------------------------------- (T) facts about the source *)

(* the reject pattern of the current source fires on every id containing '/' *)
Lemma guard_sep_now : Path.pat_rejects_char N N.eq_dec reject_pattern sepN = true.
Proof. vm_compute. reflexivity. Qed.

(* an id that IS ".." is stopped by the reject pattern or by the commonprefix test *)
Lemma guard_dotdot_now :
  Path.re_search N N.eq_dec reject_pattern [dotN; dotN] = true \/ prefix_check_present = true.
Proof. first [ left; vm_compute; reflexivity | right; vm_compute; reflexivity ]. Qed.

(* "thread-", 16, and the reply that begins with "Could not load" *)
Definition could_not_load_words : nstr := [67; 111; 117; 108; 100; 32; 110; 111; 116; 32; 108; 111; 97; 100].

Fixpoint is_prefix (p s : nstr) : bool :=
  match p, s with
  | [], _ => true
  | x :: p', y :: s' => N.eqb x y && is_prefix p' s'
  | _ :: _, [] => false
  end.

Lemma source_constants_now :
  thread_prefix = [116; 104; 114; 101; 97; 100; 45]
  /\ min_thread_id_len = 16
  /\ is_prefix could_not_load_words could_not_load_prefix = true.
Proof. repeat split. Qed.

Lemma thread_prefix_nonempty : thread_prefix <> [].
Proof. discriminate. Qed.

(* the text of the fixed reply: prefix ++ str(config_ids) ++ suffix, str() of a list being
   Python's; it is a parameter here *)
Definition could_not_load_text (repr : list nstr -> nstr) (ids : list nstr) : nstr :=
  could_not_load_prefix ++ repr ids ++ could_not_load_suffix.

Lemma could_not_load_text_begins :
  forall repr ids, is_prefix could_not_load_words (could_not_load_text repr ids) = true.
Proof. intros. vm_compute. reflexivity. Qed.

(* ---------------------------------------------------------------- path confinement *)

Notation insideN := (Path.inside N N.eq_dec sepN dotN).
Notation abs_normalN := (Path.abs_normal N sepN dotN).
Notation plainN := (Path.plain N sepN dotN).
Notation starts_with_sepN := (Path.starts_with_sep N N.eq_dec sepN).
Notation ends_with_sepN := (Path.ends_with_sep N N.eq_dec sepN).

Lemma confined_now :
  forall cwd root id p,
    starts_with_sepN cwd = true ->
    get_rails_path_now (abspathN cwd root) id = Accept p ->
    insideN (abspathN cwd root) p.
Proof.
  intros cwd root id p Hcwd H.
  eapply (get_rails_path_confined N N.eq_dec sepN dotN reject_pattern prefix_check_present
            guard_sep_now guard_dotdot_now); [|exact H].
  apply abspath_abs_normal. exact Hcwd.
Qed.

(* the same for any normalised absolute root (one or two separators + plain segments) *)
Lemma confined_normal_base_now :
  forall base id p,
    abs_normalN base -> get_rails_path_now base id = Accept p -> insideN base p.
Proof.
  intros base id p Hb H.
  eapply (get_rails_path_confined N N.eq_dec sepN dotN reject_pattern prefix_check_present
            guard_sep_now guard_dotdot_now); eassumption.
Qed.

(* functional specification of the per-id logic, given that the reject test fires on ".." *)
Lemma path_spec_now :
  forall cwd root id,
    starts_with_sepN cwd = true ->
    reject_now [dotN; dotN] = true ->
    let base := abspathN cwd root in
    get_rails_path_now base id =
      if reject_now id then Reject
      else Accept (if nstr_eqb id [] || nstr_eqb id [dotN] then base
                   else base ++ Path.tail_sep N N.eq_dec sepN base ++ id).
Proof.
  intros cwd root id Hcwd Hdd base.
  assert (E : forall a b, nstr_eqb a b = Path.str_eqb N N.eq_dec a b).
  { induction a as [|x a IH]; destruct b as [|y b]; simpl; try reflexivity.
    rewrite IH. unfold Path.ceq. destruct (N.eq_dec x y) as [e|e].
    - subst. rewrite N.eqb_refl. reflexivity.
    - apply N.eqb_neq in e. rewrite e. reflexivity. }
  rewrite !E.
  apply (get_rails_path_spec N N.eq_dec sepN dotN reject_pattern prefix_check_present guard_sep_now);
    [apply abspath_abs_normal; exact Hcwd | exact Hdd].
Qed.

(* the form of DESIGN.md: when the root is not "/" or "//" the accepted path is the root or
   root ++ "/" ++ seg with no separator in seg and seg none of "", ".", ".." *)
Lemma confined_now_nonroot :
  forall cwd root id p,
    starts_with_sepN cwd = true ->
    ends_with_sepN (abspathN cwd root) = false ->
    get_rails_path_now (abspathN cwd root) id = Accept p ->
    p = abspathN cwd root
    \/ exists seg, p = abspathN cwd root ++ [sepN] ++ seg
                   /\ ~ In sepN seg /\ seg <> [dotN; dotN] /\ seg <> [dotN] /\ seg <> [].
Proof.
  intros cwd root id p Hcwd Hend H.
  destruct (confined_now cwd root id p Hcwd H) as [E|[seg [E [P1 [P2 [P3 P4]]]]]].
  - left. exact E.
  - right. exists seg. unfold Path.tail_sep in E. rewrite Hend in E. auto.
Qed.

(* an accepted path never equals and never lies under a sibling of the root: the root followed
   by a separator (or the root itself) is a prefix of it *)
Lemma confined_now_prefix :
  forall cwd root id p,
    starts_with_sepN cwd = true ->
    get_rails_path_now (abspathN cwd root) id = Accept p ->
    p = abspathN cwd root
    \/ exists rest, p = (abspathN cwd root ++ Path.tail_sep N N.eq_dec sepN (abspathN cwd root)) ++ rest
                    /\ ~ In sepN rest.
Proof.
  intros cwd root id p Hcwd H.
  destruct (confined_now cwd root id p Hcwd H) as [E|[seg [E [_ [P2 _]]]]].
  - left. exact E.
  - right. exists seg. rewrite <- app_assoc. auto.
Qed.

(* the commonprefix test is unreachable after the reject test, provided the reject test also
   fires on ".." (as the shipped pattern does: see Example reject_fires_on_dotdot_shipped) *)
Lemma prefix_check_redundant_now :
  forall cwd root id,
    starts_with_sepN cwd = true ->
    reject_now [dotN; dotN] = true ->
    reject_now id = false ->
    commonprefixN [normpathN (joinN (abspathN cwd root) id); abspathN cwd root] = abspathN cwd root.
Proof.
  intros cwd root id Hcwd Hdd Hrej.
  apply (prefix_check_redundant N N.eq_dec sepN dotN reject_pattern guard_sep_now);
    [apply abspath_abs_normal; exact Hcwd | exact Hdd | exact Hrej].
Qed.

(* the quirk itself: the character-wise commonprefix test accepts a sibling directory whose
   name extends the root's name; such a path is not inside the root *)
Lemma commonprefix_quirk_now :
  exists base full,
    abs_normalN base /\ commonprefixN [full; base] = base /\ ~ insideN base full.
Proof.
  (* base = "/r/c", full = "/r/c-evil" *)
  exists [47; 114; 47; 99], [47; 114; 47; 99; 45; 101; 118; 105; 108].
  split; [|split].
  - exists 1%nat, [[114]; [99]]. split; [auto|]. split; [|reflexivity].
    repeat constructor; try discriminate; intros [E|[]]; discriminate.
  - reflexivity.
  - apply (sibling_not_inside N N.eq_dec sepN dotN 1 [[114]; [99]] [101; 118; 105; 108] 45).
    + auto.
    + repeat constructor; try discriminate; intros [E|[]]; discriminate.
    + discriminate.
    + discriminate.
Qed.

(* ---------------------------------------------------------------- the server, any oracles *)

Section Server.
  Variable M : Type.
  Variables cwd root : nstr.
  Variables single default : option nstr.
  Variable load_ok : nstr -> bool.
  Variable llm : list nstr -> list M -> option M.

  Definition base_src : nstr := abspathN cwd root.
  Definition min_len_src : nat := N.to_nat min_thread_id_len.

  Definition load_all_src :=
    Threads.load_all N N.eq_dec sepN dotN reject_pattern prefix_check_present base_src load_ok.
  Definition get_rails_src :=
    Threads.get_rails N N.eq_dec sepN dotN cache_key_joiner reject_pattern prefix_check_present
                      base_src single load_ok.
  Definition chat_src :=
    Threads.chat N N.eq_dec sepN dotN cache_key_joiner M reject_pattern prefix_check_present
                 thread_prefix min_len_src base_src single default load_ok llm.
  Definition run_src :=
    Threads.run N N.eq_dec sepN dotN cache_key_joiner M reject_pattern prefix_check_present
                thread_prefix min_len_src base_src single default load_ok llm.

  Notation threadN := (Threads.thread N N.eq_dec M).
  Notation agetN := (Threads.aget N N.eq_dec).
  Notation effective_idsN := (Threads.effective_ids N M default).
  Notation thread_ofN := (Threads.thread_of N M).
  Notation new_messagesN := (Threads.new_messages N M).
  Notation turns_ofN := (Threads.turns_of N N.eq_dec M).
  Notation cache_keyN := (Threads.cache_key N cache_key_joiner).

  Hypothesis cwd_abs : starts_with_sepN cwd = true.

  Lemma base_src_normal : abs_normalN base_src.
  Proof. apply abspath_abs_normal. exact cwd_abs. Qed.

  (* config_ids form, any request sequence, starting with an empty instance cache and any
     datastore: every path handed to the loader and every path of every instance that serves
     a request is inside the root *)
  Lemma run_confined_now :
    forall rqs store0 st' os,
      run_src {| s_cache := []; s_store := store0 |} rqs = (st', os) ->
      Forall (fun o => Forall (insideN base_src) (o_loads N M o)
                       /\ (forall inst, o_inst N M o = Some inst -> Forall (insideN base_src) inst)) os.
  Proof.
    intros rqs store0 st' os H.
    eapply (run_inside N N.eq_dec sepN dotN cache_key_joiner M reject_pattern prefix_check_present
              thread_prefix min_len_src base_src single default load_ok llm
              base_src_normal guard_sep_now guard_dotdot_now); [exact H|].
    simpl. apply cache_ok_nil.
  Qed.

  (* the loader loop of one _get_rails call: calls are for accepted ids, in order *)
  Lemma load_all_trace_now :
    forall ids tr r, load_all_src ids = (tr, r) ->
      Forall (insideN base_src) tr
      /\ exists k, Forall2 (fun id p => get_rails_path_now base_src id = Accept p) (firstn k ids) tr
                   /\ (forall inst, r = Some inst -> inst = tr /\ k = length ids).
  Proof.
    intros ids tr r H. split.
    - eapply (load_all_inside N N.eq_dec sepN dotN reject_pattern prefix_check_present base_src load_ok
                base_src_normal guard_sep_now guard_dotdot_now); exact H.
    - eapply load_all_trace; exact H.
  Qed.

  Lemma reject_fixed_reply_now :
    forall st rq ids id st' o,
      single = None -> effective_idsN rq = Some ids ->
      agetN (s_cache N M st) (cache_keyN ids) = None ->
      In id ids -> get_rails_path_now base_src id = Reject ->
      chat_src st rq = (st', o) ->
      st' = st /\ o_reply N M o = RCouldNotLoad ids /\ o_used N M o = None
      /\ (forall tl, ids = id :: tl -> o_loads N M o = []).
  Proof. intros. eapply chat_reject_fixed_reply; eassumption. Qed.

  Lemma valueerror_fixed_reply_now :
    forall st rq ids st' o,
      effective_idsN rq = Some ids -> snd (get_rails_src (s_cache N M st) ids) = None ->
      chat_src st rq = (st', o) ->
      st' = st /\ o_reply N M o = RCouldNotLoad ids /\ o_used N M o = None /\ o_inst N M o = None
      /\ o_loads N M o = snd (fst (get_rails_src (s_cache N M st) ids)).
  Proof. intros. eapply chat_valueerror_fixed_reply; eassumption. Qed.

  Lemma thread_exact_now :
    forall st rq st' o tid,
      chat_src st rq = (st', o) -> thread_ofN rq = Some tid ->
      let key := thread_prefix ++ tid in
      (forall u, o_used N M o = Some u ->
                 u = threadN (s_store N M st) key ++ new_messagesN rq /\ (min_len_src <= length tid)%nat)
      /\ (forall b, o_reply N M o = RBot b ->
                    exists u, o_used N M o = Some u /\ threadN (s_store N M st') key = u ++ [b])
      /\ ((forall b, o_reply N M o <> RBot b) -> s_store N M st' = s_store N M st).
  Proof. intros. eapply chat_thread_exact; eassumption. Qed.

  Lemma no_thread_now :
    forall st rq st' o,
      chat_src st rq = (st', o) -> thread_ofN rq = None ->
      s_store N M st' = s_store N M st /\ (forall u, o_used N M o = Some u -> u = new_messagesN rq).
  Proof. intros. eapply chat_no_thread; eassumption. Qed.

  Lemma threads_disjoint_now :
    forall st rq st' o tid1 tid2,
      chat_src st rq = (st', o) -> thread_ofN rq = Some tid1 -> tid1 <> tid2 ->
      threadN (s_store N M st') (thread_prefix ++ tid2) = threadN (s_store N M st) (thread_prefix ++ tid2).
  Proof. intros. eapply chat_threads_disjoint; eassumption. Qed.

  Lemma foreign_keys_now :
    forall st rq st' o k,
      chat_src st rq = (st', o) -> (forall t, k <> thread_prefix ++ t) ->
      agetN (s_store N M st') k = agetN (s_store N M st) k.
  Proof. intros. eapply chat_foreign_keys; eassumption. Qed.

  Lemma refines_spec_now :
    forall rqs st st' os tid,
      run_src st rqs = (st', os) ->
      threadN (s_store N M st') (thread_prefix ++ tid)
      = threadN (s_store N M st) (thread_prefix ++ tid) ++ turns_ofN tid rqs os.
  Proof. intros. eapply run_refines_spec; eassumption. Qed.

  Lemma used_spec_now :
    forall rqs1 rq rqs2 st st1 os1 st2 o tid u,
      run_src st rqs1 = (st1, os1) -> chat_src st1 rq = (st2, o) ->
      thread_ofN rq = Some tid -> o_used N M o = Some u ->
      u = threadN (s_store N M st) (thread_prefix ++ tid) ++ turns_ofN tid rqs1 os1 ++ new_messagesN rq
      /\ nth_error (snd (run_src st (rqs1 ++ rq :: rqs2))) (length rqs1) = Some o.
  Proof. intros. eapply run_used_spec; eassumption. Qed.

  Definition http_chat_src :=
    Threads.http_chat N N.eq_dec sepN dotN cache_key_joiner M reject_pattern prefix_check_present
                      thread_prefix min_len_src (N.to_nat field_min_len) field_max_nat
                      base_src single default load_ok llm.

  Lemma http_layer_now :
    forall st h st' o,
      http_chat_src st h = (st', o) ->
      (st' = st /\ o_reply N M o = R422 /\ o_loads N M o = [] /\ o_used N M o = None)
      \/ exists rq, Threads.validate N M (N.to_nat field_min_len) field_max_nat h = Some rq
                    /\ chat_src st rq = (st', o)
                    /\ r_thread N M rq = h_thread N M h
                    /\ r_messages N M rq = h_messages N M h
                    /\ (forall t, r_thread N M rq = Some t ->
                                  (N.to_nat field_min_len <= length t)%nat
                                  /\ match field_max_nat with Some m => (length t <= m)%nat | None => True end).
  Proof. intros. eapply http_chat_cases; eassumption. Qed.

End Server.
