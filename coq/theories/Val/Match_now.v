(* Facts about the matcher as the current source has it (guards from Gen.MatchConsts). *)
From Coq Require Import ZArith QArith Qpower List String Bool Lia.
From NG Require Import Gen.MatchConsts Val.Value Val.Match Val.MatchSpec Val.Match_proofs Val.ScoreQ.

Lemma factor_pos : (0 < factor)%Q. Proof. reflexivity. Qed.
Lemma factor_lt_1 : (factor < 1)%Q. Proof. reflexivity. Qed.

Lemma score_now_range :
  forall re_search str_of p v k,
    score_now re_search str_of p v = RYes k ->
    (0 <= k)%Z /\ (0 < factor ^ k /\ factor ^ k <= 1 /\ factor ^ (k + 1) < factor ^ k)%Q.
Proof.
  intros rs so p v k H.
  assert (Hk : (0 <= k)%Z) by (eapply score_exponent_nonneg; exact H).
  split; [exact Hk|].
  destruct (Qpower_unit_interval factor k factor_pos (Qlt_le_weak _ _ factor_lt_1) Hk) as [H1 H2].
  repeat split; [exact H1 | exact H2 |].
  apply Qpower_strict_decreasing; [exact factor_pos | exact factor_lt_1 | exact Hk].
Qed.
