(* Model of _compute_arguments_dict_matching_score (statemachine.py), branch by branch.

   A Python score is 0.0 (no match), or factor^k for an integer k (every positive score the
   function can produce is a product of `0.9 ** (len(args) - len(ref_args))` terms), or the
   call raises (ComparisonExpression.compare on a value of another type).  The model
   returns RNo / RYes k / RErr.  `score p v` is the model of
   `_compute_arguments_dict_matching_score(args=v, ref_args=p)`.

   Oracles (Section variables, arbitrary): re_search r s  = bool(re.compile(r).search(s)),
   str_of v = str(v) for the scalars the regex branch converts. *)
From Coq Require Import ZArith List String Bool Lia.
From NG Require Import Val.Value Gen.MatchConsts.
Import ListNotations.
Open Scope Z_scope.

Inductive res := RErr | RNo | RYes (k : Z).

Definition res_eqb (a b : res) : bool :=
  match a, b with
  | RErr, RErr => true
  | RNo, RNo => true
  | RYes x, RYes y => Z.eqb x y
  | _, _ => false
  end.

Definition in_filter (k : string) : bool := mem_str k argument_filter.

Definition cmp_holds (op : cmpop) (x y : Z) : bool :=
  match op with
  | OpLt => x <? y
  | OpLe => x <=? y
  | OpGt => x >? y
  | OpGe => x >=? y
  | OpNe => negb (x =? y)
  end.

(* ComparisonExpression(op, n).compare(v) : raises unless isinstance(v, type(n)) *)
Definition cmp_res (op : cmpop) (n : num) (v : value) : res :=
  let yes (b : bool) := if b then RYes 0 else RNo in
  match n, v with
  | NInt y, VInt x => yes (cmp_holds op x y)
  | NInt y, VBool b => yes (cmp_holds op (Z_of_bool b) y)
  | NBool c, VBool b => yes (cmp_holds op (Z_of_bool b) (Z_of_bool c))
  | NFloat y, VFloat x => yes (cmp_holds op x y)
  | _, _ => RErr
  end.

(* Generic loops of the matcher, parameterised by the recursive call [sc p v]. *)
Section Loops.
  Variable sc : value -> value -> res.

  (* list branch: the greedy left-to-right `while ref_idx < len(ref) and idx < len(args)` scan;
     result RYes k = product of the element scores, before the length-difference factor *)
  Fixpoint scan (ps vs : list value) (k : Z) {struct ps} : res :=
    match ps with
    | [] => RYes k
    | p0 :: ps' =>
        (fix goV (vs1 : list value) {struct vs1} : res :=
           match vs1 with
           | [] => RNo
           | v0 :: vs' =>
               match sc p0 v0 with
               | RErr => RErr
               | RYes k0 => scan ps' vs' (k + k0)
               | RNo => goV vs'
               end
           end) vs
    end.

  (* set branch, inner loop: first received member with a positive score *)
  Definition find_first (p0 : value) : list value -> res :=
    fix go (vs : list value) {struct vs} : res :=
      match vs with
      | [] => RNo
      | v0 :: vs' =>
          match sc p0 v0 with
          | RErr => RErr
          | RYes k0 => RYes k0
          | RNo => go vs'
          end
      end.

  (* set branch, outer loop *)
  Fixpoint all_found (ps vs : list value) (k : Z) {struct ps} : res :=
    match ps with
    | [] => RYes k
    | p0 :: ps' =>
        match find_first p0 vs with
        | RErr => RErr
        | RNo => RNo
        | RYes k0 => all_found ps' vs (k + k0)
        end
    end.

  (* dict branch *)
  Fixpoint dict_all (pkvs vkvs : list (string * value)) (k : Z) {struct pkvs} : res :=
    match pkvs with
    | [] => RYes k
    | (key, p0) :: rest =>
        if in_filter key then dict_all rest vkvs k else
        match lookup key vkvs with
        | None => RNo
        | Some v0 =>
            match sc p0 v0 with
            | RErr => RErr
            | RNo => RNo
            | RYes k0 => dict_all rest vkvs (k + k0)
            end
        end
    end.
End Loops.

(* `score *= factor ** (len(args) - len(ref_args))` *)
Definition add_len_diff (r : res) (np nv : nat) : res :=
  match r with
  | RYes k => RYes (k + (Z.of_nat nv - Z.of_nat np))
  | _ => r
  end.

Definition too_long (guard : bool) (np nv : nat) : bool :=
  guard && (Z.of_nat np >? Z.of_nat nv).

Definition yes_if (b : bool) : res := if b then RYes 0 else RNo.

Section Score.
  Variable re_search : string -> string -> bool.
  Variable str_of : value -> string.
  (* which container branches start with `if len(ref_args) > len(args): return 0.0`
     (read from the source by the translator; see Gen.MatchConsts) *)
  Variables gd gl gs : bool.

  Fixpoint score (p v : value) {struct p} : res :=
    match p with
    | VRegex r =>
        match v with
        | VStr _ | VInt _ | VFloat _ | VBool _ => yes_if (re_search r (str_of v))
        | VRegex r' => yes_if (String.eqb r' r)      (* same type: falls to `args != ref_args` *)
        | _ => RNo                                    (* not isinstance(ref, type(args)) *)
        end
    | VCmp op n => cmp_res op n v
    | VNone => match v with VNone => RYes 0 | _ => RNo end
    | VBool b =>
        match v with
        | VBool b' => yes_if (Bool.eqb b' b)
        | VInt z => yes_if (z =? Z_of_bool b)          (* bool is an int: isinstance(True, int) *)
        | _ => RNo
        end
    | VInt z => match v with VInt z' => yes_if (z' =? z) | _ => RNo end
    | VFloat q => match v with VFloat q' => yes_if (q' =? q) | _ => RNo end
    | VStr s => match v with VStr s' => yes_if (String.eqb s' s) | _ => RNo end
    | VDict pkvs =>
        match v with
        | VDict vkvs =>
            if too_long gd (List.length pkvs) (List.length vkvs) then RNo
            else add_len_diff (dict_all score pkvs vkvs 0) (List.length pkvs) (List.length vkvs)
        | _ => RNo
        end
    | VList ps =>
        match v with
        | VList vs =>
            if too_long gl (List.length ps) (List.length vs) then RNo
            else add_len_diff (scan score ps vs 0) (List.length ps) (List.length vs)
        | _ => RNo
        end
    | VSet ps =>
        match v with
        | VSet vs =>
            if too_long gs (List.length ps) (List.length vs) then RNo
            else add_len_diff (all_found score ps vs 0) (List.length ps) (List.length vs)
        | _ => RNo
        end
    end.
End Score.

(* The matcher as the current source has it: guards as read by the translator. *)
Definition score_now (re_search : string -> string -> bool) (str_of : value -> string) :=
  score re_search str_of dict_length_guard list_length_guard set_length_guard.

(* ------------------------------------------------------------------------------------
   Event level: model of _compute_event_comparison_score (statemachine.py) together with the
   `isinstance(ref_event, type(event))` pre-check of _compute_event_matching_score.

   [ev] is the received event, [ref] the event described by the waiting statement. *)

Inductive ekind :=
| KPlain                                   (* flows.Event *)
| KInternal (flow_uid : option string)     (* flows.InternalEvent; .flow.uid if .flow is set *)
| KAction (action_uid : option string).    (* flows.ActionEvent *)

Record event := { e_name : string; e_args : list (string * value); e_kind : ekind }.

Inductive eres := EErr | ENo | EFail | EYes (k : Z).

Definition eres_eqb (a b : eres) : bool :=
  match a, b with
  | EErr, EErr | ENo, ENo | EFail, EFail => true
  | EYes x, EYes y => Z.eqb x y
  | _, _ => false
  end.

Definition eres_of_res (r : res) : eres :=
  match r with RErr => EErr | RNo => ENo | RYes k => EYes k end.

(* isinstance(ref_event, type(event)) *)
Definition kind_compatible (ev ref : ekind) : bool :=
  match ev, ref with
  | KPlain, _ => true
  | KInternal _, KInternal _ => true
  | KAction _, KAction _ => true
  | _, _ => false
  end.

Definition has_key (k : string) (kvs : list (string * value)) : bool :=
  match lookup k kvs with Some _ => true | None => false end.

(* d[key] = v on an insertion-ordered dict *)
Fixpoint dict_set (key : string) (v : value) (kvs : list (string * value)) : list (string * value) :=
  match kvs with
  | [] => [(key, v)]
  | (k', v') :: rest => if String.eqb key k' then (k', v) :: rest else (k', v') :: dict_set key v rest
  end.

Definition is_internal (n : string) : bool := mem_str n internal_events_all.

(* Python == on the values that occur as flow_id (used by the StartFlow branch) *)
Definition py_eqb (a b : value) : bool :=
  match a, b with
  | VNone, VNone => true
  | VBool x, VBool y => Bool.eqb x y
  | VBool x, VInt y | VInt y, VBool x => Z.eqb (Z_of_bool x) y
  | VInt x, VInt y => Z.eqb x y
  | VFloat x, VFloat y => Z.eqb x y
  | VInt x, VFloat y | VFloat y, VInt x => Z.eqb (4 * x) y
  | VBool x, VFloat y | VFloat y, VBool x => Z.eqb (4 * Z_of_bool x) y
  | VStr x, VStr y => String.eqb x y
  | VRegex x, VRegex y => String.eqb x y
  | _, _ => false
  end.

Section EventScore.
  Variable re_search : string -> string -> bool.
  Variable str_of : value -> string.
  Variables gd gl gs : bool.
  (* state.actions[uid].start_event_arguments *)
  Variable action_args : string -> option (list (string * value)).

  Notation sc := (score re_search str_of gd gl gs).

  Definition args_score (ev ref : event) : res := sc (VDict (e_args ref)) (VDict (e_args ev)).

  Definition is1 (r : res) : option bool :=   (* `score != 1.0` ; None = raised *)
    match r with RErr => None | RYes 0 => Some false | _ => Some true end.

  Definition cross_failure (refn evn : string) : bool :=
    (String.eqb refn ev_flow_finished && String.eqb evn ev_flow_failed)
    || (String.eqb refn ev_flow_failed && String.eqb evn ev_flow_finished)
    || (String.eqb refn ev_flow_started &&
        (String.eqb evn ev_flow_finished || String.eqb evn ev_flow_failed)).

  Definition event_score (ev ref : event) : eres :=
    if negb (kind_compatible (e_kind ev) (e_kind ref)) then ENo else
    if String.eqb (e_name ev) ev_start_flow && String.eqb (e_name ref) ev_start_flow then
      match args_score ev ref with
      | RErr => EErr
      | r =>
          match lookup "flow_id" (e_args ref) with
          | None => match r with RYes k => EYes (k + 1) | _ => ENo end   (* match_score *= 0.9 *)
          | Some rf =>
              match lookup "flow_id" (e_args ev) with
              | None => EErr                                            (* KeyError *)
              | Some ef => if py_eqb rf ef then EYes 0 else ENo
              end
          end
      end
    else if is_internal (e_name ev) && is_internal (e_name ref) then
      let c1 :=
        match lookup "flow_id" (e_args ref), lookup "flow_id" (e_args ev) with
        | Some rf, Some ef => is1 (sc rf ef)
        | _, _ => Some false
        end in
      match c1 with
      | None => EErr
      | Some true => ENo
      | Some false =>
          let c2 :=
            match e_kind ref, lookup "source_flow_instance_uid" (e_args ev) with
            | KInternal (Some fuid), Some src => is1 (sc (VStr fuid) src)
            | _, _ => Some false
            end in
          match c2 with
          | None => EErr
          | Some true => ENo
          | Some false =>
              match args_score ev ref with
              | RErr => EErr
              | RNo => ENo
              | RYes k =>
                  if has_key "flow_instance_uid" (e_args ref) && cross_failure (e_name ref) (e_name ev)
                  then EFail
                  else if negb (String.eqb (e_name ref) (e_name ev)) then ENo
                  else EYes k
              end
          end
      end
    else
      if negb (String.eqb (e_name ref) (e_name ev)) then ENo else
      match e_kind ev, e_kind ref with
      | KAction eu, KAction ru =>
          let mismatch :=
            match ru with
            | None => false
            | Some r => match eu with Some e => negb (String.eqb r e) | None => true end
            end in
          if mismatch then ENo else
          let args' :=
            match eu with
            | Some e => match action_args e with
                        | Some aa => dict_set "action_arguments" (VDict aa) (e_args ev)
                        | None => e_args ev
                        end
            | None => e_args ev
            end in
          eres_of_res (sc (VDict (e_args ref)) (VDict args'))
      | _, _ => eres_of_res (args_score ev ref)
      end.
End EventScore.

Definition event_score_now re_search str_of :=
  event_score re_search str_of dict_length_guard list_length_guard set_length_guard.
