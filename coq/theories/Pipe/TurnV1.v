(* Pipe.TurnV1 - one `LLMRails.generate` turn of a Colang 1.0 configuration, with the persistent
   conversation state explicit.  Transcribes, at the granularity C01/C02 speak about:

     llm_flows.co  `process user input` (1-22), `run input rails` (47-66), `run dialog rails`,
                   `generate next step`, `generate bot message` (81-98),
                   `process bot message` (101-128) incl. the one-shot $skip_output_rails,
                   `run output rails` (131-149)
     flows.py      compute_next_steps: a `bot stop` drops every next step and all flow states
     generation.py generate_user_intent (general / passthrough / dialog), generate_next_step,
                   generate_bot_message (predefined message => skip_output_rails := True)
     llmrails.py   generate_async: the reply is the StartUtteranceBotAction scripts, or the last
                   *Exception event

   External behaviour enters only through Section variables (arbitrary): the rail actions `vf`,
   the LLM `llm`, the parsers of LLM output, the dialog policy and the predefined bot messages.
   Rails have the canonical shape of the library rails (self_check_input/output): execute an
   action; on reject `bot refuse to respond` (or the rail exception when
   enable_rails_exceptions) followed by `stop`; a rewriting rail assigns $user_message /
   $bot_message.  Action failures (C03) and generation options (C16) are not part of this model.
   Definitions only. *)
From Coq Require Import List String Bool Arith.
From NG Require Import Pipe.Rails.
Import ListNotations.
Open Scope list_scope.

Record cfg := mkCfg {
  irails : list rail;          (* config.rails.input.flows *)
  orails : list rail;          (* config.rails.output.flows *)
  dialog : bool;               (* user messages / dialog flows are defined *)
  exceptions : bool;           (* enable_rails_exceptions *)
  passthrough : bool }.

(* what survives a turn: the context variables the pipeline reads or writes, and the part of
   the event history later prompts are rendered from *)
Record pstate := mkSt {
  tidx : nat;                  (* turn index (position in the conversation) *)
  skip : bool;                 (* $skip_output_rails *)
  user_message : option text;  (* $user_message *)
  bot_message : option text;   (* $bot_message *)
  trig_in : option rail;       (* $triggered_input_rail *)
  trig_out : option rail;      (* $triggered_output_rail *)
  hist : list hentry;          (* UserMessage / StartUtteranceBotAction events of the cached history *)
  raw : list hentry }.         (* the caller's message list (what passthrough mode sends verbatim) *)

Definition init_state : pstate := mkSt 0 false None None None None [] [].

Definition set_skip (st : pstate) (b : bool) : pstate :=
  mkSt (tidx st) b (user_message st) (bot_message st) (trig_in st) (trig_out st) (hist st) (raw st).
Definition set_user (st : pstate) (t : text) : pstate :=
  mkSt (tidx st) (skip st) (Some t) (bot_message st) (trig_in st) (trig_out st) (hist st) (raw st).
Definition set_bot (st : pstate) (t : text) : pstate :=
  mkSt (tidx st) (skip st) (user_message st) (Some t) (trig_in st) (trig_out st) (hist st) (raw st).
Definition set_trig_in (st : pstate) (r : option rail) : pstate :=
  mkSt (tidx st) (skip st) (user_message st) (bot_message st) r (trig_out st) (hist st) (raw st).
Definition set_trig_out (st : pstate) (r : option rail) : pstate :=
  mkSt (tidx st) (skip st) (user_message st) (bot_message st) (trig_in st) r (hist st) (raw st).
Definition push_hist (st : pstate) (h : hentry) : pstate :=
  mkSt (tidx st) (skip st) (user_message st) (bot_message st) (trig_in st) (trig_out st) (hist st ++ [h]) (raw st).
Definition push_raw (st : pstate) (hs : list hentry) : pstate :=
  mkSt (tidx st) (skip st) (user_message st) (bot_message st) (trig_in st) (trig_out st) (hist st) (raw st ++ hs).
Definition bump (st : pstate) : pstate :=
  mkSt (S (tidx st)) (skip st) (user_message st) (bot_message st) (trig_in st) (trig_out st) (hist st) (raw st).

(* generation options of ONE call (GenerationOptions.rails.input / .output; the other categories
   stay enabled in these models, see C16): they restrict the rails that call runs.  They are an
   argument of the call - the persistent state carries none *)
Record topts := mkOpts { o_in : bool; o_out : bool }.
Definition no_opts : topts := mkOpts true true.

(* the configuration a call with options `o` effectively runs: llm_flows.co tests
   `$generation_options is None or $generation_options.rails.input` (resp. `.output`) exactly
   where it tests `$config.rails.input.flows` (resp. output) *)
Definition eff (cf : cfg) (o : topts) : cfg :=
  mkCfg (if o_in o then irails cf else []) (if o_out o then orails cf else [])
        (dialog cf) (exceptions cf) (passthrough cf).

(* what the dialog flows dictate after the user intent is known *)
Inductive dstep :=
| DBot (bot_intent : string)     (* a dialog flow dictates `bot <intent>` *)
| DAsk                           (* no flow applies: the next step is asked from the LLM *)
| DBotVar (m : text).            (* a dialog flow runs a custom action and utters its result:
                                    `$answer = execute rag()` / `bot $answer` - text produced by an
                                    (LLM-calling) action, provenance FromLLM, NOT a predefined message *)

Section V1.
  Variable vf : nat -> nat -> rail -> text -> verdict.   (* turn, call index, rail, text shown *)
  Variable llm : nat -> nat -> prompt -> text.           (* turn, call index, what flows into the prompt *)
  Variable post_general : text -> text.                  (* strip/unquote of the `general` completion *)
  Variable intent_step : nat -> text -> dstep.           (* parse of the intent completion + the dialog flows *)
  Variable next_of : text -> string.                     (* parse of the next-step completion *)
  Variable predefined : string -> option text.           (* config.bot_messages *)
  Variable msg_of : text -> text.                        (* parse of the bot-message completion *)
  Variable refusal : text.                               (* the predefined `bot refuse to respond` *)

  (* `process bot message` on BotMessage(text=m) *)
  Definition process_bot (cf : cfg) (st : pstate) (c : nat) (m : text) : pstate * list tev * nat * reply :=
    let st1 := set_bot st m in
    if skip st1 then
      (push_hist (set_skip st1 false) (HBot m), [TEmit m], c, RMsg [m])
    else
      match orails cf with
      | [] => (push_hist st1 (HBot m), [TEmit m], c, RMsg [m])
      | _ =>
        match run_rails (vf (tidx st)) SOut (orails cf) c m with
        | (tr, c', Passed m') =>
          (push_hist (set_trig_out (set_bot st1 m') None) (HBot m'), tr ++ [TEmit m'], c', RMsg [m'])
        | (tr, c', Blocked r x) =>
          let st2 := set_trig_out (set_bot st1 x) (Some r) in
          if exceptions cf then (st2, tr ++ [TExc SOut r], c', RExc SOut r)
          else
            (* `bot refuse to respond`: generate_bot_message finds the predefined message and sets
               skip_output_rails; the BotMessage re-enters `process bot message`, which resets it;
               then `stop` *)
            let st3 := set_bot (set_skip st2 true) refusal in
            (push_hist (set_skip st3 false) (HBot refusal),
             tr ++ [TBot Predefined refusal; TEmit refusal], c', RMsg [refusal])
        end
      end.

  (* everything after UserMessage(text=um): dialog rails / generation, then the output side *)
  Definition gen_reply (cf : cfg) (st : pstate) (c : nat) (um : text) : pstate * list tev * nat * reply :=
    let h := hist st in
    let t := tidx st in
    if dialog cf then
      let p0 := mkPrompt KIntent h um in
      match intent_step t (llm t 0 p0) with
      | DBotVar m =>
        (* generate_bot_message, branch `bot $variable`: the utterance is the variable's value; it
           is a BotMessage like any other - skip_output_rails is NOT set *)
        let '(st', tr, c', rp) := process_bot cf st c m in
        (st', TLLM 0 p0 :: TBot FromLLM m :: tr, c', rp)
      | step =>
        let '(bi, tr1, n) :=
          match step with
          | DBot bi => (bi, [TLLM 0 p0], 1)
          | _ => let p1 := mkPrompt KNext h um in
                 (next_of (llm t 1 p1), [TLLM 0 p0; TLLM 1 p1], 2)
          end in
        match predefined bi with
        | Some m =>
          let '(st', tr, c', rp) := process_bot cf (set_skip st true) c m in
          (st', tr1 ++ TBot Predefined m :: tr, c', rp)
        | None =>
          let p2 := mkPrompt KBotMsg h um in
          let m := msg_of (llm t n p2) in
          let '(st', tr, c', rp) := process_bot cf st c m in
          (st', tr1 ++ TLLM n p2 :: TBot FromLLM m :: tr, c', rp)
        end
      end
    else
      (* passthrough sends the caller's message list (last user message replaced by $user_message) *)
      let p := if passthrough cf then mkPrompt KPassthrough (raw st) um else mkPrompt KGeneral h um in
      let o := llm t 0 p in
      let m := if passthrough cf then o else post_general o in
      let '(st', tr, c', rp) := process_bot cf st c m in
      (st', TLLM 0 p :: TBot FromLLM m :: tr, c', rp).

  (* what follows the input rails *)
  Definition after_input (cf : cfg) (st0 : pstate) (c : nat) (res : rres) : pstate * list tev * reply :=
    match res with
    | Passed um =>
      let st1 := set_user (match irails cf with [] => st0 | _ => set_trig_in st0 None end) um in
      let '(st2, tr, _, rp) := gen_reply cf (push_hist st1 (HUser um)) c um in
      (bump st2, TUser um :: tr, rp)
    | Blocked r x =>
      let st1 := set_trig_in (set_user st0 x) (Some r) in
      if exceptions cf then (bump st1, [TExc SIn r], RExc SIn r)
      else
        let st2 := set_bot (set_skip st1 true) refusal in
        (bump (push_hist (set_skip st2 false) (HBot refusal)),
         [TBot Predefined refusal; TEmit refusal], RMsg [refusal])
    end.

  Definition turn_v1 (cf : cfg) (st : pstate) (u : text) : pstate * list tev * reply :=
    let '(trI, c, res) := run_rails (vf (tidx st)) SIn (irails cf) 0 u in
    let '(st', tr, rp) := after_input cf (set_user st u) c res in
    (* the caller appends the user message (generate_user_intent overwrites its content with the
       rewritten text in passthrough mode; kept uniform here) and the reply to its message list *)
    let sent := match res with Passed um => um | Blocked _ _ => u end in
    (push_raw st' (HUser sent :: match rp with RMsg parts => map HBot parts | RExc _ _ => [] end),
     trI ++ tr, rp).

  (* a conversation: the turns in order, each starting from the state the previous one left *)
  Fixpoint conv_v1 (cf : cfg) (st : pstate) (us : list text) : list (pstate * list tev * reply) :=
    match us with
    | [] => []
    | u :: us' => let r := turn_v1 cf st u in r :: conv_v1 cf (fst (fst r)) us'
    end.

  (* a call with generation options, and a conversation whose calls each bring their own options *)
  Definition turn_v1_opts (cf : cfg) (o : topts) (st : pstate) (u : text) : pstate * list tev * reply :=
    turn_v1 (eff cf o) st u.

  Fixpoint conv_v1_opts (cf : cfg) (st : pstate) (ous : list (topts * text)) : list (pstate * list tev * reply) :=
    match ous with
    | [] => []
    | (o, u) :: ous' => let r := turn_v1_opts cf o st u in r :: conv_v1_opts cf (fst (fst r)) ous'
    end.

  Definition final_state (st : pstate) (rs : list (pstate * list tev * reply)) : pstate :=
    last (map (fun r => fst (fst r)) rs) st.
End V1.
