(* C11 - executable instance of V2/Cleanup.v for the correspondence (X3): the real
   _clean_up_state (with a controlled clock) against `cleanup_now` on abstracted real states. *)
From Coq Require Import ZArith List String Bool.
From NG Require Import Gen.C11Consts V2.Cleanup.
Import ListNotations.
Open Scope string_scope.
Open Scope Z_scope.

(* _clean_up_state with the constants of the CURRENT source; clock ticks = microseconds *)
Definition cfg_now : cfg :=
  mkCfg (cleanup_age_s * 1000000) cleanup_cmp_gt cleanup_needs_done cleanup_needs_not_activated done_statuses
        cleanup_purges_children cleanup_purges_scopes cleanup_needs_unneeded.

Definition cleanup_now : Z -> state -> option state := cleanup cfg_now.

Fixpoint leqb {A} (e : A -> A -> bool) (a b : list A) : bool :=
  match a, b with [] , [] => true | x :: a', y :: b' => e x y && leqb e a' b' | _, _ => false end.

Definition oeqb {A} (e : A -> A -> bool) (a b : option A) : bool :=
  match a, b with None, None => true | Some x, Some y => e x y | _, _ => false end.

Definition inst_eqb (a b : inst) : bool :=
  String.eqb (i_flow a) (i_flow b) && String.eqb (i_status a) (i_status b) && (i_updated a =? i_updated b)
  && (i_activated a =? i_activated b) && oeqb String.eqb (i_parent a) (i_parent b)
  && leqb String.eqb (i_children a) (i_children b) && leqb String.eqb (i_actions a) (i_actions b)
  && leqb (fun x y => String.eqb (fst x) (fst y) && leqb Z.eqb (snd x) (snd y)) (i_heads a) (i_heads b)
  && leqb (fun x y => String.eqb (fst x) (fst y) && leqb String.eqb (snd x) (snd y)) (i_scopes a) (i_scopes b)
  && (i_rest a =? i_rest b).

Definition state_eqb (a b : state) : bool :=
  leqb (fun x y => String.eqb (fst x) (fst y) && inst_eqb (snd x) (snd y)) (flows a) (flows b)
  && leqb (fun x y => String.eqb (fst x) (fst y) && leqb String.eqb (snd x) (snd y)) (by_flow a) (by_flow b)
  && leqb (fun x y => String.eqb (fst x) (fst y) && (snd x =? snd y)) (actions a) (actions b)
  && (s_rest a =? s_rest b).

(* case = (clock now, state before, state after the real _clean_up_state (None = it raised)) *)
Definition check_cleanup (c : Z * state * option state) : bool :=
  let '(now, s, expected) := c in oeqb state_eqb (cleanup_now now s) expected.

(* the hypothesis `refs_ok` of the clean-up theorems on an abstracted real state, before and after
   the model's own clean-up *)
Definition check_refs (c : Z * state * option state) : bool :=
  let '(now, s, expected) := c in
  refs_okb s && match cleanup_now now s with Some s' => refs_okb s' | None => false end.
