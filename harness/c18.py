"""C18 - streaming output does not depend on how the LLM text is chunked.

Model: coq/theories/Svc/Stream.v (push / process / on_llm_end of the repaired StreamingHandler,
plus the pre-fix transcription for the refutation witnesses); spec and theorems: Svc/Stream_proofs.v,
Props/C18.v.  Tie: (T) Gen/C18Consts.v = the prefix/suffix/stop patterns generation.py configures,
re-read from the current source; (X) the real StreamingHandler driven in a private event loop
(push_chunk per chunk, then on_llm_end / push_chunk("") / push_chunk(None)), every queue item,
completion, finished flag, current_chunk and pending prefix compared with the model evaluated
inside Coq - exhaustively over all 2^(n-1) chunkings of all short texts over a 3-letter alphabet
that contains the pattern letters.
Search: the property text restated in Python (spec()) evaluated on the implementation's output
for every chunking (chunking independence + equality with the restatement).
"""
from __future__ import annotations

import itertools
import json
import os
import random
import sys
import time
from concurrent.futures import ProcessPoolExecutor

from harness import common as C

PID = "C18"
GEN = ["C18Consts"]

PREAMBLE = """From Coq Require Import List NArith.
From NG Require Import Svc.Stream Svc.StreamRun.
Import ListNotations.
Local Open Scope N_scope.
"""

# how the chunks reach the handler and how the end is signalled:
#   llm_end: push_chunk per chunk, on_llm_end          empty / none: push_chunk per chunk, push_chunk("") / (None)
#   cb     : the LangChain callback path - on_llm_new_token(token, chunk=GenerationChunk) per chunk, on_llm_end
#   cb0    : chat model - on_chat_model_start, an EMPTY first token, on_llm_new_token(token,
#            chunk=ChatGenerationChunk) per chunk, on_llm_end
END_MODES = ["llm_end", "empty", "none", "cb", "cb0"]
PUSH_END_MODES = ("empty", "none")       # the end markers that are ignored while the prefix is pending
WS_ALPHABET = " ab"                      # callback path: an alphabet with a whitespace letter

# (prefix, suffix, stop) over the alphabet {a, b, c}; every pattern letter is in the alphabet
CONFIGS = [
    (None, None, []),
    ("a", None, []),
    (None, "b", []),
    ("a", "b", []),                 # F2: suffix arrives with the end of the prefix
    (None, None, ["c"]),            # F2: completion on a stop sequence
    ("a", "b", ["c"]),
    ("ab", "bb", ["cb"]),
    (None, "b", ["bc"]),            # stop sequence starts with the suffix
    (None, "b", ["cb"]),            # stop sequence ends with the suffix
    (None, None, ["bc", "c"]),      # overlapping stop sequences, both list orders
    (None, None, ["c", "bc"]),
    (None, None, ["b", "c"]),
    ("a", None, ["bc"]),
    ("ab", "b", ["b"]),             # stop sequence inside the prefix, stop = suffix
    ("aa", "a", ["a"]),
    ("ab", "ab", ["abc"]),
    (None, "bcb", ["cbc"]),         # self-overlapping patterns
    ("", "", []),                   # empty strings are "not configured"
    (None, "ab", ["b", "abc"]),
    ("abc", None, ["ca", "ab"]),
    ("a", "c", ["bb", "cb", "bc"]),
]
ALPHABET = "abc"
LONGEST_FOR = (5, 6, 13, 20)        # indices into CONFIGS swept up to the longest text length (thorough)


# ---------------------------------------------------------------------------------------
# the SYSTEMATIC configuration space: every prefix / suffix / stop pattern up to a length bound
# over the alphabet (so every self-overlapping pattern "aa", "aab", "aba", every pair of stops that
# are prefixes / suffixes / infixes of each other or of the suffix is in it), up to renaming of the
# letters (the texts range over all of {a,b,c}*, so one representative per renaming class suffices)


def _strs(lo, hi):
    return ["".join(t) for n in range(lo, hi + 1) for t in itertools.product(ALPHABET, repeat=n)]


def canonical(cfg):
    """First occurrences of the letters in prefix+suffix+stops appear in the order a, b, c."""
    seen = []
    for ch in (cfg[0] or "") + (cfg[1] or "") + "".join(cfg[2]):
        if ch not in seen:
            seen.append(ch)
    return seen == list(ALPHABET[: len(seen)])


def systematic_configs():
    """[(config, family, max text length for on_llm_end, max text length for push_chunk(''))]"""
    p2, p3, p4 = _strs(1, 2), _strs(1, 3), _strs(4, 4)
    fams = [
        # every suffix x every single stop, patterns up to length 3
        ("suffix3-x-stop3", 5, 4, [(None, sf, st) for sf in [None] + p3 for st in [[]] + [[x] for x in p3]]),
        # every ordered pair of distinct stops up to length 3
        ("stop3-pairs", 5, 4, [(None, None, [x, y]) for x in p3 for y in p3 if x != y]),
        # every prefix x suffix x single stop, patterns up to length 2
        ("prefix2-x-suffix2-x-stop2", 4, 4,
         [(pf, sf, st) for pf in p2 for sf in [None] + p2 for st in [[]] + [[x] for x in p2]]),
        # prefix and suffix up to length 3 (at least one of length 3)
        ("prefix3-x-suffix3", 5, 4, [(pf, None, []) for pf in p3]
         + [(pf, sf, []) for pf in p3 for sf in p3 if len(pf) == 3 or len(sf) == 3]),
        # a single suffix / a single stop of length 4 (partial matches that go past a recurrence)
        ("single-pattern4", 6, 5, [(None, sf, []) for sf in p4] + [(None, None, [x]) for x in p4]),
        # suffix x ordered pair of stops, patterns up to length 2
        ("suffix2-x-stop2-pairs", 4, 4, [(None, sf, [x, y]) for sf in p2 for x in p2 for y in p2 if x != y]),
    ]
    out, seen = [], set()
    for name, l_end, l_empty, cfgs in fams:
        for cfg in cfgs:
            key = (cfg[0], cfg[1], tuple(cfg[2]))
            if key in seen or not canonical(cfg):
                continue
            seen.add(key)
            out.append((cfg, name, l_end, l_empty))
    return out


WS_MAP_1 = {"a": " ", "b": "a", "c": "b"}
WS_MAP_2 = {"a": "a", "b": " ", "c": "b"}


def rename_cfg(cfg, m):
    def r(x):
        return None if x is None else "".join(m[ch] for ch in x)
    return (r(cfg[0]), r(cfg[1]), [r(x) for x in cfg[2]])


# realistic multi-character patterns (besides those read from generation.py): stop sequences and
# suffixes whose first character recurs inside them, LLM-level stop lists used by generation.py
REAL_CONFIGS = [
    (None, None, ["\n\nHuman:"]),
    ('  "', '"', ["\n\nHuman:", '"\n']),
    (None, '"""', []),
    ('"""', '"""', ["\n\n\n"]),
    (None, None, ["\nuser ", "\nUser "]),
    (None, None, ["User:"]),
    (None, '"', ['"\n', '"""']),
    ("``", "```", ["```\n"]),
]


def real_texts(cfg):
    """LLM-like outputs that exercise the patterns of cfg: with / without prefix, suffix at the end,
    stop sequence in the middle, at the end, only partially present."""
    prefix, suffix, stop = cfg
    bodies = ["Hi", "Hi there", "a\n", 'say "x"', ""]
    texts = []
    for body in bodies:
        t = (prefix or "") + body
        texts.append(t)
        texts.append(t + (suffix or ""))
        if suffix:
            texts.append(t + suffix[:-1])
            texts.append(t + suffix + suffix)
        for st in stop:
            texts.append(t + st + "x")
            texts.append(t + (suffix or "") + st)
            texts.append(t + st[:-1])
            texts.append(t + st[: max(1, len(st) // 2)] + "y" + st)
    texts.append("x" + (suffix or "") + "".join(stop))      # does not start with the prefix
    seen, out = set(), []
    for t in texts:
        if t not in seen:
            seen.add(t)
            out.append(t)
    return out


def few_cut_chunkings(text, max_cuts=2):
    """Every chunking of text with at most max_cuts chunk boundaries."""
    n = len(text)
    res = []
    for k in range(0, max_cuts + 1):
        for cuts in itertools.combinations(range(1, n), k):
            b = [0] + list(cuts) + [n]
            res.append([text[b[i]: b[i + 1]] for i in range(len(b) - 1)])
    return res if n else [[]]


# ---------------------------------------------------------------------------------------
# the property text, restated (independent of the model): prefix removed if the text starts
# with it, cut at the leftmost occurrence of any stop sequence, suffix removed from the very end


def spec(prefix, suffix, stop, text):
    t = text
    if prefix and t.startswith(prefix):
        t = t[len(prefix):]
    starts = [i for i in range(len(t) + 1) if any(s and t.startswith(s, i) for s in stop)]
    if any(s == "" for s in stop):
        starts = [0]
    if starts:
        t = t[: min(starts)]
    if suffix and t.endswith(suffix):
        t = t[: len(t) - len(suffix)]
    return t


def prefix_seen(prefix, text):
    return (not prefix) or text.startswith(prefix)


def chunkings(text):
    """All 2^(n-1) ways to split text into non-empty chunks, by bit mask (bit i-1 = cut before i)."""
    n = len(text)
    if n == 0:
        return [[]]
    res = []
    for mask in range(1 << (n - 1)):
        out, start = [], 0
        for i in range(1, n):
            if mask >> (i - 1) & 1:
                out.append(text[start:i])
                start = i
        out.append(text[start:])
        res.append(out)
    return res


def random_chunking(rng, text, p_cut):
    out, start = [], 0
    for i in range(1, len(text)):
        if rng.random() < p_cut:
            out.append(text[start:i])
            start = i
    if text:
        out.append(text[start:])
    return out


# ---------------------------------------------------------------------------------------
# driving the real handler

_H = {}


def _handler_cls():
    if "cls" not in _H:
        import logging

        if C.REPO not in sys.path:
            sys.path.insert(0, C.REPO)
        from nemoguardrails.streaming import StreamingHandler

        logging.getLogger("nemoguardrails.streaming").setLevel(logging.CRITICAL)
        _H["cls"] = StreamingHandler
    return _H["cls"]


async def _drive(cls, prefix, suffix, stop, chunks, end, pipe=False):
    h = cls()
    h.set_pattern(prefix=prefix, suffix=suffix)
    h.stop = list(stop)
    sink = h
    if pipe:
        import asyncio

        sink = cls()
        h.set_pipe_to(sink)
    if end in ("cb", "cb0"):
        from langchain.schema.messages import AIMessageChunk
        from langchain.schema.output import ChatGenerationChunk, GenerationChunk

        if end == "cb0":
            await h.on_chat_model_start({}, [[]], run_id=None)
            await h.on_llm_new_token("", chunk=ChatGenerationChunk(message=AIMessageChunk(content="")), run_id=None)
        for c in chunks:
            wrapped = (GenerationChunk(text=c) if end == "cb"
                       else ChatGenerationChunk(message=AIMessageChunk(content=c)))
            await h.on_llm_new_token(c, chunk=wrapped, run_id=None)
        await h.on_llm_end(None, run_id=None)
    else:
        for c in chunks:
            await h.push_chunk(c)
    if end in ("cb", "cb0"):
        pass
    elif end == "llm_end":
        await h.on_llm_end(None, run_id=None)
    elif end == "empty":
        await h.push_chunk("")
    else:
        await h.push_chunk(None)
    if pipe:
        for _ in range(len(chunks) + 4):
            await asyncio.sleep(0)
    items = []
    q = sink.queue
    while not q.empty():
        items.append(q.get_nowait())
    return (items, h.completion, h.streaming_finished_event.is_set(), h.current_chunk, bool(h.prefix))


def drive_many(jobs):
    """jobs: list of (prefix, suffix, stop, chunks, end[, pipe]) -> list of observations
    (or ('exc', name) when the handler raised)."""
    import asyncio

    cls = _handler_cls()

    async def all_():
        res = []
        for j in jobs:
            try:
                res.append(await _drive(cls, *j))
            except Exception as e:  # noqa: BLE001 - an exception is an observation the model does not predict
                res.append(("exc", type(e).__name__ + ": " + str(e)[:80]))
        return res

    loop = asyncio.new_event_loop()
    try:
        return loop.run_until_complete(all_())
    finally:
        loop.close()


def delivered(items):
    out = []
    for it in items:
        if it is None or it == "":
            break
        out.append(it)
    return "".join(out)


# ---------------------------------------------------------------------------------------
# oracle sweep (implementation only), run in worker processes


def classify(prefix, suffix, stop, text, chunks, end, got, comp):
    """Signature of the defect class of one oracle failure."""
    want = spec(prefix, suffix, stop, text)
    if end in ("cb", "cb0"):
        # the same chunks through push_chunk + on_llm_end: if that is right, the callback entry is at fault
        o = drive_many([(prefix, suffix, stop, chunks, "llm_end")])[0]
        if o[0] != "exc" and delivered(o[0]) == want and o[1] == want:
            return "on_llm_new_token:tokens-through-callback-differ-from-push_chunk"
    body = text[len(prefix):] if prefix and text.startswith(prefix) else text
    stop_hit = any(s in body for s in stop)
    if got != want:
        if prefix and text.startswith(prefix) and any(len(c) > 0 for c in chunks):
            # which chunk completed the prefix, and did it carry more than the prefix?
            n = 0
            for c in chunks:
                before = n
                n += len(c)
                if n >= len(prefix):
                    carried = n > len(prefix)
                    break
            else:
                carried = False
            if carried and (suffix or stop):
                return "push_chunk:prefix-end-and-suffix-or-stop-in-same-chunk"
        if stop_hit:
            return "_process:stream-wrong-on-stop-sequence"
        if suffix:
            return "push_chunk:suffix-not-removed-from-stream"
        return "push_chunk:stream-differs-from-text"
    if comp != want:
        if stop_hit:
            return "_process:completion-wrong-on-stop-sequence"
        return "completion-differs-from-stream"
    return None


M61 = (1 << 61) - 1


def _hstep(h, sym):
    x = 257 * h + sym
    y = (x & M61) + (x >> 61)
    return y - M61 if y >= M61 else y


def hash_obs(h, o):
    """Same serialisation and polynomial hash as hobs in Svc/StreamRun.v."""
    items, comp, fin, cur, pend = o
    for it in items:
        if it is None:
            h = _hstep(h, 1)
        else:
            h = _hstep(h, 2)
            for ch in it:
                h = _hstep(h, ord(ch) + 10)
            h = _hstep(h, 3)
    h = _hstep(h, 4)
    for ch in comp:
        h = _hstep(h, ord(ch) + 10)
    h = _hstep(h, 5)
    h = _hstep(h, 6 if fin else 7)
    for ch in cur:
        h = _hstep(h, ord(ch) + 10)
    h = _hstep(h, 8)
    return _hstep(h, 6 if pend else 7)


def _block_worker(args):
    """One (config, end mode, text length) block, exhaustively: every text of that length over
    ALPHABET, every chunking.  Returns the per-text observation hashes (for the correspondence),
    the oracle verdicts (counts + smallest failure per signature) and the run count."""
    cfg, end, tspec, repo, want_hash = args
    C.REPO = repo
    prefix, suffix, stop = cfg
    runs = oracle_runs = nontrivial = 0
    fails = {}
    hashes = []
    few_cuts = False
    if tspec[0] == "len":       # ("len", lo, hi): every text over ALPHABET with lo <= length <= hi
        alpha = tspec[3] if len(tspec) > 3 else ALPHABET
        texts = ("".join(tup) for n in range(tspec[1], tspec[2] + 1) for tup in itertools.product(alpha, repeat=n))
    else:                       # ("texts", [...]) all chunkings / ("fewcuts", [...]) at most 2 boundaries
        texts = tspec[1]
        few_cuts = tspec[0] == "fewcuts"
    for text in texts:
        seen = prefix_seen(prefix, text)
        want = spec(prefix, suffix, stop, text)
        chs = few_cut_chunkings(text) if few_cuts else chunkings(text)
        obs = drive_many([(prefix, suffix, stop, ch, end) for ch in chs])
        h = 0
        for ch, o in zip(chs, obs):
            runs += 1
            if o[0] == "exc":
                sig, got, comp = "handler-raises", o[1], None
                h = None
            else:
                if h is not None:
                    h = hash_obs(h, o) if want_hash and not few_cuts else 0
                got, comp = delivered(o[0]), o[1]
                if end in PUSH_END_MODES and not seen:
                    # documented: push_chunk("")/None is ignored while the prefix is pending
                    if got == "" and comp == "":
                        continue
                    sig, want_here = "push_chunk:output-before-prefix", ""
                else:
                    oracle_runs += 1
                    if want != text and len(ch) >= 2:
                        nontrivial += 1
                    if got == want and comp == want:
                        continue
                    sig = classify(prefix, suffix, stop, text, ch, end, got, comp)
            cur = fails.get(sig)
            size = (len(text), len(ch))
            payload = {"prefix": prefix, "suffix": suffix, "stop": stop, "chunks": ch, "end": end,
                       "delivered": got, "completion": comp, "required": "" if (end in PUSH_END_MODES and not seen) else want}
            if cur is None or size < cur[0]:
                fails[sig] = (size, payload, (cur[2] if cur else 0) + 1)
            else:
                fails[sig] = (cur[0], cur[1], cur[2] + 1)
        hashes.append((text, h))
    return cfg, end, hashes, runs, oracle_runs, nontrivial, fails


# ---------------------------------------------------------------------------------------
# printing cases as Coq terms


def coq_nstr(s):
    return "[" + ";".join(str(ord(ch)) for ch in s) + "]"


def coq_opt(s):
    return "None" if s is None else "(Some " + coq_nstr(s) + ")"


def coq_case(prefix, suffix, stop, chunks, end, o):
    items, comp, fin, cur, pend = o
    q = "[" + ";".join(coq_opt(i) for i in items) + "]"
    return "((%s, %s, [%s], [%s], %d%%nat, (%s, %s, %s, %s, %s)) : case)" % (
        coq_opt(prefix), coq_opt(suffix), ";".join(coq_nstr(s) for s in stop),
        ";".join(coq_nstr(c) for c in chunks), END_MODES.index(end),
        q, coq_nstr(comp), C.coq_bool(fin), coq_nstr(cur), C.coq_bool(pend))


def coq_tcase(prefix, suffix, stop, text, end, h):
    return "((%s, %s, [%s], %s, %d%%nat, %d) : tcase)" % (
        coq_opt(prefix), coq_opt(suffix), ";".join(coq_nstr(s) for s in stop), coq_nstr(text),
        END_MODES.index(end), h)


def model_answer(prefix, suffix, stop, chunks, end, fn="run_c"):
    term = "obs_of (%s %s %s [%s] [%s] %d%%nat)" % (
        fn, coq_opt(prefix), coq_opt(suffix), ";".join(coq_nstr(s) for s in stop),
        ";".join(coq_nstr(c) for c in chunks), END_MODES.index(end))
    return C.eval_term(PID + "_x", PREAMBLE, term)


# ---------------------------------------------------------------------------------------


def gen_sampled_jobs(tier, rng, gen_cfgs):
    """(prefix, suffix, stop, chunks, end, pipe) jobs compared case by case with the model."""
    jobs = []
    dist = {"sampled_long_runs": 0, "generation_py_runs": 0, "pipe_runs": 0}
    # long sampled texts: pattern-rich random texts, random chunkings
    n_long = 1500 if tier == "quick" else 20000
    for _ in range(n_long):
        cfg = rng.choice(CONFIGS)
        length = rng.choice([9, 12, 20, 40, 80, 200]) if tier != "quick" else rng.choice([9, 12, 20, 40])
        body = "".join(rng.choice(ALPHABET) for _ in range(length))
        text = (cfg[0] or "") + body if rng.random() < 0.7 else body
        if cfg[1] and rng.random() < 0.5:
            text += cfg[1]
        ch = random_chunking(rng, text, rng.choice([0.1, 0.3, 0.6, 1.0]))
        jobs.append((cfg[0], cfg[1], cfg[2], ch, rng.choice(END_MODES), False))
        dist["sampled_long_runs"] += 1
    # the patterns generation.py really configures, on LLM-like outputs
    n_gen = 600 if tier == "quick" else 6000
    words = ["Hello", " there", "!", " How", " are", " you", "?", '"', "\n", "User", " intent", ":", " ", "  ",
             "Bot", " message", 'say "hi"', ".", "user ", "\nUser ", "\n\n", "Hu", "man:", '""', "`", "``"]
    for _ in range(n_gen if gen_cfgs else 0):
        cfg = rng.choice(gen_cfgs)
        pieces = [rng.choice(words) for _ in range(rng.randint(0, 8))]
        if cfg[2] and rng.random() < 0.6:
            st = rng.choice(cfg[2])
            pieces.insert(rng.randint(0, len(pieces)), st if rng.random() < 0.7 else st[: rng.randint(1, len(st))])
        body = "".join(pieces)
        text = (cfg[0] or "") + body if rng.random() < 0.8 else body
        r = rng.random()
        if r < 0.4 and cfg[1]:
            text += cfg[1]
        elif r < 0.7 and cfg[1]:
            text += cfg[1] + "\n" + rng.choice(["user ", "User intent: x", ""])
        ch = random_chunking(rng, text, rng.choice([0.05, 0.2, 0.5, 1.0]))
        jobs.append((cfg[0], cfg[1], cfg[2], ch, rng.choice(END_MODES), False))
        dist["generation_py_runs"] += 1
    # callback path with empty tokens anywhere (an empty token after the first one is an end marker):
    # compared with the model only, the oracle does not judge these
    n_empty = 300 if tier == "quick" else 3000
    dist["callback_empty_token_runs"] = n_empty
    for _ in range(n_empty):
        cfg = rename_cfg(rng.choice(CONFIGS), rng.choice([WS_MAP_1, WS_MAP_2]))
        body = "".join(rng.choice(WS_ALPHABET) for _ in range(rng.randint(0, 8)))
        ch = random_chunking(rng, (cfg[0] or "") + body, 0.5)
        for _k in range(rng.randint(1, 2)):
            ch.insert(rng.randint(0, len(ch)), "")
        jobs.append((cfg[0], cfg[1], cfg[2], ch, rng.choice(["cb", "cb0"]), False))
    # piped handler: the downstream handler must receive exactly the same items
    n_pipe = 300 if tier == "quick" else 3000
    for _ in range(n_pipe):
        cfg = rng.choice(CONFIGS)
        body = "".join(rng.choice(ALPHABET) for _ in range(rng.randint(0, 8)))
        text = (cfg[0] or "") + body
        ch = random_chunking(rng, text, 0.5)
        jobs.append((cfg[0], cfg[1], cfg[2], ch, rng.choice(END_MODES), True))
        dist["pipe_runs"] += 1
    return jobs, dist


def load_corpus(replay):
    cases = []
    d = os.path.join(C.VERIF, "corpus", PID)
    files = []
    if os.path.isdir(d):
        files = [os.path.join(d, fn) for fn in sorted(os.listdir(d)) if fn.endswith(".json")]
    n_corpus = len(files)
    if replay:
        files.append(replay)
    for fn in files:
        r = json.load(open(fn))
        r = r.get("replay", r)
        if "chunks" not in r:
            continue
        cases.append((r.get("prefix"), r.get("suffix"), list(r.get("stop") or []), list(r["chunks"]),
                      r.get("end", "llm_end"), bool(r.get("pipe", False))))
    return cases, n_corpus


def printable(job):
    return all(ord(ch) < 1 << 20 for s in [job[0] or "", job[1] or ""] + list(job[2]) + list(job[3]) for ch in s)


def exhaustive_plan(tier, seed, gen_cfgs):
    """Blocks (config, end mode, texts, repo, compared-with-model?) of the exhaustive sweep, and
    a description of the configuration space."""
    x_len = 6 if tier == "quick" else 7          # model vs implementation, all chunkings
    o_len = 7 if tier == "quick" else 9          # implementation vs restated property only
    blocks = []
    info = {}
    # (1) the hand-picked configurations, long texts
    for ci, cfg in enumerate(CONFIGS):
        for end in END_MODES[:3]:
            for length in range(0, o_len + 1):
                with_model = length <= (x_len if end != "none" else 4)
                if not with_model:
                    if end == "none":
                        continue                  # None takes the same branches as ""
                    if end == "empty" and length > o_len - 1:
                        continue
                    if length == 9 and ci not in LONGEST_FOR:
                        continue                  # longest texts: four pattern-rich configurations
                blocks.append((cfg, end, ("len", length, length), C.REPO, with_model))
    # (2) the systematic configuration space, shorter texts; the model is compared on a slice of
    #     it in the quick tier (a different slice for every seed) and on all of it in the thorough tier
    sysc = systematic_configs()
    fam_count = {}
    extra = 0 if tier == "quick" else 1
    n_model = 0
    for i, (cfg, fam, l_end, l_empty) in enumerate(sysc):
        fam_count[fam] = fam_count.get(fam, 0) + 1
        with_model = tier != "quick" or (i + seed) % 6 == 0
        n_model += with_model
        m_len = min(4, l_empty)
        blocks.append((cfg, "llm_end", ("len", 0, m_len), C.REPO, with_model))
        blocks.append((cfg, "empty", ("len", 0, m_len), C.REPO, with_model))
        if l_end + extra > m_len:
            blocks.append((cfg, "llm_end", ("len", m_len + 1, l_end + extra), C.REPO, False))
        if l_empty + extra > m_len:
            blocks.append((cfg, "empty", ("len", m_len + 1, l_empty + extra), C.REPO, False))
    info["systematic_configs"] = len(sysc)
    info["systematic_families"] = fam_count
    info["systematic_configs_compared_with_model"] = n_model
    # (3) realistic patterns: generation.py's and multi-character ones with a recurring first
    #     character; short texts with every chunking (and the model), longer ones with <= 2 boundaries
    real = [tuple(c) for c in gen_cfgs] + REAL_CONFIGS
    n_real_texts = 0
    for cfg in real:
        texts = real_texts(cfg)
        n_real_texts += len(texts)
        short = [t for t in texts if len(t) <= (11 if tier == "quick" else 14)]
        for end in ("llm_end", "empty"):
            if short:
                blocks.append((cfg, end, ("texts", short), C.REPO, True))
            blocks.append((cfg, end, ("fewcuts", texts), C.REPO, False))
    info["realistic_configs"] = len(real)
    info["realistic_texts"] = n_real_texts
    # (4) the LangChain callback entry path (on_llm_new_token ... on_llm_end), over an alphabet with a
    #     whitespace letter: the pattern letters are renamed so that the first letter of the
    #     configuration (the first letter of the prefix, if there is one) is the blank, and a
    #     second time so that its second letter is
    n_cb = 0
    for ci, cfg in enumerate(CONFIGS):
        for m in (WS_MAP_1, WS_MAP_2):
            wcfg = rename_cfg(cfg, m)
            blocks.append((wcfg, "cb", ("len", 0, 5, WS_ALPHABET), C.REPO, True))
            blocks.append((wcfg, "cb0", ("len", 0, 4, WS_ALPHABET), C.REPO, True))
            blocks.append((wcfg, "cb", ("len", 6, 6 + extra, WS_ALPHABET), C.REPO, False))
            n_cb += 1
    for i, (cfg, fam, l_end, l_empty) in enumerate(sysc):
        maps = (WS_MAP_1, WS_MAP_2) if cfg[0] else (WS_MAP_1,)
        for k, m in enumerate(maps):
            wcfg = rename_cfg(cfg, m)
            with_model = tier != "quick" or (i + seed + 3) % 12 == 0
            blocks.append((wcfg, "cb" if k == 0 else "cb0", ("len", 0, 4, WS_ALPHABET), C.REPO, with_model))
            n_cb += 1
    for cfg in real:
        texts = real_texts(cfg)
        short = [t for t in texts if len(t) <= (10 if tier == "quick" else 13)]
        if short:
            blocks.append((cfg, "cb", ("texts", short), C.REPO, True))
        blocks.append((cfg, "cb0", ("fewcuts", texts), C.REPO, False))
        n_cb += 1
    info["callback_path_configs"] = n_cb

    def weight(b):
        t = b[2]
        if t[0] == "len":
            return sum(6 ** n for n in range(t[1], t[2] + 1))
        if t[0] == "texts":
            return sum(2 ** len(x) for x in t[1])
        return sum(len(x) ** 2 for x in t[1])

    blocks.sort(key=lambda b: -weight(b))       # heaviest blocks first: better load balance
    return blocks, info


def run(tier, seed, replay=None):
    out = C.Outcome(PID, tier, seed)
    rng = random.Random(seed * 1000003 + 18)
    t0 = time.time()
    b = C.build_and_audit(PID, GEN)
    C.proof_coverage(out, b, "make theories/Props/C18.vo && coqc Props/C18.v (Print Assumptions)")
    for br in b["broken"]:
        out.add_broken(br, b["log"])
    with C.BuildLock():
        okm, logm = C.coq_make(["theories/Svc/StreamRun.vo"])
    if not okm:
        out.add_broken("coq:theories/Svc/StreamRun.v", logm)

    gen_cfgs = []
    try:
        from translator import gen_c18

        gen_cfgs = gen_c18.configs()
    except Exception as e:  # noqa: BLE001
        if not any(x["obligation"].startswith("translator:") for x in out.broken):
            out.add_broken("translator:C18Consts", repr(e))
    timing = {"build_s": round(time.time() - t0, 1)}

    use_old = os.environ.get("VERIF_C18_MODEL") == "prefix"   # development aid: diff against the pre-fix model
    check_fn, check_text_fn, run_fn = (("check_stream_old", "check_text_old", "run_old_c") if use_old
                                       else ("check_stream", "check_text", "run_c"))
    cfg_list = [c for c in CONFIGS if not (use_old and "" in c[2])]

    fails = {}

    def note(sig, size, payload, n=1):
        cur = fails.get(sig)
        if cur is None or size < cur[0]:
            fails[sig] = (size, payload, (cur[2] if cur else 0) + n)
        else:
            fails[sig] = (cur[0], cur[1], cur[2] + n)

    # ---- exhaustive sweep in worker processes: implementation driven on every chunking; the
    #      observations are hashed per text (for the model) and judged by the oracle
    t1 = time.time()
    tcases = []          # (cfg, end, text, hash)
    sweep_runs = oracle_runs = nontrivial = 0
    dist = {}
    if not replay:
        blocks, plan_info = exhaustive_plan(tier, seed, gen_cfgs)
        blocks = [bl for bl in blocks if not (use_old and ("" in bl[0][2] or bl[1] in ("cb", "cb0")))]
        dist.update(plan_info)
        with ProcessPoolExecutor(max_workers=C.NPROC) as ex:
            for (cfg, end, hashes, runs, o_runs, nt, fl), bl in zip(ex.map(_block_worker, blocks, chunksize=2), blocks):
                sweep_runs += runs
                oracle_runs += o_runs
                nontrivial += nt
                for sig, (size, payload, n) in fl.items():
                    note(sig, size, payload, n)
                if bl[4]:
                    for text, h in hashes:
                        if h is not None:
                            tcases.append((cfg, end, text, h))
        dist["exhaustive_blocks"] = len(blocks)
        dist["exhaustive_runs_on_impl"] = sweep_runs
        dist["exhaustive_max_len_model"] = max([bl[2][2] for bl in blocks if bl[4] and bl[2][0] == "len"] or [0])
        dist["exhaustive_max_len_oracle"] = max([bl[2][2] for bl in blocks if bl[2][0] == "len"] or [0])
    timing["exhaustive_impl_s"] = round(time.time() - t1, 1)

    t2 = time.time()
    bad_texts = []
    model_runs = 0
    if okm and tcases:
        # balance the shards: a text of length n costs 2^(n-1) model runs; deal the texts, heaviest
        # first, round-robin over the shards (run_cases cuts consecutive slices)
        n_shards = max(1, min(4 * C.NPROC, len(tcases) // 50))
        order = sorted(range(len(tcases)), key=lambda i: -len(tcases[i][2]))
        bins = [order[k::n_shards] for k in range(n_shards)]
        size = max(len(bn) for bn in bins)
        bins.sort(key=len, reverse=True)           # only the last slices may be shorter
        tcases = [tcases[i] for bn in bins for i in bn]
        terms = [coq_tcase(c[0], c[1], c[2], text, end, h) for c, end, text, h in tcases]
        bools, err = C.run_cases(PID + "_t", PREAMBLE, terms, check_text_fn, shard=size, timeout=1500)
        if err:
            out.add_broken("correspondence:C18-stream-exhaustive(coqc)", err)
        else:
            bad_texts = [tc for ok, tc in zip(bools, tcases) if not ok]
            model_runs = sum(1 << max(0, len(tc[2]) - 1) for tc in tcases)
    timing["exhaustive_model_s"] = round(time.time() - t2, 1)

    # ---- case-by-case correspondence: corpus / replay first, texts whose hash differed, sampled cases
    corpus, n_corpus = load_corpus(replay)
    jobs = list(corpus)
    for cfg, end, text, _h in sorted(bad_texts, key=lambda tc: (len(tc[2]), tc[2]))[:40]:
        for ch in chunkings(text):
            jobs.append((cfg[0], cfg[1], cfg[2], ch, end, False))
    if not replay:
        sj, d2 = gen_sampled_jobs(tier, rng, [tuple(c) for c in gen_cfgs] + REAL_CONFIGS)
        dist.update(d2)
        jobs += sj
    if use_old:
        jobs = [j for j in jobs if "" not in j[2] and j[4] not in ("cb", "cb0")]
    t3 = time.time()
    obs = drive_many(jobs)
    terms, kept = [], []
    seen = set()
    for j, o in zip(jobs, obs):
        if o[0] == "exc":
            note("handler-raises", (len("".join(j[3])), len(j[3])),
                 {"prefix": j[0], "suffix": j[1], "stop": j[2], "chunks": j[3], "end": j[4], "pipe": j[5],
                  "delivered": o[1], "completion": None, "required": spec(j[0], j[1], j[2], "".join(j[3]))})
            continue
        t = coq_case(j[0], j[1], j[2], j[3], j[4], o)
        terms.append(t)
        kept.append((j, o))
        h = C.canon_hash(t)
        if h not in seen:
            seen.add(h)
            text = "".join(j[3])
            if (j[0] or j[1] or j[2]) and len(j[3]) >= 2 and spec(j[0], j[1], j[2], text) != text:
                nontrivial += 1
    disagreements = []
    if okm and terms:
        for tag, fn, sel in (("_x", check_fn, False), ("_p", "check_stream_pipe", True)):
            sub = [(t, k) for t, k in zip(terms, kept) if k[0][5] == sel]
            if not sub or (sel and use_old):
                continue
            bools, err = C.run_cases(PID + tag, PREAMBLE, [t for t, _k in sub], fn, shard=150)
            if err:
                out.add_broken("correspondence:C18-stream(coqc)", err)
            else:
                disagreements += [k for ok, (_t, k) in zip(bools, sub) if not ok]
    timing["sampled_s"] = round(time.time() - t3, 1)
    if bad_texts and not disagreements and not any("correspondence" in x["obligation"] for x in out.broken):
        out.add_broken("correspondence:C18-stream-exhaustive",
                       f"{len(bad_texts)} texts whose observation hash differs, e.g. {bad_texts[0][:3]!r}, but no "
                       f"single chunking disagrees (hash/serialisation mismatch between harness and StreamRun.v)")
    if disagreements:
        j, o = min(disagreements, key=lambda k: (len("".join(k[0][3])), len(k[0][3]), len(str(k[0]))))
        model = model_answer(j[0], j[1], j[2], j[3], j[4], run_fn)
        out.add_broken("correspondence:C18-stream",
                       f"{len(disagreements)} chunkings disagree ({len(bad_texts)} of {len(tcases)} exhaustive texts); "
                       f"smallest: prefix={j[0]!r} suffix={j[1]!r} stop={j[2]!r} chunks={j[3]!r} end={j[4]} pipe={j[5]} "
                       f"impl(queue,completion,finished,current_chunk,prefix_pending)={o!r} model={model[-600:]}")

    # ---- direct oracle on the case-by-case runs (corpus / replay, long, generation.py, pipe)
    for j, o in kept:
        prefix, suffix, stop, chunks, end, pipe = j
        text = "".join(chunks)
        if any(c == "" for c in chunks):
            continue
        payload = {"prefix": prefix, "suffix": suffix, "stop": stop, "chunks": chunks, "end": end, "pipe": pipe,
                   "delivered": delivered(o[0]), "completion": o[1]}
        if end in PUSH_END_MODES and not prefix_seen(prefix, text):
            # documented decision: push_chunk("")/None does not end a stream whose prefix is pending
            if delivered(o[0]) != "" or o[1] != "":
                note("push_chunk:output-before-prefix", (len(text), len(chunks)), {**payload, "required": ""})
            continue
        oracle_runs += 1
        want = spec(prefix, suffix, stop, text)
        if payload["delivered"] != want or o[1] != want:
            sig = classify(prefix, suffix, stop, text, chunks, end, payload["delivered"], o[1])
            note(sig, (len(text), len(chunks)), {**payload, "required": want})

    for sig, (size, payload, n) in sorted(fails.items()):
        out.findings.append(C.Finding(
            sig,
            f"{n} runs, smallest: chunks {payload['chunks']!r} (prefix={payload['prefix']!r} suffix={payload['suffix']!r} "
            f"stop={payload['stop']!r} end={payload['end']}) deliver {payload['delivered']!r}, completion "
            f"{payload['completion']!r}; required {payload['required']!r}", payload))

    out.coverage.update({
        "evaluations": model_runs + len(terms) + oracle_runs,
        "distinct_nontrivial": nontrivial,
        "rule": "one case = (prefix, suffix, stop list, chunk list, end mode); the exhaustive sweep enumerates every "
                "text over {a,b,c} up to the length bound and every chunking of it, so cases are distinct by "
                "construction; sampled cases are distinct by hash of the Coq case term; non-trivial = at least 2 "
                "chunks and the required output differs from the raw text (a configured pattern actually fires)",
        "samples": [{"prefix": j[0], "suffix": j[1], "stop": j[2], "chunks": j[3], "end": j[4],
                     "impl": {"queue": o[0], "completion": o[1], "finished": o[2], "current_chunk": o[3]}}
                    for j, o in (kept[:2] + kept[len(kept) // 2: len(kept) // 2 + 2] + kept[-1:])],
        "input_distribution": {**dist, "configs": len(cfg_list), "alphabet": ALPHABET, "corpus_cases": n_corpus,
                               "generation_py_configs": gen_cfgs, "end_modes": END_MODES,
                               "exhaustive_texts_hashed_against_model": len(tcases)},
        "traces_validated_against_impl": model_runs + len(terms),
        "oracle_runs_on_impl": oracle_runs,
        "correspondence_disagreements": len(disagreements) + len(bad_texts),
        "oracle_violations": sum(n for _s, _p, n in fails.values()),
        "timing": timing,
        "model": "pre-fix transcription (development aid)" if use_old else "repaired handler",
    })
    out.assumptions += [
        "buffering disabled (enable_buffer False); single producer; asyncio.Queue / piped handler modelled as the list "
        "of items put; events as booleans; prefix/suffix/stop fixed for the whole stream",
        "push_chunk('')/push_chunk(None) while the configured prefix has not been seen is ignored by the handler "
        "(disable_buffering relies on it); for these end modes the required output applies to texts that start with "
        "the prefix, otherwise nothing may be delivered",
        "first stop sequence = leftmost start position over all stop sequences",
        "callback path: LangChain passes chunk=GenerationChunk(text=token) / ChatGenerationChunk; only an EMPTY FIRST "
        "token is dropped by on_llm_new_token, any later empty token is push_chunk's end-of-stream marker (modelled, "
        "compared with the implementation, excluded from the theorem and the oracle)",
        "characters are code points (N); Python str operations startswith/endswith/find/slicing modelled on lists",
        "exhaustive model-vs-implementation comparison goes through a 61-bit polynomial hash of all observations of "
        "a text (collision probability ~2^-61 per text); differing texts are re-compared chunking by chunking",
    ]
    if tier == "thorough" and b["ok"]:
        ok, log = C.coqchk(PID, b["files"])
        out.coverage["coqchk"] = "ok" if ok else "FAILED"
        if not ok:
            out.add_broken("coqchk", log)
    return C.finish(out)
