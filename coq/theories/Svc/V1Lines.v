(* C13 (layout, Colang 1.0) - the line pre-processing of the hand-written parser.

   Model of nemoguardrails/colang/v1_0/lang/utils.py :: get_numbered_lines restricted to
   its simple core: every raw line is stripped; empty lines and lines starting with '#'
   are dropped; a kept line records its stripped text, its 1-based number and its
   indentation = the number of leading ' ' characters (a tab ends the count).
   NOT modelled (the differential only uses files without them): multi-line strings,
   triple-quoted comments, continuation with a trailing backslash / " or", and the removal of an
   end-of-line comment from the text (word_split is quote-aware).
   Everything after this function - the 1 900-line parser, which compares these
   indentation numbers and in places adds constants to them - is explored, not modelled. *)
From Coq Require Import NArith List Bool.
Import ListNotations.
Open Scope N_scope.

Inductive ch := CSp | CTab | CHash | CChr (c : N).

Definition is_wsc (c : ch) : bool := match c with CSp | CTab => true | _ => false end.

Fixpoint lstrip (l : list ch) : list ch :=
  match l with
  | [] => []
  | c :: r => if is_wsc c then lstrip r else l
  end.

Fixpoint rstrip (l : list ch) : list ch :=
  match l with
  | [] => []
  | c :: r => match rstrip r with
              | [] => if is_wsc c then [] else [c]
              | r' => c :: r'
              end
  end.

Definition strip (l : list ch) : list ch := rstrip (lstrip l).

(* `ind = 0; while raw_lines[i][ind] == " ": ind += 1` *)
Fixpoint lead_sp (l : list ch) : N :=
  match l with CSp :: r => 1 + lead_sp r | _ => 0 end.

Record nline := { n_text : list ch; n_number : N; n_ind : N }.

Fixpoint pre_go (i : N) (ls : list (list ch)) : list nline :=
  match ls with
  | [] => []
  | l :: r =>
      match strip l with
      | [] => pre_go (i + 1) r
      | CHash :: _ => pre_go (i + 1) r
      | s => {| n_text := s; n_number := i + 1; n_ind := lead_sp l |} :: pre_go (i + 1) r
      end
  end.

Definition pre (ls : list (list ch)) : list nline := pre_go 0 ls.

(* a line modulo its source position *)
Definition unnumbered (n : nline) : list ch * N := (n_text n, n_ind n).

Fixpoint scale_line (k : nat) (l : list ch) : list ch :=
  match l with CSp :: r => repeat CSp k ++ scale_line k r | _ => l end.

Definition scale_ind (k : nat) (n : nline) : nline :=
  {| n_text := n_text n; n_number := n_number n; n_ind := N.of_nat k * n_ind n |}.

(* sanity: "define flow a", "", "  # c", "  user hi  ", "\tbot x" *)
Example pre_ex :
  pre [[CChr 1; CSp; CChr 2]; []; [CSp; CSp; CHash; CChr 3]; [CSp; CSp; CChr 4; CSp; CChr 5; CSp; CSp]; [CTab; CChr 6]]
  = [ {| n_text := [CChr 1; CSp; CChr 2]; n_number := 1; n_ind := 0 |};
      {| n_text := [CChr 4; CSp; CChr 5]; n_number := 4; n_ind := 2 |};
      {| n_text := [CChr 6]; n_number := 5; n_ind := 0 |} ].
Proof. reflexivity. Qed.

(* ------------------------------------------------------------------------------------ *)
(* The continuation join of get_numbered_lines:

       text = raw_line
       while i < len(raw_lines) - 1 and text[-1] == "\\" or text.endswith(" or"):
           i += 1
           if text[-1] == "\\": text = text[0:-1]
           if text[-1] != " ":  text = text + " "
           text = text + raw_lines[i].strip()
       lines.append({"text": text, "number": i + 1, "indentation": ind, ...})

   (`and` binds tighter than `or`).  The physical lines that are appended are NOT filtered
   (a blank or comment line after a backslash is appended like any other).  Python's
   IndexError - `raw_lines[i]` past the last line when the text ends in " or", `text[-1]`
   on a text that was only a backslash - is the result None.
   `go` walks the physical lines once; `pend` is the statement being continued. *)

Fixpoint last_ch (l : list ch) : option ch :=
  match l with
  | [] => None
  | [c] => Some c
  | _ :: r => last_ch r
  end.

Definition ends_bsl (t : list ch) : bool :=
  match last_ch t with Some (CChr c) => c =? 92 | _ => false end.            (* "\\" *)

Definition ends_sp (t : list ch) : bool :=
  match last_ch t with Some CSp => true | _ => false end.

Definition ends_or (t : list ch) : bool :=                                     (* " or" *)
  match rev t with
  | CChr r :: CChr o :: CSp :: _ => (r =? 114) && (o =? 111)
  | _ => false
  end.

Definition join_next (text l : list ch) : option (list ch) :=
  let t1 := if ends_bsl text then removelast text else text in
  match t1 with
  | [] => None
  | _ => Some ((if ends_sp t1 then t1 else t1 ++ [CSp]) ++ strip l)
  end.

Fixpoint go (i : N) (pend : option (list ch * N)) (ls : list (list ch)) : option (list nline) :=
  match ls with
  | [] => match pend with None => Some [] | Some _ => None end
  | l :: r =>
      let has_next := match r with [] => false | _ => true end in
      let finish := fun (text : list ch) (ind : N) =>
        if (ends_bsl text && has_next) || ends_or text
        then go (i + 1) (Some (text, ind)) r
        else option_map (cons {| n_text := text; n_number := i + 1; n_ind := ind |}) (go (i + 1) None r) in
      match pend with
      | Some (text, ind) =>
          match join_next text l with
          | None => None
          | Some t => finish t ind
          end
      | None =>
          match strip l with
          | [] => go (i + 1) None r
          | CHash :: _ => go (i + 1) None r
          | s => finish s (lead_sp l)
          end
      end
  end.

Definition pre_c (ls : list (list ch)) : option (list nline) := go 0 None ls.

(* sanity: "if $a and \", "   $b and \  ", "   $c", "  user x or", "  user y" *)
Example pre_c_ex :
  pre_c [[CChr 1; CSp; CChr 92]; [CSp; CSp; CChr 2; CSp; CChr 92; CSp; CSp]; [CSp; CChr 3];
         [CSp; CSp; CChr 4; CSp; CChr 111; CChr 114]; [CSp; CSp; CChr 5]]
  = Some [ {| n_text := [CChr 1; CSp; CChr 2; CSp; CChr 3]; n_number := 3; n_ind := 0 |};
           {| n_text := [CChr 4; CSp; CChr 111; CChr 114; CSp; CChr 5]; n_number := 5; n_ind := 2 |} ].
Proof. vm_compute. reflexivity. Qed.

(* " or" on the last line: raw_lines[i] raises IndexError *)
Example pre_c_trailing_or : pre_c [[CChr 4; CSp; CChr 111; CChr 114]] = None.
Proof. reflexivity. Qed.

(* ------------------------------------------------------------------------------------ *)
(* The pending line comment of get_numbered_lines (continuation-free core):

       if raw_line.startswith("#"):
           current_comment = raw_line[1:].strip()  if current_comment is None
                             else current_comment + "\n" + raw_line[1:].strip()
       if len(raw_line) == 0 or raw_line[0] == "#":  skip the line    (current_comment is KEPT)
       ...
       lines.append({..., "comment": current_comment});  current_comment = None

   The comment travels in `_source_mapping` and becomes the `instructions` of the
   generate_value action built for `$var = ...`, so it is part of what a file parses to.
   A comment is the list of its lines (joined with "\n" by the code). *)

Definition comment := option (list (list ch)).

Definition add_comment (cm : comment) (t : list ch) : comment :=
  match cm with None => Some [strip t] | Some c => Some (c ++ [strip t]) end.

Fixpoint pre_cm_go (i : N) (cm : comment) (ls : list (list ch)) : list (nline * comment) :=
  match ls with
  | [] => []
  | l :: r =>
      match strip l with
      | [] => pre_cm_go (i + 1) cm r
      | CHash :: t => pre_cm_go (i + 1) (add_comment cm t) r
      | s => ({| n_text := s; n_number := i + 1; n_ind := lead_sp l |}, cm) :: pre_cm_go (i + 1) None r
      end
  end.

Definition pre_cm (ls : list (list ch)) : list (nline * comment) := pre_cm_go 0 None ls.

Definition unnumbered_cm (x : nline * comment) : list ch * N * comment := (n_text (fst x), n_ind (fst x), snd x).

(* "  # Extract the question.", "", "  # second line", "  $q = ..." *)
Example pre_cm_ex :
  map unnumbered_cm (pre_cm [[CSp; CSp; CHash; CSp; CChr 1; CSp]; []; [CSp; CHash; CChr 2]; [CSp; CSp; CChr 3]])
  = [([CChr 3], 2, Some [[CChr 1]; [CChr 2]])].
Proof. reflexivity. Qed.
