(* C13 (layout, Colang 2.x) - the layout layer in front of the LALR parser.

   Two stages, both modelled on the code that runs:

   1. lexing of layout.  colang.lark declares
          _NEWLINE: (/\r?\n[\t ]*/)+        COMMENT: /#[^\n]*/
          %ignore " "                       %ignore COMMENT
      (fingerprinted fail-closed by translator/gen_c13.py into Gen/C13Consts.v).  A source
      text is abstracted to a list of SEGMENTS: a newline character, a space, a tab, a whole
      comment `#...` up to the end of its line, an opening / closing bracket token, or any
      other content token (opaque: names, strings incl. multi-line strings, numbers,
      operators, and the `and`/`or` tokens that swallow a line break themselves).
      `lex_go` turns segments into the token stream the post-lexer receives: a maximal run
      newline (space|tab)* newline ... becomes ONE _NEWLINE token that carries the numbers of
      spaces and tabs after its LAST newline; spaces elsewhere are dropped; comments are
      dropped; a tab elsewhere is a lexing error unless tabs are ignored too.
      (`\r` is not modelled: the property does not speak about it.)

   2. lark.indenter.Indenter._process / handle_NL with PythonIndenter's settings (NL_type
      _NEWLINE, brackets LPAR/LSQB/LBRACE, tab_len 8): `process`.  The stack holds the
      indentation levels above the base level 0 (top first).  The output keeps exactly
      what the parser consumes: _NEWLINE / _INDENT / _DEDENT / bracket / content tokens, and
      the exception the generator raises, if any, after the tokens it has already yielded.

   ColangParser.get_parsing_tree parses `content + "\n"`: `lex_file`. *)
From Coq Require Import NArith List Bool.
Import ListNotations.
Open Scope N_scope.

Inductive seg := SNl | SSp | STab | SComment | SOpen | SClose | STok (id : N).

Inductive tok := TNL (sp tb : N) | TOpen | TClose | TOther (id : N).

Definition lstate := option (N * N).   (* Some (sp, tb): inside a _NEWLINE token, counts after its last newline *)

Definition flush (st : lstate) (r : list tok) : list tok :=
  match st with Some (sp, tb) => TNL sp tb :: r | None => r end.

(* ig = tabs between tokens are ignored (`%ignore` also covers \t); pinned grammar: false *)
Fixpoint lex_go (ig : bool) (st : lstate) (ss : list seg) : option (list tok) :=
  match ss with
  | [] => Some (flush st [])
  | SNl :: r => lex_go ig (Some (0, 0)) r
  | SSp :: r =>
      match st with
      | Some (sp, tb) => lex_go ig (Some (sp + 1, tb)) r
      | None => lex_go ig None r
      end
  | STab :: r =>
      match st with
      | Some (sp, tb) => lex_go ig (Some (sp, tb + 1)) r
      | None => if ig then lex_go ig None r else None      (* UnexpectedCharacters *)
      end
  | SComment :: r => option_map (flush st) (lex_go ig None r)
  | SOpen :: r => option_map (fun x => flush st (TOpen :: x)) (lex_go ig None r)
  | SClose :: r => option_map (fun x => flush st (TClose :: x)) (lex_go ig None r)
  | STok i :: r => option_map (fun x => flush st (TOther i :: x)) (lex_go ig None r)
  end.

Definition lex_file (ig : bool) (ss : list seg) : option (list tok) := lex_go ig None (ss ++ [SNl]).

(* ------------------------------------------------------------------------------------ *)
(* the indenter *)

Inductive otok := ONL | OIndent | ODedent | OOpen | OClose | OOther (id : N).
Inductive ierr := DedentError | ParenAssertion.

Definition ostream := (list otok * option ierr)%type.

Definition pre (l : list otok) (r : ostream) : ostream := (l ++ fst r, snd r).

Definition top (st : list N) : N := hd 0 st.

(* `while indent < self.indent_level[-1]: pop; yield DEDENT` *)
Fixpoint pop_to (ind : N) (st : list N) : list N * nat :=
  match st with
  | [] => ([], O)
  | x :: r => if ind <? x then let (s, n) := pop_to ind r in (s, S n) else (st, O)
  end.

Fixpoint process (tab_len : N) (ts : list tok) (paren : N) (st : list N) : ostream :=
  match ts with
  | [] => (repeat ODedent (List.length st), None)
  | TNL sp tb :: r =>
      if 0 <? paren then process tab_len r paren st
      else
        let ind := sp + tb * tab_len in
        if top st <? ind then pre [ONL; OIndent] (process tab_len r paren (ind :: st))
        else
          let (st', n) := pop_to ind st in
          if ind =? top st' then pre (ONL :: repeat ODedent n) (process tab_len r paren st')
          else (ONL :: repeat ODedent n, Some DedentError)
  | TOpen :: r => pre [OOpen] (process tab_len r (paren + 1) st)
  | TClose :: r =>
      if paren =? 0 then ([OClose], Some ParenAssertion)
      else pre [OClose] (process tab_len r (paren - 1) st)
  | TOther i :: r => pre [OOther i] (process tab_len r paren st)
  end.

Inductive lres := LexError | Lexed (o : ostream).

(* what the parser is fed for a file *)
Definition layout (ig : bool) (tab_len : N) (ss : list seg) : lres :=
  match lex_file ig ss with
  | None => LexError
  | Some ts => Lexed (process tab_len ts 0 [])
  end.

(* ------------------------------------------------------------------------------------ *)
(* the layout edits of the property *)

Definition is_ws (s : seg) : bool := match s with SSp | STab => true | _ => false end.
Definition is_sp (s : seg) : bool := match s with SSp => true | _ => false end.
Definition is_content (s : seg) : bool :=
  match s with STok _ | SOpen | SClose | SComment => true | _ => false end.

(* a blank line (possibly holding spaces/tabs) added after an existing line break *)
Inductive blank_edit : list seg -> list seg -> Prop :=
| BlankEdit : forall a ws b, forallb is_ws ws = true ->
    blank_edit (a ++ SNl :: b) (a ++ SNl :: ws ++ SNl :: b).

(* spaces added at the end of a line (before its line break, or at the end of the file) *)
Inductive trail_edit : list seg -> list seg -> Prop :=
| TrailEdit : forall a sps b, forallb is_sp sps = true ->
    trail_edit (a ++ SNl :: b) (a ++ sps ++ SNl :: b)
| TrailEof : forall a sps, forallb is_sp sps = true -> trail_edit a (a ++ sps).

(* the same with tabs allowed *)
Inductive trail_ws_edit : list seg -> list seg -> Prop :=
| TrailWsEdit : forall a ws b, forallb is_ws ws = true ->
    trail_ws_edit (a ++ SNl :: b) (a ++ ws ++ SNl :: b)
| TrailWsEof : forall a ws, forallb is_ws ws = true -> trail_ws_edit a (a ++ ws).

(* an end-of-line comment added to a line that has content (t is its last token) *)
Inductive comment_edit : list seg -> list seg -> Prop :=
| CommentEdit : forall a t sps sps' b, is_content t = true -> forallb is_sp sps = true -> forallb is_sp sps' = true ->
    comment_edit (a ++ t :: sps ++ SNl :: b) (a ++ t :: sps ++ sps' ++ SComment :: SNl :: b)
| CommentEof : forall a t sps sps', is_content t = true -> forallb is_sp sps = true -> forallb is_sp sps' = true ->
    comment_edit (a ++ t :: sps) (a ++ t :: sps ++ sps' ++ [SComment]).

(* uniform scaling of the indentation by k: every space / tab between a line break (or the
   start of the file) and the first other character of the line is written k times *)
Fixpoint scale_go (k : nat) (bol : bool) (ss : list seg) : list seg :=
  match ss with
  | [] => []
  | SNl :: r => SNl :: scale_go k true r
  | SSp :: r => (if bol then repeat SSp k else [SSp]) ++ scale_go k bol r
  | STab :: r => (if bol then repeat STab k else [STab]) ++ scale_go k bol r
  | x :: r => x :: scale_go k false r
  end.

Definition scale (k : nat) (ss : list seg) : list seg := scale_go k true ss.

(* ------------------------------------------------------------------------------------ *)
(* sanity: "flow a\n  match (X\n    )\n  # c\n\nflow b\n    send Y" *)
Definition ex1 : list seg :=
  [STok 1; SSp; STok 2; SNl; SSp; SSp; STok 3; SSp; SOpen; STok 4; SNl; SSp; SSp; SSp; SSp; SClose; SNl;
   SSp; SSp; SComment; SNl; SNl; STok 1; SSp; STok 5; SNl; SSp; SSp; SSp; SSp; STok 6; SSp; STok 7].

Example ex1_layout :
  layout false 8 ex1 =
  Lexed ([OOther 1; OOther 2; ONL; OIndent; OOther 3; OOpen; OOther 4; OClose; ONL; ONL; ODedent;
          OOther 1; OOther 5; ONL; OIndent; OOther 6; OOther 7; ONL; ODedent], None).
Proof. vm_compute. reflexivity. Qed.

(* dedent to a level that was never opened *)
Example ex_dedent_error :
  layout false 8 [STok 1; SNl; SSp; SSp; SSp; SSp; STok 2; SNl; SSp; SSp; STok 3]
  = Lexed ([OOther 1; ONL; OIndent; OOther 2; ONL; ODedent], Some DedentError).
Proof. vm_compute. reflexivity. Qed.

(* a tab after a token is a lexing error in the pinned grammar *)
Example ex_trailing_tab : layout false 8 [STok 1; STab; SNl] = LexError /\ layout true 8 [STok 1; STab; SNl] = layout true 8 [STok 1; SNl].
Proof. split; vm_compute; reflexivity. Qed.
