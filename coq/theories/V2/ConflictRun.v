(* Executable instance of the conflict-resolution model for the correspondence check:
   event arguments are association lists over Val.value, `args_eqb` is Python's == on such
   dicts for the value fragment the case generator uses (None, bool, int, float q/4, str,
   lists of those; bool/int/float compare numerically: True == 1 == 1.0).
   Nothing here is used by the theorems, which hold for an arbitrary args_eqb. *)
From Coq Require Import ZArith List String Bool QArith.
From NG Require Import Val.Value V2.Conflict.
Import ListNotations.
Open Scope list_scope.

(* numeric reading times 4 (floats are q/4) *)
Definition num4 (v : value) : option Z :=
  match v with
  | VBool b => Some (4 * Z_of_bool b)%Z
  | VInt z => Some (4 * z)%Z
  | VFloat q => Some q
  | _ => None
  end.

(* Python == *)
Fixpoint py_eqb (a b : value) {struct a} : bool :=
  match num4 a, num4 b with
  | Some x, Some y => Z.eqb x y
  | Some _, None | None, Some _ => false
  | None, None =>
      match a, b with
      | VNone, VNone => true
      | VStr s, VStr t => String.eqb s t
      | VList l, VList m =>
          (fix go (l : list value) (m : list value) {struct l} : bool :=
             match l, m with
             | [], [] => true
             | x :: l', y :: m' => py_eqb x y && go l' m'
             | _, _ => false
             end) l m
      | _, _ => false      (* nested dicts / sets / regexes are outside the generated fragment *)
      end
  end.

(* strict structural equality (type-sensitive), used only to compare the emitted event with
   the implementation's *)
Fixpoint same_value (a b : value) {struct a} : bool :=
  match a, b with
  | VNone, VNone => true
  | VBool x, VBool y => Bool.eqb x y
  | VInt x, VInt y => Z.eqb x y
  | VFloat x, VFloat y => Z.eqb x y
  | VStr s, VStr t => String.eqb s t
  | VList l, VList m =>
      (fix go (l : list value) (m : list value) {struct l} : bool :=
         match l, m with
         | [], [] => true
         | x :: l', y :: m' => same_value x y && go l' m'
         | _, _ => false
         end) l m
  | _, _ => false
  end.

Definition dict := list (string * value).

(* Python == on dicts with string keys: same size, every item of a present in b with an == value *)
Definition dict_eqb (a b : dict) : bool :=
  Nat.eqb (List.length a) (List.length b)
  && forallb (fun kv => match lookup (fst kv) b with
                        | Some v' => py_eqb (snd kv) v'
                        | None => false
                        end) a.

(* same keys, type-sensitive equal values, any order *)
Definition same_dict (a b : dict) : bool :=
  Nat.eqb (List.length a) (List.length b)
  && forallb (fun kv => match lookup (fst kv) b with
                        | Some v' => same_value (snd kv) v'
                        | None => false
                        end) a.

Definition cand_c := cand dict.
Definition event_c := event dict.

Definition resolve_c (pick : nat -> nat -> nat) (cands : list cand_c) : list (decision dict) :=
  resolve dict dict_eqb pick cands.

(* --- comparison of results *)
Fixpoint list_eqb {A} (eqb : A -> A -> bool) (a b : list A) : bool :=
  match a, b with
  | [], [] => true
  | x :: a', y :: b' => eqb x y && list_eqb eqb a' b'
  | _, _ => false
  end.

Definition same_event (a b : event_c) : bool :=
  String.eqb (ev_name a) (ev_name b) && same_dict (ev_args a) (ev_args b).

Definition result_eqb (a b : result dict) : bool :=
  list_eqb String.eqb (r_advancing _ a) (r_advancing _ b)
  && list_eqb same_event (r_emitted _ a) (r_emitted _ b)
  && list_eqb (fun x y => String.eqb (fst x) (fst y) && scores_eqb (snd x) (snd y))
              (r_aborted _ a) (r_aborted _ b)
  && list_eqb (fun x y => String.eqb (fst x) (fst y) && String.eqb (snd x) (snd y))
              (r_jumped _ a) (r_jumped _ b)
  && list_eqb (fun x y => String.eqb (fst (fst x)) (fst (fst y)) && String.eqb (snd (fst x)) (snd (fst y))
                          && String.eqb (snd x) (snd y))
              (r_merged _ a) (r_merged _ b).

(* random.choice call number k returns index picks[k] *)
Definition pick_of (picks : list nat) : nat -> nat -> nat := fun k _ => nth k picks 0.

Definition run_case (picks : list nat) (cands : list cand_c) : result dict :=
  result_of (resolve_c (pick_of picks) cands).

(* sizes of the tie sets, in the order of the random.choice calls *)
Definition tie_sizes (cands : list cand_c) : list nat :=
  match cands with
  | [] | [_] => []
  | _ => map (fun g => List.length (tie_set (snd g))) (group_by_loop cands)
  end.

(* a case: the indices returned by the successive random.choice calls, the lengths of the
   sequences random.choice was called with, the candidates in the order of actionable_heads,
   what the implementation did *)
Definition check_case (c : list nat * list nat * list cand_c * result dict) : bool :=
  let '(picks, lens, cands, expected) := c in
  result_eqb (run_case picks cands) expected && list_eqb Nat.eqb (tie_sizes cands) lens.

Definition mkc (h f l : string) (sc : list Q) (n : string) (a : dict) (au : option string) (ct : list string)
  : cand_c :=
  {| c_head := h; c_flow := f; c_loop := l; c_scores := sc;
     c_event := {| ev_name := n; ev_args := a |}; c_action := au; c_catch := ct |}.

(* sanity: {"x": 1, "y": "a"} == {"y": "a", "x": True} in Python *)
Example dict_eqb_python :
  dict_eqb [("x"%string, VInt 1); ("y"%string, VStr "a")] [("y"%string, VStr "a"); ("x"%string, VBool true)] = true
  /\ dict_eqb [("x"%string, VInt 1)] [("x"%string, VStr "1")] = false
  /\ dict_eqb [("x"%string, VFloat 4)] [("x"%string, VInt 1)] = true.
Proof. vm_compute. auto. Qed.
