(* C19 - executable instance of Svc/EmbCache.v and Svc/Batch.v used by the correspondence
   check, including the trace replayer.  Texts, keys and vectors are atoms (nat): the harness
   numbers the distinct texts of a case in order of first occurrence, tabulates the REAL key
   generator over them (`keys`: text j has key number nth j keys) and decodes every vector the
   implementation returns back to the number of the text it is the fake model's embedding of
   (so emb is the identity here).  Nothing in this file is used by the theorems. *)
From Coq Require Import List Bool Arith.
From NG Require Import Svc.EmbCache Svc.Batch.
Import ListNotations.

Definition kg_tab (keys : list nat) (t : nat) : nat := nth t keys 0.
Definition emb_c (t : nat) : nat := t.

Definition opt_eqb {A} (eqb : A -> A -> bool) (a b : option A) : bool :=
  match a, b with
  | Some x, Some y => eqb x y
  | None, None => true
  | _, _ => false
  end.

Fixpoint list_eqb {A} (eqb : A -> A -> bool) (a b : list A) : bool :=
  match a, b with
  | [], [] => true
  | x :: a', y :: b' => eqb x y && list_eqb eqb a' b'
  | _, _ => false
  end.

Definition pair_eqb {A B} (ea : A -> A -> bool) (eb : B -> B -> bool) (a b : A * B) : bool :=
  ea (fst a) (fst b) && eb (snd a) (snd b).

Definition res_eqb := list_eqb (opt_eqb Nat.eqb).
Definition calls_eqb := list_eqb (list_eqb Nat.eqb).

(* ---------------------------------------------------------------------------------------
   cache differential.  One case = one index object / one store:
     (keys, enabled, persistent, calls, final)
   calls : (texts, results observed, argument lists the model was called with) per call;
   final : for a persistent store, key -> value found in the real store afterwards. *)
Definition cache_call := (list nat * list (option nat) * list (list nat))%type.
Definition cache_case := (list nat * bool * bool * list cache_call * list (nat * option nat))%type.

Definition wrapper_c (keys : list nat) (enabled : bool) :=
  wrapper Nat.eq_dec Nat.eq_dec (kg_tab keys) enabled (map emb_c).

Fixpoint run_calls (keys : list nat) (enabled persistent : bool) (s : store nat nat)
         (calls : list cache_call) : option (store nat nat) :=
  match calls with
  | [] => Some s
  | (texts, obs_res, obs_calls) :: rest =>
      let r := wrapper_c keys enabled (if persistent then s else []) texts in
      if res_eqb (w_results r) obs_res && calls_eqb (w_calls r) obs_calls
      then run_calls keys enabled persistent (w_store r) rest
      else None
  end.

Definition check_cache (c : cache_case) : bool :=
  let '(keys, enabled, persistent, calls, final) := c in
  match run_calls keys enabled persistent [] calls with
  | None => false
  | Some s =>
      if persistent && enabled
      then forallb (fun kv => opt_eqb Nat.eqb (store_get Nat.eq_dec s (fst kv)) (snd kv)) final
      else true
  end.

(* what the model answers, for the replay file of a disagreement *)
Definition model_cache (c : cache_case) :=
  let '(keys, enabled, persistent, calls, _) := c in
  (fix go s calls :=
     match calls with
     | [] => []
     | (texts, _, _) :: rest =>
         let r := wrapper_c keys enabled (if persistent then s else []) texts in
         (w_results r, w_calls r) :: go (w_store r) rest
     end) ([] : store nat nat) calls.

(* ---------------------------------------------------------------------------------------
   several indexes alive in one process, each with its own model (vector = (model, text)),
   key table and cache configuration.  An index is (keys, model, store, enabled) where store is
   Some d for the persistent store number d (the harness numbers the distinct
   (store type, cache_dir) pairs) and None for in_memory (fresh per call).
   calls: (index number, texts, results observed, model-call argument lists observed);
   final: (store number, key, value found in the real store afterwards). *)
Definition vec2 := (nat * nat)%type.
Definition v2_eqb : vec2 -> vec2 -> bool := pair_eqb Nat.eqb Nat.eqb.
Definition mindex := (list nat * nat * option nat * bool)%type.
Definition mobs := (nat * list nat * list (option vec2) * list (list nat))%type.
Definition multi_case := (list mindex * list mobs * list (nat * nat * option vec2))%type.
Definition mstores := list (nat * store nat vec2).

Definition sto_get (St : mstores) (d : nat) : store nat vec2 :=
  match find (fun p => fst p =? d) St with Some p => snd p | None => [] end.

Definition multi_step (ixs : list mindex) (St : mstores) (i : nat) (texts : list nat)
  : option (list (option vec2) * list (list nat) * mstores) :=
  match nth_error ixs i with
  | None => None
  | Some (keys, m, sid, en) =>
      let s := match sid with Some d => sto_get St d | None => [] end in
      let r := wrapper Nat.eq_dec Nat.eq_dec (kg_tab keys) en (map (fun t => (m, t))) s texts in
      Some (w_results r, w_calls r,
            match sid with Some d => if en then (d, w_store r) :: St else St | None => St end)
  end.

Fixpoint run_multi (ixs : list mindex) (St : mstores) (calls : list mobs) : option mstores :=
  match calls with
  | [] => Some St
  | (i, texts, ores, ocalls) :: rest =>
      match multi_step ixs St i texts with
      | None => None
      | Some (res, mc, St') =>
          if list_eqb (opt_eqb v2_eqb) res ores && calls_eqb mc ocalls then run_multi ixs St' rest else None
      end
  end.

Definition check_multi (c : multi_case) : bool :=
  let '(ixs, calls, final) := c in
  match run_multi ixs [] calls with
  | None => false
  | Some St => forallb (fun f => let '(d, k, v) := f in
                                opt_eqb v2_eqb (store_get Nat.eq_dec (sto_get St d) k) v) final
  end.

Definition model_multi (c : multi_case) :=
  let '(ixs, calls, _) := c in
  (fix go St calls :=
     match calls with
     | [] => []
     | (i, texts, _, _) :: rest =>
         match multi_step ixs St i texts with
         | None => []
         | Some (res, mc, St') => (res, mc) :: go St' rest
         end
     end) ([] : mstores) calls.

(* two indexes, two models, one text: separate stores keep the models apart, one store does not *)
Example multi_separate_and_shared :
  check_multi ([([0], 1, Some 0, true); ([0], 2, Some 1, true)],
               [(0, [0], [Some (1, 0)], [[0]]); (1, [0], [Some (2, 0)], [[0]])], []) = true /\
  check_multi ([([0], 1, Some 0, true); ([0], 2, Some 0, true)],
               [(0, [0], [Some (1, 0)], [[0]]); (1, [0], [Some (1, 0)], [])], []) = true.
Proof. vm_compute. split; reflexivity. Qed.

(* ---------------------------------------------------------------------------------------
   trace inclusion for batching.
   snapshot of the index object taken at the START of every logged atomic step:
     (list(_req_queue.items()), list(_req_results.items()) decoded, _req_idx,
      _current_batch_finished_event is None, _current_batch_submitted.is_set())
   observation of a step: (argument list of the model call made in it, value returned by the
   request in it). *)
Definition snapshot := (list (nat * nat) * list (nat * option nat) * nat * bool * bool)%type.
Definition obs := (option (list nat) * option (option nat))%type.
Definition state_c := state nat nat nat.

Definition snap_of (s : state_c) : snapshot :=
  (req_queue s, req_results s, req_idx s,
   match cur_finished s with None => true | Some _ => false end, submitted s).

Definition snap_eqb (a b : snapshot) : bool :=
  let '(q1, r1, i1, f1, s1) := a in
  let '(q2, r2, i2, f2, s2) := b in
  list_eqb (pair_eqb Nat.eqb Nat.eqb) q1 q2 &&
  list_eqb (pair_eqb Nat.eqb (opt_eqb Nat.eqb)) r1 r2 &&
  Nat.eqb i1 i2 && Bool.eqb f1 f2 && Bool.eqb s1 s2.

Definition obs_of (l : label) (s s' : state_c) : obs :=
  match l with
  | LReq i =>
      (None, match nth_error (reqs s') i with Some (_, RDone r) => Some r | _ => None end)
  | LBatch k =>
      (match nth_error (batches s) k, nth_error (batches s') k with
       | Some (BHold _ _), Some (BModel _ _ _ u) => Some u
       | _, _ => None
       end, None)
  | _ => (None, None)
  end.

Definition obs_eqb (a b : obs) : bool :=
  opt_eqb (list_eqb Nat.eqb) (fst a) (fst b) && opt_eqb (opt_eqb Nat.eqb) (snd a) (snd b).

Definition step_c (maxb : nat) (mode : cache_mode) (keys : list nat) :=
  step Nat.eq_dec Nat.eq_dec (kg_tab keys) emb_c maxb mode.

(* number of logged steps replayed successfully, and the state reached *)
Fixpoint replay (maxb : nat) (mode : cache_mode) (keys : list nat)
         (steps : list (label * snapshot * obs)) (s : state_c) (n : nat) : nat * option state_c :=
  match steps with
  | [] => (n, Some s)
  | (l, snap, ob) :: rest =>
      if snap_eqb (snap_of s) snap then
        match step_c maxb mode keys l s with
        | None => (n, None)                         (* logged step not enabled in the model *)
        | Some s' => if obs_eqb (obs_of l s s') ob then replay maxb mode keys rest s' (S n)
                     else (n, None)
        end
      else (n, None)
  end.

Definition result_of (r : nat * rpc nat) : option (option nat) :=
  match r with (_, RDone v) => Some v | _ => None end.

(* (max_batch_size, cache mode, keys, initial store, request texts, logged steps,
    final snapshot, what each request returned, final store lookups) *)
Definition trace_case :=
  (nat * cache_mode * list nat * list (nat * nat) * list nat * list (label * snapshot * obs)
   * snapshot * list (option (option nat)) * list (nat * option nat))%type.

Definition check_trace (c : trace_case) : bool :=
  let '(maxb, mode, keys, st0, texts, steps, final, rets, fstore) := c in
  match replay maxb mode keys steps (init texts st0) 0 with
  | (_, None) => false
  | (_, Some s) =>
      snap_eqb (snap_of s) final &&
      list_eqb (opt_eqb (opt_eqb Nat.eqb)) (map result_of (reqs s)) rets &&
      forallb (fun kv => opt_eqb Nat.eqb (store_get Nat.eq_dec (cstore s) (fst kv)) (snd kv)) fstore
  end.

(* diagnostics for the replay file: how many logged steps the model accepted, and the
   model's snapshot / label enabledness at the point of failure *)
Definition trace_diag (c : trace_case) :=
  let '(maxb, mode, keys, st0, texts, steps, final, rets, fstore) := c in
  let '(n, so) := replay maxb mode keys steps (init texts st0) 0 in
  (n, match so with
      | Some s => Some (snap_of s, map result_of (reqs s))
      | None => None
      end).

(* the model's state after a prefix of labels (no checks), for diagnostics *)
Definition model_after (maxb : nat) (mode : cache_mode) (keys : list nat) (st0 : list (nat * nat))
           (texts : list nat) (ls : list label) :=
  match exec Nat.eq_dec Nat.eq_dec (kg_tab keys) emb_c maxb mode ls (init texts st0) with
  | Some s => Some (snap_of s, map result_of (reqs s))
  | None => None
  end.

(* ---- sanity: three requests, max_batch_size 2, no cache ------------------------------ *)
Example three_requests :
  model_after 2 CacheOff [] [] [7; 8; 7]
    [LReq 0; LReq 1; LReq 2;          (* 0 and 1 fill batch 0; 2 finds the queue full *)
     LBatch 0; LBatch 0;              (* batch 0 starts holding, is full, is submitted: wakes 2 *)
     LReq 2;                          (* request 2 opens batch 1 *)
     LBatch 1; LTimer 1; LBatch 1;    (* batch 1 goes out on the timer *)
     LModel 1; LReq 2;                (* the model answers batch 1 FIRST *)
     LModel 0; LReq 1; LReq 0]
  = Some (([], [], 3, true, true), [Some (Some 7); Some (Some 8); Some (Some 7)]).
Proof. vm_compute. reflexivity. Qed.
