(* Executable instance of the matcher model used by the correspondence check:
   concrete str() for scalars and a concrete reading of the small regex dialect the case
   generator uses ("lit", "^lit", "lit$", "^lit$", "." with lit over [A-Za-z0-9_]).
   Nothing here is used by the theorems, which hold for arbitrary re_search / str_of. *)
From Coq Require Import ZArith List String Ascii Bool DecimalString.
From NG Require Import Gen.MatchConsts Val.Value Val.Match.
Import ListNotations.
Open Scope string_scope.
Open Scope Z_scope.

Fixpoint prefixb (p s : string) : bool :=
  match p with
  | EmptyString => true
  | String c p' => match s with
                   | EmptyString => false
                   | String d s' => Ascii.eqb c d && prefixb p' s'
                   end
  end.

Fixpoint substrb (p s : string) : bool :=
  prefixb p s || match s with EmptyString => false | String _ s' => substrb p s' end.

Fixpoint suffixb (p s : string) : bool :=
  String.eqb p s || match s with EmptyString => false | String _ s' => suffixb p s' end.

Fixpoint drop_last (s : string) : string :=
  match s with
  | EmptyString => EmptyString
  | String c EmptyString => EmptyString
  | String c s' => String c (drop_last s')
  end.

Fixpoint last_is_dollar (s : string) : bool :=
  match s with
  | EmptyString => false
  | String c EmptyString => Ascii.eqb c "$"%char
  | String _ s' => last_is_dollar s'
  end.

Definition re_search_c (pat s : string) : bool :=
  if String.eqb pat "." then negb (String.eqb s "") else
  let '(a_start, body) :=
    match pat with
    | String c rest => if Ascii.eqb c "^"%char then (true, rest) else (false, pat)
    | EmptyString => (false, pat)
    end in
  let '(a_end, lit) := if last_is_dollar body then (true, drop_last body) else (false, body) in
  match a_start, a_end with
  | true, true => String.eqb lit s
  | true, false => prefixb lit s
  | false, true => suffixb lit s
  | false, false => substrb lit s
  end.

Definition str_of_Z (z : Z) : string := NilZero.string_of_int (Z.to_int z).

(* repr() of the float q/4, |q| small *)
Definition str_of_quarter (q : Z) : string :=
  let a := Z.abs q in
  let ip := a / 4 in
  let m := a mod 4 in
  let fp := if m =? 0 then ".0" else if m =? 1 then ".25" else if m =? 2 then ".5" else ".75" in
  let sign := if Z.ltb q 0 then "-" else "" in
  String.append sign (String.append (str_of_Z ip) fp).

Definition str_of_c (v : value) : string :=
  match v with
  | VStr s => s
  | VInt z => str_of_Z z
  | VBool true => "True"
  | VBool false => "False"
  | VFloat q => str_of_quarter q
  | _ => ""
  end.

Definition score_c : value -> value -> res := score_now re_search_c str_of_c.

(* one correspondence case: (pattern, received, result observed on the implementation) *)
Definition check_args (c : value * value * res) : bool :=
  let '(p, v, r) := c in res_eqb (score_c p v) r.

(* state.actions as an association list *)
Definition actions_of (tbl : list (string * list (string * value))) (uid : string)
  : option (list (string * value)) :=
  match find (fun e => String.eqb (fst e) uid) tbl with
  | Some e => Some (snd e)
  | None => None
  end.

Definition event_score_c tbl : event -> event -> eres :=
  event_score_now re_search_c str_of_c (actions_of tbl).

Definition check_event (c : list (string * list (string * value)) * event * event * eres) : bool :=
  let '(tbl, ev, ref, r) := c in eres_eqb (event_score_c tbl ev ref) r.
