(* C11 - proofs about V2/Serial.v: totality of the encoder on supported acyclic graphs and the
   round trip decode (encode g) ~ g up to an isomorphism that preserves sharing. *)
From Coq Require Import ZArith List String Bool Ascii Lia.
From NG Require Import V2.Serial.
Import ListNotations.
Open Scope string_scope.
Open Scope Z_scope.

(* ---------------------------------------------------------------------------------- *)
(* generic lemmas *)

Lemma lookup_in {A} (l : list (Z * A)) i x : lookup l i = Some x -> In (i, x) l.
Proof.
  induction l as [|[k y] r IH]; simpl; [discriminate|].
  destruct (k =? i) eqn:E; intro H.
  - apply Z.eqb_eq in E. inversion H. subst. now left.
  - right. now apply IH.
Qed.

Lemma map_st_length {S A B} (f : S -> A -> option (B * S)) l : forall s ys s',
  map_st f s l = Some (ys, s') -> List.length ys = List.length l.
Proof.
  induction l as [|x r IH]; simpl; intros s ys s' H.
  - inversion H. reflexivity.
  - destruct (f s x) as [[y s1]|]; [|discriminate].
    destruct (map_st f s1 r) as [[ys' s2]|] eqn:E; [|discriminate].
    inversion H. subst. simpl. f_equal. eapply IH. eassumption.
Qed.

Lemma memz_true i l : memz i l = true <-> In i l.
Proof.
  induction l as [|x r IH]; simpl; [split; [discriminate|tauto]|].
  destruct (x =? i) eqn:E.
  - apply Z.eqb_eq in E. subst. split; auto.
  - apply Z.eqb_neq in E. rewrite IH. split; [auto|]. intros [H|H]; [congruence|auto].
Qed.

Lemma combine_fst {A B} (a : list A) (b : list B) : List.length a = List.length b -> map fst (combine a b) = a.
Proof.
  revert b. induction a as [|x a IH]; intros [|y b]; simpl; try discriminate; auto.
  intro H. f_equal. apply IH. lia.
Qed.

Lemma combine_snd {A B} (a : list A) (b : list B) : List.length a = List.length b -> map snd (combine a b) = b.
Proof.
  revert b. induction a as [|x a IH]; intros [|y b]; simpl; try discriminate; auto.
  intro H. f_equal. apply IH. lia.
Qed.

Lemma Forall2_len {A B} (R : A -> B -> Prop) l l' : Forall2 R l l' -> List.length l = List.length l'.
Proof. induction 1; simpl; auto. Qed.

Lemma Forall2_impl {A B} (R R' : A -> B -> Prop) l l' :
  (forall a b, R a b -> R' a b) -> Forall2 R l l' -> Forall2 R' l l'.
Proof. intros H. induction 1; constructor; auto. Qed.

Lemma jget_app_l k a b v : jget k a = Some v -> jget k (a ++ b) = Some v.
Proof.
  induction a as [|[k' x] r IH]; simpl; [discriminate|].
  destruct (String.eqb k' k); auto.
Qed.

Lemma jget_app_r k a b : jget k a = None -> jget k (a ++ b) = jget k b.
Proof.
  induction a as [|[k' x] r IH]; simpl; auto.
  destruct (String.eqb k' k); [discriminate|auto].
Qed.

(* ---------------------------------------------------------------------------------- *)

Fixpoint edepth (e : etree) : nat :=
  match e with
  | EL l | EN _ _ l => S (fold_right (fun x a => Nat.max (edepth x) a) O l)
  | _ => 1%nat
  end.

Lemma count_refs_nonneg e i : 0 <= count_refs e i.
Proof.
  revert e. fix IH 1. intros [p|l|k|k hh l|j]; simpl; try lia.
  - induction l as [|x r IHl]; simpl; [lia|]. specialize (IH x). lia.
  - destruct (k =? i); lia.
  - induction l as [|x r IHl]; simpl; [lia|]. specialize (IH x). lia.
Qed.

Definition covered (cnt : id -> Z) (e : etree) : Prop := forall i, 0 < count_refs e i -> 0 < cnt i.

Definition sum_refs (l : list etree) (i : id) : Z := fold_right (fun x acc => count_refs x i + acc) 0 l.

Lemma sum_refs_nonneg l i : 0 <= sum_refs l i.
Proof. induction l as [|x r IH]; simpl; [lia|]. pose proof (count_refs_nonneg x i). lia. Qed.

Definition covered_l (cnt : id -> Z) (l : list etree) : Prop := forall i, 0 < sum_refs l i -> 0 < cnt i.

Lemma covered_l_cons cnt x r : covered_l cnt (x :: r) -> covered cnt x /\ covered_l cnt r.
Proof.
  intro H. split; intros i Hi; apply H; simpl.
  - pose proof (sum_refs_nonneg r i). lia.
  - pose proof (count_refs_nonneg x i). lia.
Qed.

(* ---------------------------------------------------------------------------------- *)

Section Roundtrip.
  Variable fl : flags.
  Variable C : classes.
  Variable h : heap.
  Variable rk : id -> nat.

  Hypothesis Hact : fx_action fl = true.
  (* the decoder tests `d_type in name_to_class` before the tags below: no class bears such a name *)
  Hypothesis Hlate : forall t, In t ["datetime"; "deque"; "tuple"; "re.Pattern"; "dict"; "set"] -> class_fields C t = None.
  Hypothesis Hnodes : forallb (fun kn => node_ok fl C h (snd kn)) h = true.
  Hypothesis Hacyc : acyclic h rk.

  Lemma node_ok_of i n : lookup h i = Some n -> node_ok fl C h n = true.
  Proof.
    intro H. apply lookup_in in H. rewrite forallb_forall in Hnodes. exact (Hnodes (i, n) H).
  Qed.

  Lemma tkids_closed i n : lookup h i = Some n -> forall v, In v (tkids n) -> val_closed h v = true.
  Proof.
    intros H v Hv. apply node_ok_of in H. unfold node_ok in H. apply andb_true_iff in H as [_ H].
    rewrite forallb_forall in H. auto.
  Qed.

  (* ---- totality *)
  Lemma enc_kids_total n :
    (forall seen v, val_closed h v = true -> (rank_of rk v < n)%nat -> exists e s', enc fl n h seen v = Some (e, s')) ->
    forall l seen, (forall v, In v l -> val_closed h v = true /\ (rank_of rk v < n)%nat) ->
    exists es s', map_st (enc fl n h) seen l = Some (es, s').
  Proof.
    intros IH l. induction l as [|x r IHl]; intros seen Hl; simpl.
    - eauto.
    - destruct (Hl x (or_introl eq_refl)) as [Hc Hr].
      destruct (IH seen x Hc Hr) as (e & s1 & ->).
      destruct (IHl s1) as (es & s2 & ->); [intros v Hv; apply Hl; now right|]. eauto.
  Qed.

  Lemma enc_total : forall n seen v,
    val_closed h v = true -> (rank_of rk v < n)%nat -> exists e s', enc fl n h seen v = Some (e, s').
  Proof.
    induction n as [|n IH]; intros seen v Hc Hr; [lia|].
    destruct v as [p|i]; simpl; [eauto|].
    destruct (memz i seen); [eauto|].
    simpl in Hc. destruct (lookup h i) as [nd|] eqn:Hl; [|discriminate].
    assert (Hk : forall seen', exists es s', map_st (enc fl n h) seen' (tkids nd) = Some (es, s')).
    { intro seen'. apply enc_kids_total; [exact IH|]. intros v Hv. split.
      - eapply tkids_closed; eauto.
      - destruct v as [p|j]; simpl; [simpl in Hr; lia|]. specialize (Hacyc i nd Hl j Hv). simpl in Hr. lia. }
    pose proof (node_ok_of i nd Hl) as Hok. unfold node_ok, head_ok in Hok.
    apply andb_true_iff in Hok as [Hh _].
    unfold tkids in Hk.
    destruct (hd nd) as [ | | | |ks|cls fs|fs|cls mem|sv|iso|tok|fn|pat fg|ty] eqn:Hhd; try (destruct (Hk seen) as (es & s' & ->); eauto; fail).
    - (* HDict *) unfold dict_keys_ok.
      apply andb_true_iff in Hh as [Hh _]. apply andb_true_iff in Hh as [Hh _]. rewrite Hh.
      destruct (Hk seen) as (es & s' & ->); eauto.
    - (* HAction *) rewrite Hact. destruct (Hk seen) as (es & s' & ->); eauto.
    - (* HPartial *) eauto.
    - (* HRegex *) apply andb_true_iff in Hh as [Hh _]. rewrite Hh. destruct (Hk seen) as (es & s' & ->); eauto.
    - (* HOther *) discriminate.
  Qed.

  (* ---- depth of the produced tree *)
  Lemma enc_kids_depth n :
    (forall seen v e s', enc fl n h seen v = Some (e, s') -> (edepth e <= n)%nat) ->
    forall l seen es s', map_st (enc fl n h) seen l = Some (es, s') ->
    (fold_right (fun x a => Nat.max (edepth x) a) O es <= n)%nat.
  Proof.
    intros IH l. induction l as [|x r IHl]; intros seen es s' H; simpl in H.
    - inversion H. simpl. lia.
    - destruct (enc fl n h seen x) as [[e s1]|] eqn:E; [|discriminate].
      destruct (map_st (enc fl n h) s1 r) as [[es' s2]|] eqn:E2; [|discriminate].
      inversion H. subst. simpl. apply IH in E. apply IHl in E2. lia.
  Qed.

  Lemma enc_depth : forall n seen v e s', enc fl n h seen v = Some (e, s') -> (edepth e <= n)%nat.
  Proof.
    induction n as [|n IH]; intros seen v e s' H; [discriminate|].
    destruct v as [p|i]; simpl in H; [inversion H; simpl; lia|].
    destruct (memz i seen); [inversion H; simpl; lia|].
    destruct (lookup h i) as [nd|]; [|discriminate].
    pose proof (enc_kids_depth n IH (kids nd) seen) as G.
    destruct (hd nd) as [ | | | |ks|cls fs|fs|cls mem|sv|iso|tok|fn|pat fg|ty];
      try rewrite Hact in H;
      try (destruct (dict_keys_ok fl ks); [|discriminate]);
      try (destruct (fx_regex fl); [|discriminate]);
      try (destruct (map_st (enc fl n h) seen (kids nd)) as [[es s2]|]; [|discriminate];
           specialize (G es s2 eq_refl); inversion H; subst; simpl; lia);
      try (inversion H; simpl; lia); try discriminate.
  Qed.

  (* ---- which ids the encoder registers: the old ones and descendants of v *)
  Lemma enc_kids_seen n :
    (forall seen v e s', enc fl n h seen v = Some (e, s') ->
       forall k, memz k s' = true -> memz k seen = true \/ (S (rk k) <= rank_of rk v)%nat) ->
    forall l seen es s', map_st (enc fl n h) seen l = Some (es, s') ->
    forall k, memz k s' = true -> memz k seen = true \/ exists x, In x l /\ (S (rk k) <= rank_of rk x)%nat.
  Proof.
    intros IH l. induction l as [|x r IHl]; intros seen es s' H k Hk; simpl in H.
    - inversion H. subst. now left.
    - destruct (enc fl n h seen x) as [[e s1]|] eqn:E; [|discriminate].
      destruct (map_st (enc fl n h) s1 r) as [[es' s2]|] eqn:E2; [|discriminate].
      inversion H. subst.
      destruct (IHl _ _ _ E2 k Hk) as [H1|(y & Hy & Hr)].
      + destruct (IH _ _ _ _ E k H1) as [H2|H2]; [now left|]. right. exists x. split; [now left|exact H2].
      + right. exists y. split; [now right|exact Hr].
  Qed.

  Lemma memz_cons k i l : memz k (i :: l) = true <-> k = i \/ memz k l = true.
  Proof.
    simpl. destruct (i =? k) eqn:E.
    - apply Z.eqb_eq in E. subst. tauto.
    - apply Z.eqb_neq in E. split; [auto|]. intros [->|H]; [congruence|auto].
  Qed.

  Lemma enc_seen : forall n seen v e s', enc fl n h seen v = Some (e, s') ->
    forall k, memz k s' = true -> memz k seen = true \/ (S (rk k) <= rank_of rk v)%nat.
  Proof.
    induction n as [|n IH]; intros seen v e s' H k Hk; [discriminate|].
    destruct v as [p|i]; simpl in H; [inversion H; subst; now left|].
    destruct (memz i seen) eqn:Hm; [inversion H; subst; now left|].
    destruct (lookup h i) as [nd|] eqn:Hl; [|discriminate].
    assert (G : forall es s2, map_st (enc fl n h) seen (kids nd) = Some (es, s2) ->
                (match hd nd with HPartial _ => False | _ => True end) ->
                memz k s2 = true -> memz k seen = true \/ (S (rk k) <= S (rk i))%nat).
    { intros es s2 Hs Hp Hk2. destruct (enc_kids_seen n IH _ _ _ _ Hs k Hk2) as [?|(x & Hx & Hr)]; [now left|].
      right. destruct x as [p|j]; simpl in Hr; [lia|].
      assert (In (VO j) (tkids nd)) by (unfold tkids; destruct (hd nd); tauto || exact Hx).
      specialize (Hacyc i nd Hl j H0). lia. }
    simpl.
    destruct (hd nd) as [ | | | |ks|cls fs|fs|cls mem|sv|iso|tok|fn|pat fg|ty];
      try rewrite Hact in H;
      try (destruct (dict_keys_ok fl ks); [|discriminate]);
      try (destruct (fx_regex fl); [|discriminate]);
      try (destruct (map_st (enc fl n h) seen (kids nd)) as [[es s2]|]; [|discriminate];
           specialize (G es s2 eq_refl I); inversion H; subst;
           try (apply memz_cons in Hk as [->|Hk]; [right; lia|]); auto);
      try (inversion H; subst; now left); try discriminate.
  Qed.

  Lemma enc_kids_mono n :
    (forall seen v e s', enc fl n h seen v = Some (e, s') -> forall k, memz k seen = true -> memz k s' = true) ->
    forall l seen es s', map_st (enc fl n h) seen l = Some (es, s') -> forall k, memz k seen = true -> memz k s' = true.
  Proof.
    intros IH l. induction l as [|x r IHl]; intros seen es s' H k Hk; simpl in H.
    - inversion H. now subst.
    - destruct (enc fl n h seen x) as [[e s1]|] eqn:E; [|discriminate].
      destruct (map_st (enc fl n h) s1 r) as [[es' s2]|] eqn:E2; [|discriminate].
      inversion H. subst. eapply IHl; eauto.
  Qed.

  Lemma enc_mono : forall n seen v e s', enc fl n h seen v = Some (e, s') ->
    forall k, memz k seen = true -> memz k s' = true.
  Proof.
    induction n as [|n IH]; intros seen v e s' H k Hk; [discriminate|].
    destruct v as [p|i]; simpl in H; [inversion H; now subst|].
    destruct (memz i seen) eqn:Hm; [inversion H; now subst|].
    destruct (lookup h i) as [nd|] eqn:Hl; [|discriminate].
    pose proof (enc_kids_mono n IH (kids nd) seen) as G.
    destruct (hd nd) as [ | | | |ks|cls fs|fs|cls mem|sv|iso|tok|fn|pat fg|ty];
      try rewrite Hact in H;
      try (destruct (dict_keys_ok fl ks); [|discriminate]);
      try (destruct (fx_regex fl); [|discriminate]);
      try (destruct (map_st (enc fl n h) seen (kids nd)) as [[es s2]|]; [|discriminate];
           specialize (G es s2 eq_refl k Hk); inversion H; subst;
           try (apply memz_cons; right); auto);
      try (inversion H; now subst); try discriminate.
  Qed.

  (* scalars are encoded as themselves *)
  Definition prim_kids (l : list val) (js : list json) : Prop :=
    Forall2 (fun k j => forall p, k = VP p -> j = json_of_prim p) l js.

  Lemma enc_prim n seen p e s' : enc fl n h seen (VP p) = Some (e, s') -> e = EP p.
  Proof. destruct n; simpl; [discriminate|]. intro H. now inversion H. Qed.

  Lemma enc_kids_prim n cnt : forall l seen es s', map_st (enc fl n h) seen l = Some (es, s') ->
    prim_kids l (map (render fl cnt) es).
  Proof.
    induction l as [|x r IHl]; intros seen es s' H; simpl in H.
    - inversion H. constructor.
    - destruct (enc fl n h seen x) as [[e s1]|] eqn:E; [|discriminate].
      destruct (map_st (enc fl n h) s1 r) as [[es' s2]|] eqn:E2; [|discriminate].
      inversion H. subst. simpl. constructor; [|eapply IHl; eauto].
      intros p ->. apply enc_prim in E. now subst.
  Qed.

  (* ---- the decoder's branch selection inverts the encoder's rendering *)
  Lemma unpair_pair_up ks : forall js,
    forallb is_json_key ks = true -> List.length ks = List.length js -> unpair (pair_up ks js) = Some (ks, js).
  Proof.
    induction ks as [|k ks IH]; intros [|j js] Hk Hl; simpl in *; try discriminate; auto.
    apply andb_true_iff in Hk as [Hk1 Hk2].
    rewrite IH by (auto; lia). destruct k; simpl in *; try discriminate; reflexivity.
  Qed.

  Lemma str_keys_back ks : forall js,
    forallb is_str_key ks = true -> List.length ks = List.length js ->
    map (fun kv : string * json => KS (fst kv)) (combine (map key_str ks) js) = ks.
  Proof.
    induction ks as [|k ks IH]; intros [|j js] Hk Hl; simpl in *; try discriminate; auto.
    apply andb_true_iff in Hk as [Hk1 Hk2]. rewrite IH by (auto; lia).
    destruct k; simpl in *; try discriminate; reflexivity.
  Qed.

  Variable cnt : id -> Z.

  Lemma render_parse nd js i :
    head_ok fl C nd = true ->
    (match hd nd with HList | HPartial _ | HOther _ => False | _ => True end) ->
    prim_kids (kids nd) js ->
    exists t, jget "__type" (render_head fl (hd nd) js ++ marks cnt i) = Some (JStr t) /\
              String.eqb t "ref" = false /\
              parse_head fl C t (render_head fl (hd nd) js ++ marks cnt i) = Some (hd nd, js) /\
              jget "__id" (render_head fl (hd nd) js ++ marks cnt i)
              = (if 0 <? cnt i then Some (JInt i) else None).
  Proof.
    intros Hok Hh Hp. pose proof (Forall2_len _ _ _ Hp) as Hlen. unfold head_ok in Hok.
    pose proof (Hlate "datetime") as L1. pose proof (Hlate "deque") as L2. pose proof (Hlate "tuple") as L3.
    pose proof (Hlate "re.Pattern") as L4. pose proof (Hlate "dict") as L5. pose proof (Hlate "set") as L6.
    simpl in L1, L2, L3, L4, L5, L6.
    assert (Mk : forall k, (k =? "__id")%string = false -> (k =? "__ref_count")%string = false ->
                           jget k (marks cnt i) = None).
    { intros k K1 K2. unfold marks. destruct (0 <? cnt i); [|reflexivity]. cbn [jget].
      rewrite (String.eqb_sym "__ref_count" k), K2, (String.eqb_sym "__id" k), K1. reflexivity. }
    assert (Mi : jget "__id" (marks cnt i) = (if 0 <? cnt i then Some (JInt i) else None)).
    { unfold marks. destruct (0 <? cnt i); reflexivity. }
    destruct nd as [hdn kds]. simpl in *.
    destruct hdn as [ | | | |ks|cls fs|fs|cls mem|sv|iso|tok|fn|pat fg|ty]; try contradiction.
    - (* tuple *) exists "tuple". unfold parse_head. simpl. rewrite L3, Mi by tauto.
      destruct (fx_regex fl); simpl; auto.
    - (* set *) exists "set". unfold parse_head. simpl. rewrite L6, Mi by tauto.
      destruct (fx_regex fl), (fx_keys fl); simpl; auto.
    - (* deque *) exists "deque". unfold parse_head. simpl. rewrite L2, Mi by tauto. auto.
    - (* dict *)
      apply andb_true_iff in Hok as [Hok Hl]. apply andb_true_iff in Hok as [Hj Hs].
      apply Nat.eqb_eq in Hl.
      exists "dict". unfold parse_head, render_head.
      destruct (fx_keys fl && negb (forallb is_str_key ks)) eqn:Hb; simpl.
      + apply andb_true_iff in Hb as [Hb1 Hb2]. rewrite L5, Mi, Hb1 by tauto.
        rewrite unpair_pair_up by (auto; lia).
        destruct (fx_regex fl); simpl; auto.
      + rewrite L5, Mi by tauto.
        assert (Hall : forallb is_str_key ks = true).
        { destruct (fx_keys fl); simpl in *; [|exact Hs]. now apply negb_false_iff in Hb. }
        rewrite (Mk "items") by reflexivity.
        rewrite str_keys_back by (auto; lia).
        rewrite combine_snd by (rewrite map_length; lia).
        destruct (fx_regex fl), (fx_keys fl); simpl; auto.
    - (* dataclass *)
      apply andb_true_iff in Hok as [Hok Hl]. apply andb_true_iff in Hok as [Hr Hc].
      apply Nat.eqb_eq in Hl. apply negb_true_iff in Hr. unfold reserved_tag in Hr. simpl in Hr.
      repeat (apply orb_false_iff in Hr as [? Hr]).
      exists cls. unfold parse_head. simpl. rewrite Mi.
      repeat split; auto.
      destruct (class_fields C cls) as [fs'|]; [|discriminate].
      destruct (list_eq_dec string_dec fs fs'); [subst fs'|discriminate].
      rewrite H0, H1, H2, H3. rewrite combine_fst by lia.
      destruct (list_eq_dec string_dec fs fs); [|congruence].
      rewrite combine_snd by lia. reflexivity.
    - (* Action *)
      apply andb_true_iff in Hok as [Hok Hk]. apply andb_true_iff in Hok as [_ Hf].
      destruct (list_eq_dec string_dec fs action_fields); [subst fs|discriminate].
      destruct kds as [|k0 [|k1 [|k2 [|[[| | | |m]|] [|k4 [|k5 [|k6 [|]]]]]]]]; try discriminate.
      inversion Hp as [|? j0 ? js0 _ Hp0]; subst. inversion Hp0 as [|? j1 ? js1 _ Hp1]; subst.
      inversion Hp1 as [|? j2 ? js2 _ Hp2]; subst. inversion Hp2 as [|? j3 ? js3 P3 Hp3]; subst.
      inversion Hp3 as [|? j4 ? js4 _ Hp4]; subst. inversion Hp4 as [|? j5 ? js5 _ Hp5]; subst.
      inversion Hp5 as [|? j6 ? js6 _ Hp6]; subst. inversion Hp6; subst.
      rewrite (P3 _ eq_refl). exists "Action". unfold parse_head. simpl. rewrite Mi, Hk. auto.
    - (* enum *)
      apply andb_true_iff in Hok as [Hm Hk]. destruct kds; [|discriminate]. inversion Hp; subst.
      exists "enum". unfold parse_head. simpl. rewrite Mi, Hm. auto.
    - (* SpecType *)
      apply andb_true_iff in Hok as [Hm Hk]. destruct kds; [|discriminate]. inversion Hp; subst.
      exists "SpecType". unfold parse_head. simpl. rewrite Mi, Hm. auto.
    - (* datetime *)
      destruct kds; [|discriminate]. inversion Hp; subst.
      exists "datetime". unfold parse_head. simpl. rewrite L1, Mi by tauto. auto.
    - (* RailsConfig *)
      destruct kds; [|discriminate]. inversion Hp; subst.
      exists "RailsConfig". unfold parse_head. simpl. rewrite Mi. auto.
    - (* regex *)
      apply andb_true_iff in Hok as [Hm Hk]. destruct kds; [|discriminate]. inversion Hp; subst.
      exists "re.Pattern". unfold parse_head. simpl. rewrite L4, Mi, Hm by tauto. auto.
  Qed.

  (* ---- the invariant of the simultaneous traversal *)
  Lemma vrel_mono er M M' v v' : incl M M' -> vrel er h M v v' -> vrel er h M' v v'.
  Proof. intros Hi Hv. destruct Hv; [constructor|constructor; auto|econstructor; eauto]. Qed.

  Lemma node_rel_mono er M M' n n' : incl M M' -> node_rel er h M n n' -> node_rel er h M' n n'.
  Proof.
    intros Hi [H1 H2]. split; [exact H1|]. eapply Forall2_impl; [|exact H2]. intros; eapply vrel_mono; eauto.
  Qed.

  Record Inv (seen : list id) (M : rel) (st : dstate) : Prop := {
    inv_node : forall i i', In (i, i') M ->
               exists n n', lookup h i = Some n /\ lookup (dh st) i' = Some n' /\ node_rel true h M n n';
    inv_lt : forall i i', In (i, i') M -> i' < nxt st;
    inv_seen : forall i, memz i seen = true -> exists i', In (i, i') M /\ is_list h i = false;
    inv_dom : forall i i', In (i, i') M -> is_list h i = false -> memz i seen = true;
    inv_refs : forall i i', In (i, i') M -> is_list h i = false -> 0 < cnt i ->
               lookup (drefs st) i = Some (VO i');
    inv_inj : forall i1 i2 i', In (i1, i') M -> In (i2, i') M -> i1 = i2;
    inv_fun : forall i i1 i2, In (i, i1) M -> In (i, i2) M -> is_list h i = false -> i1 = i2
  }.

  Lemma dec_node f st kvs t hd' kjs vs st1 :
    jget "__type" kvs = Some (JStr t) -> String.eqb t "ref" = false ->
    parse_head fl C t kvs = Some (hd', kjs) ->
    map_st (dec fl C f) st kjs = Some (vs, st1) ->
    dec fl C (S f) st (JObj kvs)
    = Some (VO (nxt st1),
            let st2 := {| dh := (nxt st1, mk hd' vs) :: dh st1; nxt := nxt st1 + 1; drefs := drefs st1 |} in
            match jget "__id" kvs with Some (JInt old) => add_ref old (VO (nxt st1)) st2 | _ => st2 end).
  Proof. intros H1 H2 H3 H4. simpl. rewrite H1, H2, H3, H4. reflexivity. Qed.

  (* adding the pair of a freshly allocated object keeps the invariant *)
  Lemma inv_alloc seen M st1 i nd vs (listy : bool) seen' st' :
    Inv seen M st1 ->
    lookup h i = Some nd ->
    Forall2 (vrel true h M) (kids nd) vs ->
    is_list h i = listy ->
    (listy = false -> memz i seen = false) ->
    (* the new decoder state: node allocated, reference registered iff marked *)
    dh st' = (nxt st1, mk (hd nd) vs) :: dh st1 ->
    nxt st' = nxt st1 + 1 ->
    (listy = true -> drefs st' = drefs st1 /\ seen' = seen) ->
    (listy = false -> seen' = i :: seen /\
                      drefs st' = (if 0 <? cnt i then (i, VO (nxt st1)) :: drefs st1 else drefs st1)) ->
    Inv seen' ((i, nxt st1) :: M) st'.
  Proof.
    intros [Hn Hlt Hs Hd Hr Hi Hf] Hl Hk Hlist Hns Hdh Hnx HL HNL.
    assert (Hinc : incl M ((i, nxt st1) :: M)) by (intros x Hx; now right).
    assert (Hnotin : listy = false -> forall x, ~ In (i, x) M).
    { intros Hlf x Hx. specialize (Hd i x Hx). rewrite Hlist in Hd. specialize (Hd Hlf).
      rewrite (Hns Hlf) in Hd. discriminate. }
    constructor.
    - intros a a' [Ha|Ha].
      + inversion Ha; subst a a'. exists nd, (mk (hd nd) vs). rewrite Hdh. simpl. rewrite Z.eqb_refl.
        repeat split; auto. simpl. eapply Forall2_impl; [|exact Hk]. intros; eapply vrel_mono; eauto.
      + destruct (Hn a a' Ha) as (n & n' & H1 & H2 & H3). exists n, n'. rewrite Hdh. simpl.
        specialize (Hlt a a' Ha). destruct (nxt st1 =? a') eqn:E; [apply Z.eqb_eq in E; lia|].
        split; [auto|split; [auto|eapply node_rel_mono; eauto]].
    - intros a a' [Ha|Ha]; [inversion Ha; lia|]. specialize (Hlt a a' Ha). lia.
    - intros a Ha. destruct listy.
      + destruct (HL eq_refl) as [_ ->]. destruct (Hs a Ha) as (a' & H1 & H2). exists a'. split; [now right|auto].
      + destruct (HNL eq_refl) as [-> _]. apply memz_cons in Ha as [->|Ha].
        * exists (nxt st1). split; [now left|exact Hlist].
        * destruct (Hs a Ha) as (a' & H1 & H2). exists a'. split; [now right|auto].
    - intros a a' [Ha|Ha] Hal.
      + inversion Ha; subst a a'. rewrite Hlist in Hal.
        destruct (HNL Hal) as [-> _]. apply memz_cons. now left.
      + specialize (Hd a a' Ha Hal). destruct listy.
        * destruct (HL eq_refl) as [_ ->]. exact Hd.
        * destruct (HNL eq_refl) as [-> _]. apply memz_cons. now right.
    - intros a a' [Ha|Ha] Hal Hc.
      + inversion Ha; subst a a'. rewrite Hlist in Hal.
        destruct (HNL Hal) as [_ ->]. apply Z.ltb_lt in Hc. rewrite Hc. simpl. rewrite Z.eqb_refl. reflexivity.
      + specialize (Hr a a' Ha Hal Hc). destruct listy.
        * destruct (HL eq_refl) as [-> _]. exact Hr.
        * destruct (HNL eq_refl) as [_ ->]. destruct (0 <? cnt i); [|exact Hr]. simpl.
          destruct (i =? a) eqn:E; [|exact Hr]. apply Z.eqb_eq in E. subst a.
          exfalso. eapply Hnotin; eauto.
    - intros a1 a2 a' [H1|H1] [H2|H2].
      + inversion H1; inversion H2; congruence.
      + inversion H1; subst. specialize (Hlt _ _ H2). lia.
      + inversion H2; subst. specialize (Hlt _ _ H1). lia.
      + eapply Hi; eauto.
    - intros a a1 a2 [H1|H1] [H2|H2] Hal.
      + inversion H1; inversion H2; congruence.
      + inversion H1; subst a a1. rewrite Hlist in Hal. exfalso. eapply Hnotin; eauto.
      + inversion H2; subst a a2. rewrite Hlist in Hal. exfalso. eapply Hnotin; eauto.
      + eapply Hf; eauto.
  Qed.

  Definition step_goal (n : nat) : Prop :=
    forall seen v e seen', enc fl n h seen v = Some (e, seen') ->
    forall M st, Inv seen M st -> covered cnt e ->
    forall f, (n <= f)%nat ->
    exists v' M' st', dec fl C f st (render fl cnt e) = Some (v', st') /\
                      Inv seen' M' st' /\ incl M M' /\ vrel true h M' v v'.

  Lemma kids_dec n : step_goal n ->
    forall l seen es seen', map_st (enc fl n h) seen l = Some (es, seen') ->
    forall M st, Inv seen M st -> covered_l cnt es ->
    forall f, (n <= f)%nat ->
    exists vs M' st', map_st (dec fl C f) st (map (render fl cnt) es) = Some (vs, st') /\
                      Inv seen' M' st' /\ incl M M' /\ Forall2 (vrel true h M') l vs.
  Proof.
    intros IH l. induction l as [|x r IHl]; intros seen es seen' H M st HI Hc f Hf; simpl in H.
    - inversion H. subst. exists [], M, st. simpl. split; [reflexivity|split; [assumption|split; [apply incl_refl|constructor]]].
    - destruct (enc fl n h seen x) as [[e s1]|] eqn:E; [|discriminate].
      destruct (map_st (enc fl n h) s1 r) as [[es' s2]|] eqn:E2; [|discriminate].
      inversion H. subst. apply covered_l_cons in Hc as [Hc1 Hc2].
      destruct (IH _ _ _ _ E M st HI Hc1 f Hf) as (v' & M1 & st1 & D1 & I1 & Inc1 & V1).
      destruct (IHl _ _ _ E2 M1 st1 I1 Hc2 f Hf) as (vs & M2 & st2 & D2 & I2 & Inc2 & V2).
      exists (v' :: vs), M2, st2. simpl. rewrite D1, D2.
      split; [reflexivity|split; [assumption|split]].
      + eapply incl_tran; eauto.
      + constructor; auto. eapply vrel_mono; eauto.
  Qed.

  Lemma is_list_spec i nd : lookup h i = Some nd -> is_list h i = match hd nd with HList => true | _ => false end.
  Proof. intro H. unfold is_list. rewrite H. destruct nd as [[] ?]; reflexivity. Qed.

  Lemma enc_dec : forall n, step_goal n.
  Proof.
    induction n as [|n IH]; intros seen v e seen' H M st HI Hc f Hf; [discriminate|].
    destruct f as [|f]; [lia|]. assert (Hf' : (n <= f)%nat) by lia.
    destruct v as [p|i]; simpl in H.
    { inversion H; subst. exists (VP p), M, st.
      split; [destruct p; reflexivity|split; [assumption|split; [apply incl_refl|constructor]]]. }
    destruct (memz i seen) eqn:Hm.
    { inversion H; subst. destruct (inv_seen _ _ _ HI i Hm) as (i' & Hin & Hnl).
      assert (Hci : 0 < cnt i) by (apply Hc; simpl; rewrite Z.eqb_refl; lia).
      exists (VO i'), M, st.
      split; [|split; [assumption|split; [apply incl_refl|now constructor]]].
      simpl. rewrite (inv_refs _ _ _ HI i i' Hin Hnl Hci). reflexivity. }
    destruct (lookup h i) as [nd|] eqn:Hl; [|discriminate].
    pose proof (node_ok_of i nd Hl) as Hok. unfold node_ok in Hok. apply andb_true_iff in Hok as [Hhok _].
    (* no registered id is i after the children: i is not its own descendant *)
    assert (Hself : forall es s2, map_st (enc fl n h) seen (kids nd) = Some (es, s2) ->
                    (match hd nd with HPartial _ => False | _ => True end) -> memz i s2 = false).
    { intros es s2 Hs Hp. destruct (memz i s2) eqn:Hi2; [|reflexivity]. exfalso.
      destruct (enc_kids_seen n (enc_seen n) _ _ _ _ Hs i Hi2) as [Hx|(x & Hx & Hr)]; [congruence|].
      destruct x as [p|j]; simpl in Hr; [lia|].
      assert (In (VO j) (tkids nd)) by (unfold tkids; destruct (hd nd); tauto || exact Hx).
      specialize (Hacyc i nd Hl j H0). lia. }
    (* the generic branch *)
    assert (Gen : (match hd nd with HList | HPartial _ | HOther _ => False | _ => True end) ->
              forall es s2, map_st (enc fl n h) seen (kids nd) = Some (es, s2) ->
              e = EN i (hd nd) es -> seen' = i :: s2 ->
              exists v' M' st', dec fl C (S f) st (render fl cnt e) = Some (v', st') /\
                                Inv seen' M' st' /\ incl M M' /\ vrel true h M' (VO i) v').
    { intros Hh es s2 Hs -> ->.
      assert (Hcl : covered_l cnt es) by (intros k Hk; apply Hc; exact Hk).
      destruct (kids_dec n IH _ _ _ _ Hs M st HI Hcl f Hf') as (vs & M1 & st1 & D1 & I1 & Inc1 & V1).
      pose proof (enc_kids_prim n cnt _ _ _ _ Hs) as Hpk.
      destruct (render_parse nd (map (render fl cnt) es) i Hhok Hh Hpk) as (t & T1 & T2 & T3 & T4).
      simpl render. rewrite (dec_node f st _ t (hd nd) _ vs st1 T1 T2 T3 D1). rewrite T4.
      assert (Hnl : is_list h i = false) by (rewrite (is_list_spec i nd Hl); destruct (hd nd); tauto || reflexivity).
      assert (Hs2 : memz i s2 = false) by (eapply Hself; eauto; destruct (hd nd); tauto).
      eexists (VO (nxt st1)), ((i, nxt st1) :: M1), _. split; [reflexivity|]. split; [|split].
      - eapply (inv_alloc s2 M1 st1 i nd vs false); eauto; try discriminate.
        + destruct (0 <? cnt i); reflexivity.
        + destruct (0 <? cnt i); reflexivity.
        + intros _. split; [reflexivity|]. destruct (0 <? cnt i); reflexivity.
      - intros x Hx. right. auto.
      - constructor. now left. }
    destruct (hd nd) as [ | | | |ks|cls fs|fs|cls mem|sv|iso|tok|fn|pat fg|ty] eqn:Hhd;
      try rewrite Hact in H;
      try (destruct (dict_keys_ok fl ks); [|discriminate]);
      try (destruct (fx_regex fl); [|discriminate]);
      try (destruct (map_st (enc fl n h) seen (kids nd)) as [[es s2]|] eqn:Hs; [|discriminate];
           inversion H; subst e seen'; eapply Gen; eauto; exact I);
      try discriminate.
    - (* list *)
      destruct (map_st (enc fl n h) seen (kids nd)) as [[es s2]|] eqn:Hs; [|discriminate].
      inversion H; subst e seen'.
      assert (Hcl : covered_l cnt es) by (intros k Hk; apply Hc; exact Hk).
      destruct (kids_dec n IH _ _ _ _ Hs M st HI Hcl f Hf') as (vs & M1 & st1 & D1 & I1 & Inc1 & V1).
      simpl. rewrite D1.
      eexists (VO (nxt st1)), ((i, nxt st1) :: M1), _. split; [reflexivity|]. split; [|split].
      + eapply (inv_alloc s2 M1 st1 i nd vs true); eauto; try discriminate.
        * rewrite (is_list_spec i nd Hl), Hhd. reflexivity.
        * simpl. rewrite Hhd. reflexivity.
      + intros x Hx. right. auto.
      + constructor. now left.
    - (* partial: encoded as None *)
      inversion H; subst e seen'. exists (VP PNone), M, st.
      split; [reflexivity|split; [assumption|split; [apply incl_refl|]]].
      eapply vr_erased; eauto.
  Qed.

End Roundtrip.

(* ---------------------------------------------------------------------------------- *)
(* the theorems *)

Definition late_tags_free (C : classes) : Prop :=
  forall t, In t ["datetime"; "deque"; "tuple"; "re.Pattern"; "dict"; "set"] -> class_fields C t = None.

Lemma supported_nodes fl C h r : supported fl C h r = true ->
  forallb (fun kn => node_ok fl C h (snd kn)) h = true /\ val_closed h r = true.
Proof. unfold supported. intro H. now apply andb_true_iff in H. Qed.

(* the encoder succeeds on every supported graph whose depth is below the recursion limit *)
Theorem encode_total fl C h r rk limit :
  fx_action fl = true -> supported fl C h r = true -> acyclic h rk -> (rank_of rk r < limit)%nat ->
  exists j, encode fl limit h r = Some j.
Proof.
  intros Ha Hs Hac Hr. apply supported_nodes in Hs as [Hn Hc].
  destruct (enc_total fl C h rk Ha Hn Hac limit [] r Hc Hr) as (e & s' & He).
  unfold encode. rewrite He. eauto.
Qed.

(* ... and decoding its output yields an isomorphic graph (callbacks erased) that preserves sharing *)
Theorem roundtrip_graph fl C h r rk limit :
  fx_action fl = true -> late_tags_free C ->
  supported fl C h r = true -> acyclic h rk -> (rank_of rk r < limit)%nat ->
  exists j h' r' M,
    encode fl limit h r = Some j /\ decode fl C limit j = Some (h', r') /\
    bisim true h r h' r' M /\ sharing_preserved h M.
Proof.
  intros Ha Hl Hs Hac Hr. apply supported_nodes in Hs as [Hn Hc].
  destruct (enc_total fl C h rk Ha Hn Hac limit [] r Hc Hr) as (e & s' & He).
  assert (I0 : Inv h (count_refs e) [] [] st0).
  { constructor; simpl; try (intros; contradiction); intros; discriminate. }
  destruct (enc_dec fl C h rk Ha Hl Hn Hac (count_refs e) limit [] r e s' He [] st0 I0
                    (fun i Hi => Hi) limit (le_n _)) as (v' & M & st' & D & I1 & _ & V).
  exists (render fl (count_refs e) e), (dh st'), v', M.
  unfold encode, decode. rewrite He, D. repeat split; auto.
  - exact (inv_node _ _ _ _ _ I1).
  - exact (inv_inj _ _ _ _ _ I1).
  - exact (inv_fun _ _ _ _ _ I1).
Qed.

(* the same with the decoder state exposed (for the composition with the callback pass) *)
Theorem roundtrip_graph_st fl C h r rk limit :
  fx_action fl = true -> late_tags_free C ->
  supported fl C h r = true -> acyclic h rk -> (rank_of rk r < limit)%nat ->
  exists j r' M st',
    encode fl limit h r = Some j /\ dec fl C limit st0 j = Some (r', st') /\
    bisim true h r (dh st') r' M /\ sharing_preserved h M /\
    (forall i i', In (i, i') M -> i' < nxt st').
Proof.
  intros Ha Hl Hs Hac Hr. apply supported_nodes in Hs as [Hn Hc].
  destruct (enc_total fl C h rk Ha Hn Hac limit [] r Hc Hr) as (e & s' & He).
  assert (I0 : Inv h (count_refs e) [] [] st0).
  { constructor; simpl; try (intros; contradiction); intros; discriminate. }
  destruct (enc_dec fl C h rk Ha Hl Hn Hac (count_refs e) limit [] r e s' He [] st0 I0
                    (fun i Hi => Hi) limit (le_n _)) as (v' & M & st' & D & I1 & _ & V).
  exists (render fl (count_refs e) e), v', M, st'.
  unfold encode. rewrite He. repeat split; auto.
  - exact (inv_node _ _ _ _ _ I1).
  - exact (inv_inj _ _ _ _ _ I1).
  - exact (inv_fun _ _ _ _ _ I1).
  - exact (inv_lt _ _ _ _ _ I1).
Qed.
