"""C14 - Colang 1.0 dialog flows are followed like structured programs.

Model: coq/theories/V1/{Expr,Elems,Slide,Interp}.v (the interpreter: slide, compute_next_state,
compute_next_steps), specification: V1/Structured.v (structured programs, reference semantics,
compile); theorems: Props/C14.v.
Tie: (T) Gen/C14Consts.v from flows.py (default trigger types, 0.9 modifier, whether a flow that
ends in the event that starts it is marked COMPLETED); (X) differential on the REAL
compute_next_steps with flows compiled by the REAL parser from generated Colang 1.0 text:
    implementation (3 evaluations: twice on the same FlowConfig objects, once on freshly parsed)
      == V1.Interp.compute_next_steps  (inside Coq, vm_compute)
      == V1.Structured.next_steps       (inside Coq)
      == an independent Python re-statement of the property text (generator-based interpreter
         of the structured source: Python's own if/while/break/continue/calls), the direct oracle
    and Structured.compile_prog == the FlowConfigs the real parser built.
The implementation runs in child processes under `timeout`.
"""
from __future__ import annotations

import ast
import json
import os
import random
import re
import subprocess
import sys
import tempfile
import time
from concurrent.futures import ThreadPoolExecutor

from harness import common as C

PID = "C14"
GEN = ["C14Consts"]

PREAMBLE = """From Coq Require Import ZArith QArith List String.
From NG Require Import V1.Expr V1.Elems V1.Interp V1.Structured V1.InterpRun.
Import ListNotations.
Open Scope string_scope.
"""

RESERVED_VARS = {"event", "config", "last_user_message", "last_bot_message"}
ELEMENT_TYPES = {"UserIntent", "run_action", "set", "if", "while", "jump", "break", "continue", "check",
                 "stop", "flow", "branch", "meta", "any", "label", "goto"}
SPECIAL_EVENT_TYPES = {"UserIntent", "BotIntent", "InternalSystemActionFinished", "StartInternalSystemAction",
                       "ContextUpdate", "hide_prev_turn"}
NOISE_TYPES = ["UserMessage", "StartUtteranceBotAction", "UtteranceBotActionFinished", "Listen", "CustomPing"]


class Unsupported(Exception):
    pass


# =======================================================================================
# expressions: Colang expression string -> Coq V1.Expr term (fail-closed), via Python's ast

_VAR_RE = re.compile(r"\$([a-zA-Z_][a-zA-Z0-9_]*)")


def expr_ast(expr):
    """What eval_expression hands to simpleeval: `$x` -> `var_x`, parsed."""
    if expr is None:
        return ast.Constant(None)
    if isinstance(expr, bool) or isinstance(expr, int):
        return ast.Constant(expr)
    if not isinstance(expr, str):
        raise Unsupported(f"expression of type {type(expr).__name__}")
    updated = _VAR_RE.sub(r"var_\1", expr)
    try:
        tree = ast.parse(updated.strip())
    except SyntaxError:
        raise Unsupported("expression does not parse: " + expr)
    if len(tree.body) != 1 or not isinstance(tree.body[0], ast.Expr):
        raise Unsupported("not a single expression: " + expr)
    return tree.body[0].value


_CMP = {ast.Eq: "CEq", ast.NotEq: "CNe", ast.Lt: "CLt", ast.LtE: "CLe", ast.Gt: "CGt", ast.GtE: "CGe"}


def coq_expr_node(n):
    if isinstance(n, ast.Constant):
        v = n.value
        if v is None:
            return "ENone"
        if isinstance(v, bool):
            return f"(EBool {C.coq_bool(v)})"
        if isinstance(v, int):
            return f"(EInt {C.coq_Z(v)})"
        if isinstance(v, str):
            return f"(EStr {C.coq_string(v)})"
        raise Unsupported(f"constant {v!r}")
    if isinstance(n, ast.Name):
        if not n.id.startswith("var_"):
            raise Unsupported("bare name " + n.id)
        x = n.id[4:]
        if x in RESERVED_VARS:
            raise Unsupported("reserved variable $" + x)
        return f"(EVar {C.coq_string(x)})"
    if isinstance(n, ast.List):
        return "(EListLit " + C.coq_list([coq_expr_node(e) for e in n.elts]) + ")"
    if isinstance(n, ast.UnaryOp):
        if isinstance(n.op, ast.Not):
            return f"(ENot {coq_expr_node(n.operand)})"
        if isinstance(n.op, ast.USub):
            return f"(ENeg {coq_expr_node(n.operand)})"
        raise Unsupported("unary operator")
    if isinstance(n, ast.BoolOp):
        ctor = "EAnd" if isinstance(n.op, ast.And) else "EOr"
        vals = [coq_expr_node(v) for v in n.values]
        t = vals[-1]
        for v in reversed(vals[:-1]):
            t = f"({ctor} {v} {t})"
        return t
    if isinstance(n, ast.Compare):
        if len(n.ops) != 1:
            raise Unsupported("comparison chain")
        op = n.ops[0]
        a, b = n.left, n.comparators[0]
        if isinstance(op, (ast.Is, ast.IsNot)):
            if not (isinstance(b, ast.Constant) and b.value is None):
                raise Unsupported("`is` against something else than None")
            return f"(EIsNone {C.coq_bool(isinstance(op, ast.IsNot))} {coq_expr_node(a)})"
        if type(op) not in _CMP:
            raise Unsupported("comparison operator " + type(op).__name__)
        return f"(ECmp {_CMP[type(op)]} {coq_expr_node(a)} {coq_expr_node(b)})"
    if isinstance(n, ast.BinOp):
        if isinstance(n.op, ast.Add):
            return f"(EAdd {coq_expr_node(n.left)} {coq_expr_node(n.right)})"
        if isinstance(n.op, ast.Sub):
            return f"(ESub {coq_expr_node(n.left)} {coq_expr_node(n.right)})"
        raise Unsupported("binary operator " + type(n.op).__name__)
    if isinstance(n, ast.Call):
        if isinstance(n.func, ast.Name) and n.func.id == "len" and len(n.args) == 1 and not n.keywords:
            return f"(ELen {coq_expr_node(n.args[0])})"
        raise Unsupported("call")
    if isinstance(n, ast.Subscript):
        idx = n.slice
        if isinstance(idx, ast.Slice) or isinstance(idx, ast.Tuple):
            raise Unsupported("slice")
        return f"(EIndex {coq_expr_node(n.value)} {coq_expr_node(idx)})"
    raise Unsupported("expression node " + type(n).__name__)


def coq_expr(expr):
    return coq_expr_node(expr_ast(expr))


def coq_value(v):
    if v is None:
        return "VNone"
    if isinstance(v, bool):
        return f"(VBool {C.coq_bool(v)})"
    if isinstance(v, int):
        return f"(VInt {C.coq_Z(v)})"
    if isinstance(v, str):
        return f"(VStr {C.coq_string(v)})"
    if isinstance(v, list):
        return "(VList " + C.coq_list([coq_value(e) for e in v]) + ")"
    raise Unsupported("value of type " + type(v).__name__)


def coq_kvs(d):
    items = []
    for k, v in d.items():
        if not isinstance(k, str):
            raise Unsupported("non-str key")
        items.append(f"({C.coq_string(k)}, {coq_value(v)})")
    return C.coq_list(items)


def coq_opt_str(s):
    return C.coq_option(C.coq_string(s) if s is not None else None)


def canon_params(p):
    return json.dumps(p, sort_keys=True, default=str)


# =======================================================================================
# flat elements (as JSON from the worker) -> Coq V1.Elems terms, fail-closed

_IGNORED_KEYS = {"_source_mapping", "_next_on_break", "_next_on_continue", "_active_label",
                 "_active_label_data", "_debug"}


def _only(el, allowed):
    extra = set(el) - set(allowed) - _IGNORED_KEYS - {"_type"}
    if extra:
        raise Unsupported(f"element {el.get('_type')} has unexpected keys {sorted(extra)}")


def coq_elem(el):
    t = el["_type"]
    if "_label" in el and t != "jump":
        raise Unsupported("_label on a non-jump element")
    if t == "UserIntent":
        _only(el, ["intent_name", "intent_params", "_match"])
        if not isinstance(el["intent_name"], str):
            raise Unsupported("intent_name")
        return f"(LUser {C.coq_string(el['intent_name'])})"
    if t == "run_action":
        _only(el, ["action_name", "action_params", "action_result_key"])
        name = el["action_name"]
        params = el.get("action_params", {})
        if not isinstance(name, str) or not isinstance(params, dict):
            raise Unsupported("run_action shape")
        if name == "utter":
            if not isinstance(params.get("value"), str):
                raise Unsupported("utter without a str value")
            return f"(LRun \"utter\" {C.coq_string(params['value'])} \"\" None)"
        key = el.get("action_result_key")
        if key is not None and not isinstance(key, str):
            raise Unsupported("action_result_key")
        return f"(LRun {C.coq_string(name)} \"\" {C.coq_string(canon_params(params))} {coq_opt_str(key)})"
    if t == "set":
        _only(el, ["key", "expression", "_next"])
        return f"(LSet {C.coq_string(el['key'])} {coq_expr(el['expression'])} {C.coq_Z(int(el.get('_next', 1)))})"
    if t == "if":
        _only(el, ["expression", "_next_else"])
        return f"(LIf {coq_expr(el['expression'])} {C.coq_Z(int(el['_next_else']))})"
    if t == "while":
        # _next_on_break is the while's own field here
        extra = set(el) - {"_type", "expression", "_next", "_next_on_break", "_next_on_continue", "_source_mapping"}
        if extra:
            raise Unsupported(f"while has unexpected keys {sorted(extra)}")
        return (f"(LWhile {coq_expr(el['expression'])} {C.coq_Z(int(el.get('_next', 1)))} "
                f"{C.coq_Z(int(el['_next_on_break']))})")
    if t == "jump":
        _only(el, ["_next", "_absolute", "_label", "_label_value", "_return_values"])
        lab = el.get("_label")
        return (f"(LJump {C.coq_Z(int(el['_next']))} {C.coq_bool(bool(el.get('_absolute')))} "
                f"{coq_opt_str(lab)})")
    if t == "break":
        _only(el, [])
        return f"(LBreak {C.coq_Z(int(el.get('_next_on_break', 1)))})"
    if t == "continue":
        _only(el, [])
        return f"(LContinue {C.coq_Z(int(el.get('_next_on_continue', 1)))})"
    if t == "check":
        _only(el, ["expression", "_next"])
        return f"(LCheck {coq_expr(el['expression'])} {C.coq_Z(int(el.get('_next', 1)))})"
    if t == "stop":
        _only(el, [])
        return "LStop"
    if t == "flow":
        _only(el, ["flow_name", "flow_parameters", "return_vars"])
        n = el["flow_name"]
        if not isinstance(n, str) or any(ch in n for ch in "()$"):
            raise Unsupported("flow_name with parameters / variable")
        return f"(LFlow {C.coq_string(n)})"
    if t == "branch":
        _only(el, ["branch_heads"])
        return "(LBranch " + C.coq_list([C.coq_Z(int(h)) for h in el["branch_heads"]]) + ")"
    if t == "meta":
        return "LMeta"
    if t in ELEMENT_TYPES or t in SPECIAL_EVENT_TYPES or t in ("UtteranceUserActionFinished", "StartUtteranceBotAction"):
        raise Unsupported("element type " + t)
    props = {k: v for k, v in el.items() if k not in ("_type",) and k not in _IGNORED_KEYS}
    return f"(LEvent {C.coq_string(t)} {coq_kvs(props)})"


def coq_Q(x):
    from fractions import Fraction
    f = Fraction(repr(float(x))) if not isinstance(x, int) else Fraction(x)
    return f"({f.numerator} # {f.denominator})%Q"


def coq_config(fc):
    els = C.coq_list([coq_elem(e) for e in fc["elements"]])
    return ("{| fc_id := %s; fc_elems := %s; fc_priority := %s; fc_extension := %s; fc_interruptible := %s; "
            "fc_subflow := %s; fc_multiple := %s; fc_triggers := %s |}") % (
        C.coq_string(fc["id"]), els, coq_Q(fc["priority"]), C.coq_bool(fc["is_extension"]),
        C.coq_bool(fc["is_interruptible"]), C.coq_bool(fc["is_subflow"]), C.coq_bool(fc["allow_multiple"]),
        C.coq_list([C.coq_string(s) for s in fc["trigger_event_types"]]))


def coq_configs(fcs):
    return C.coq_list([coq_config(fc) for fc in fcs])


def coq_event(ev):
    t = ev["type"]
    if t == "UserIntent":
        return f"(EvUser {C.coq_string(ev['intent'])})"
    if t == "BotIntent":
        return f"(EvBot {C.coq_string(ev['intent'])})"
    if t == "InternalSystemActionFinished":
        return f"(EvActFin {C.coq_string(ev['action_name'])} {C.coq_bool(ev['status'] == 'success')})"
    if t == "StartInternalSystemAction":
        return "EvStartAct"
    if t == "ContextUpdate":
        if set(ev["data"]) & RESERVED_VARS:
            raise Unsupported("ContextUpdate of a reserved key")
        return f"(EvCtx {coq_kvs(ev['data'])})"
    if t == "hide_prev_turn":
        return "EvHide"
    if t in ELEMENT_TYPES:
        raise Unsupported("event type named like an element type")
    props = {k: v for k, v in ev.items() if k != "type"}
    return f"(EvOther {C.coq_string(t)} {coq_kvs(props)})"


def coq_expect(r):
    if r[0] == "raise":
        return "XRaise"
    outs = []
    for s in r[1]:
        if s[0] == "ctx":
            outs.append("(OCtx " + C.coq_list([f"({C.coq_string(k)}, {coq_value(v)})" for k, v in s[1]]) + ")")
        elif s[0] == "bot":
            outs.append(f"(OBot {C.coq_string(s[1])})")
        elif s[0] == "act":
            outs.append(f"(OAct {C.coq_string(s[1])} {C.coq_string(s[2])} {coq_opt_str(s[3])})")
        else:
            raise Unsupported("next step " + str(s))
    return "(XSteps " + C.coq_list(outs) + ")"


# =======================================================================================
# structured programs: generator, Colang text, Coq term

def coq_stmt(s):
    k = s[0]
    if k == "user":
        return f"(SUser {C.coq_string(s[1])})"
    if k == "bot":
        return f"(SBot {C.coq_string(s[1])})"
    if k == "exec":
        return f"(SExec {C.coq_string(s[1])} {C.coq_string(canon_params(s[2]))} {coq_opt_str(s[3])})"
    if k == "set":
        return f"(SSet {C.coq_string(s[1])} {coq_expr(s[2])})"
    if k == "if":
        return f"(SIf {coq_expr(s[1])} {coq_block(s[2])} {coq_block(s[3])})"
    if k == "while":
        return f"(SWhile {coq_expr(s[1])} {coq_block(s[2])})"
    if k == "break":
        return "SBreak"
    if k == "continue":
        return "SContinue"
    if k == "do":
        return f"(SDo {C.coq_string(s[1])})"
    raise Unsupported("statement " + str(k))


def coq_block(b):
    return C.coq_list([coq_stmt(s) for s in b])


def coq_prog(p):
    subs = C.coq_list([f"({C.coq_string(n)}, {coq_block(b)})" for n, b in p["subs"]])
    return f"{{| p_id := {C.coq_string(p['id'])}; p_main := {coq_block(p['main'])}; p_subs := {subs} |}}"


def lit(v):
    if isinstance(v, str):
        return v if v.startswith("$") else '"' + v + '"'
    return repr(v)


def colang_block(b, ind, out):
    pad = " " * ind
    for s in b:
        k = s[0]
        if k == "user":
            out.append(f"{pad}user {s[1]}")
        elif k == "bot":
            out.append(f"{pad}stop" if s[1] == "stop" else f"{pad}bot {s[1]}")
        elif k == "exec":
            args = ", ".join(f"{a}={lit(v)}" for a, v in s[2].items())
            call = f"execute {s[1]}" + (f"({args})" if args else "")
            out.append(f"{pad}${s[3]} = {call}" if s[3] else f"{pad}{call}")
        elif k == "set":
            out.append(f"{pad}${s[1]} = {s[2]}")
        elif k == "if":
            # an `if` whose else part is exactly one `if` and that carries the "elif" marker is
            # written as an `else if` chain (the parser desugars it back to the nested form)
            cur, kw = s, "if"
            while True:
                out.append(f"{pad}{kw} {cur[1]}")
                colang_block(cur[2], ind + 2, out)
                if len(cur) > 4 and cur[4] == "elif" and len(cur[3]) == 1 and cur[3][0][0] == "if":
                    cur, kw = cur[3][0], "else if"
                    continue
                if cur[3]:
                    out.append(f"{pad}else")
                    colang_block(cur[3], ind + 2, out)
                break
        elif k == "while":
            out.append(f"{pad}while {s[1]}")
            colang_block(s[2], ind + 2, out)
        elif k in ("break", "continue"):
            out.append(pad + k)
        elif k == "do":
            out.append(f"{pad}do {s[1]}")
        else:
            raise Unsupported(k)


def colang_text(p):
    out = [f"define flow {p['id']}"]
    colang_block(p["main"], 2, out)
    for n, b in p["subs"]:
        out.append("")
        out.append(f"define subflow {n}")
        colang_block(b, 2, out)
    return "\n".join(out) + "\n"


class Gen:
    """Structured programs of nesting depth <= 4: distinct intents, counter-bounded loops, subflow DAG."""

    def __init__(self, rng, tight_p=0.07):
        self.rng = rng
        self.tight_p = tight_p

    def program(self):
        rng = self.rng
        self.nu = self.nb = self.na = self.nc = 0
        self.loopvar = None
        self.ntight = 0
        self.vars = ["x", "y", "s", "b"]
        self.stats = {"if": 0, "while": 0, "do": 0, "break": 0, "continue": 0, "exec": 0, "set": 0, "depth": 0}
        nsubs = rng.choice([0, 0, 1, 1, 2, 2, 3, 3, 4])
        self.sub_names = [f"sub {chr(ord('a') + i)}" for i in range(nsubs)]
        subs = []
        # subflow i may only call subflows j > i (no recursion)
        for i in reversed(range(nsubs)):
            self.callable = self.sub_names[i + 1:]
            body = self.block(rng.choice([1, 2, 2, 3]), rng.randint(1, 4), False, True)
            # subflows that start by calling another subflow / by waiting for the user
            if self.callable and rng.random() < 0.35:
                body.insert(0, ["do", rng.choice(self.callable)])
                self.stats["do"] += 1
            elif rng.random() < 0.3:
                body.insert(0, ["user", self.user()])
            # tail calls: the LAST statement of a subflow is a `do` (chains sub a -> sub b -> ...),
            # possibly after statements that do not block
            if self.callable and rng.random() < 0.45:
                nxt = self.callable[0] if rng.random() < 0.6 else rng.choice(self.callable)
                body.append(["do", nxt])
                self.stats["do"] += 1
                self.stats["tail_do"] = self.stats.get("tail_do", 0) + 1
                if rng.random() < 0.25:
                    body.append(self.setstmt())
            subs.insert(0, [self.sub_names[i], body])
        self.callable = list(self.sub_names)
        maxd = rng.choice([1, 2, 2, 3, 3, 4])
        main = [["user", self.user()]]
        if rng.random() < 0.75:
            main += self.inits()
        main += self.block(maxd, rng.randint(1, 5), False, False)
        # a long tight loop (only set / if in the body): many sliding steps inside ONE slide() call
        if rng.random() < self.tight_p:
            pos = rng.randint(1, len(main))
            main[pos:pos] = self.tight_loop()
        # a call whose caller has more to do afterwards
        if self.sub_names and rng.random() < 0.6:
            pos = rng.randint(1, len(main))
            main[pos:pos] = [["do", rng.choice(self.sub_names[:2])], rng.choice([["bot", self.botn()], ["user", self.user()]])]
            self.stats["do"] += 1
        return {"id": "main flow", "main": main, "subs": subs, "stats": dict(self.stats)}

    def tight_loop(self):
        """`$t = 0; while $t < B: $t = $t + 1; <set / if only>` with B in 50..500, or two nested counters."""
        rng = self.rng
        self.ntight += 1
        self.stats["tight"] = self.stats.get("tight", 0) + 1
        t = f"t{self.ntight}"

        def filler(v):
            return rng.choice([
                [["set", "y", f"${v}"]],
                [["set", "x", "$x + 1"]],
                [["if", f"${v} == {rng.choice([7, 30, 61, 120])}", [["set", "b", "True"]], [["set", "q", f"${v}"]]]],
                [["if", f"${v} > 40", [["set", "y", "1"]], []], ["set", "s", '"a"']],
            ])

        if rng.random() < 0.7:
            bound = rng.choice([50, 64, 70, 90, 130, 200, 260, 500])
            return [["set", t, "0"], ["while", f"${t} < {bound}", [["set", t, f"${t} + 1"]] + filler(t)]]
        t2 = t + "i"
        outer, inner = rng.choice([(5, 30), (8, 20), (12, 12), (20, 10)])
        return [["set", t, "0"],
                ["while", f"${t} < {outer}",
                 [["set", t, f"${t} + 1"], ["set", t2, "0"],
                  ["while", f"${t2} < {inner}", [["set", t2, f"${t2} + 1"]] + filler(t2)]]]]

    def user(self):
        self.nu += 1
        return f"ask u{self.nu}"

    def botn(self):
        self.nb += 1
        return f"say b{self.nb}"

    def inits(self):
        rng = self.rng
        out = []
        for v in rng.sample(["x", "y", "s", "b"], rng.randint(1, 4)):
            out.append(["set", v, self.const_for(v)])
            self.stats["set"] += 1
        return out

    def const_for(self, v):
        rng = self.rng
        if v in ("x", "y"):
            return str(rng.choice([0, 0, 1, 2, 3, -1]))
        if v == "s":
            return rng.choice(['"a"', '"ab"', '""', '"abc"'])
        return rng.choice(["True", "False"])

    def cond(self):
        rng = self.rng
        atoms = ["$x == %d" % rng.choice([0, 1, 2]), "$x < %d" % rng.choice([1, 2, 3]), "$y <= %d" % rng.choice([0, 1, 2]),
                 "$y > %d" % rng.choice([0, 1]), "$b", "not $b", '$s == "a"', "len($s) > 1", "$x + $y > 1",
                 "$r", "$r == 1", "$x", "$s", "$y != 0", "$x >= $y", '$s[0] == "a"', "$r is None", "$q is not None",
                 "$x == True", "$y - $x < 1"]
        a = rng.choice(atoms)
        r = rng.random()
        if r < 0.2:
            return f"{a} and {rng.choice(atoms)}"
        if r < 0.35:
            return f"{a} or {rng.choice(atoms)}"
        if r < 0.4:
            return f"not ({a})"
        return a

    def setstmt(self):
        rng = self.rng
        v = rng.choice(["x", "y", "s", "b", "q"])
        self.stats["set"] += 1
        if v in ("x", "y"):
            e = rng.choice(["$x + 1", "$y + 1", "$x + $y", "0", "1", "2", "$x - 1", "len($s)", "$x + True"])
        elif v == "s":
            e = rng.choice(['$s + "a"', '"a"', '""', '"abc"', "$s[0]", '$s or "d"'])
        elif v == "b":
            e = rng.choice(["True", "False", "not $b", "$x == 1", "$x < $y", "$b and $x"])
        else:
            e = rng.choice(["None", "1", "$q", "$r", "$q + $q"])
        return ["set", v, e]

    def block(self, depth, n, inloop, insub):
        rng = self.rng
        self.stats["depth"] = max(self.stats["depth"], 5 - depth if depth <= 4 else 0)
        out = []
        for _ in range(n):
            r = rng.random()
            if r < 0.22:
                out.append(["bot", self.botn()])
            elif r < 0.40:
                out.append(["user", self.user()])
            elif r < 0.52:
                out.append(self.setstmt())
            elif r < 0.60:
                self.na += 1
                self.stats["exec"] += 1
                key = rng.choice([None, "r", "r", "q"])
                params = rng.choice([{}, {"p": 1}, {"p": "v", "n": 2}, {"a": "$x"}, {"a": "$x", "b": "$y"},
                                     {"a": "$r", "k": 2}, {"a": "$s", "b": "$nope"}]
                                    + ([{"a": "$" + self.loopvar, "b": "$x"}] * 2 if self.loopvar else []))
                out.append(["exec", f"act{self.na}", params, key])
            elif r < 0.75 and depth > 0:
                self.stats["if"] += 1
                t = self.block(depth - 1, rng.randint(1, 3), inloop, insub)
                e = self.block(depth - 1, rng.randint(1, 3), inloop, insub) if rng.random() < 0.55 else []
                node = ["if", self.cond(), t, e]
                if rng.random() < 0.4:
                    # an `else if` chain of 2-4 conditions, with or without a final else
                    self.stats["elif"] = self.stats.get("elif", 0) + 1
                    for _k in range(rng.choice([1, 1, 2, 3])):
                        self.stats["if"] += 1
                        node = ["if", self.cond(), self.block(depth - 1, rng.randint(1, 2), inloop, insub), [node], "elif"]
                out.append(node)
            elif r < 0.87 and depth > 0:
                self.stats["while"] += 1
                self.nc += 1
                c = f"c{self.nc}"
                bound = rng.choice([1, 2, 2, 3])
                saved, self.loopvar = self.loopvar, c
                body = [["set", c, f"${c} + 1"]] + self.block(depth - 1, rng.randint(1, 3), True, insub)
                self.loopvar = saved
                extra = rng.choice(["", "", " and $x < 3", " and not $b"])
                out.append(["set", c, "0"])
                out.append(["while", f"${c} < {bound}{extra}", body])
            elif r < 0.92 and inloop:
                k = rng.choice(["break", "continue"])
                self.stats[k] += 1
                # usually guarded, so that the rest of the body is reachable
                if rng.random() < 0.7 and depth > 0:
                    out.append(["if", self.cond(), [[k]], []])
                else:
                    out.append([k])
            elif r < 0.98 and self.callable:
                self.stats["do"] += 1
                out.append(["do", rng.choice(self.callable)])
            elif r < 0.985 and insub:
                # `do` may name the dialog flow itself (it then waits for its first user statement)
                self.stats["do"] += 1
                out.append(["do", "main flow"])
            else:
                out.append(["bot", self.botn()])
        if self.callable and rng.random() < 0.12:
            self.stats["do"] += 1
            self.stats["tail_do"] = self.stats.get("tail_do", 0) + 1
            out.append(["do", rng.choice(self.callable)])
        return out


def prog_intents(p):
    users, bots, acts = [], [], []

    def walk(b):
        for s in b:
            if s[0] == "user":
                users.append(s[1])
            elif s[0] == "bot":
                bots.append(s[1])
            elif s[0] == "exec":
                acts.append(s[1])
            elif s[0] == "if":
                walk(s[2]); walk(s[3])
            elif s[0] == "while":
                walk(s[2])

    walk(p["main"])
    for _n, b in p["subs"]:
        walk(b)
    return users, bots, acts


def prog_size(p):
    def sz(b):
        return sum(1 + (sz(s[2]) + sz(s[3]) if s[0] == "if" else sz(s[2]) if s[0] == "while" else 0) for s in b)
    return sz(p["main"]) + sum(sz(b) for _n, b in p["subs"])


def prog_depth(p):
    def dp(b):
        m = 0
        for s in b:
            if s[0] == "if":
                m = max(m, 1 + max(dp(s[2]), dp(s[3])))
            elif s[0] == "while":
                m = max(m, 1 + dp(s[2]))
        return m
    return max([dp(p["main"])] + [dp(b) for _n, b in p["subs"]])


# =======================================================================================
# the direct oracle: the property text re-stated as an ordinary Python program

class _Break(Exception):
    pass


class _Continue(Exception):
    pass


class OracleBudget(Exception):
    pass


TRIGGERS = ("UserIntent", "BotIntent", "run_action", "InternalSystemActionFinished")


class Oracle:
    """Runs the structured SOURCE the way any structured program runs: Python generators give
    sequencing / if / while / break / continue / calls for free; the driver implements the
    dialogue protocol of the property text."""

    def __init__(self, prog):
        self.prog = prog
        self.subs = dict((n, b) for n, b in prog["subs"])
        self.subs.setdefault(prog["id"], prog["main"])      # `do` may name the dialog flow itself

    _CODE = {}

    def ev(self, expr):
        c = Oracle._CODE.get(expr)
        if c is None:
            c = (compile(_VAR_RE.sub(r"var_\1", expr).strip(), "<expr>", "eval"), _VAR_RE.findall(expr))
            Oracle._CODE[expr] = c
        names = {"var_" + m: self.ctx.get(m) for m in c[1]}
        return eval(c[0], {"__builtins__": {}, "len": len}, names)

    def run_block(self, b):
        for s in b:
            self.budget -= 1
            if self.budget < 0:
                raise OracleBudget()
            k = s[0]
            if k in ("user", "bot", "exec"):
                yield s
            elif k == "set":
                v = self.ev(s[2])
                self.ctx[s[1]] = v
                self.upd[s[1]] = v
            elif k == "if":
                if self.ev(s[1]):
                    yield from self.run_block(s[2])
                else:
                    yield from self.run_block(s[3])
            elif k == "while":
                while self.ev(s[1]):
                    self.budget -= 1
                    if self.budget < 0:
                        raise OracleBudget()
                    try:
                        yield from self.run_block(s[2])
                    except _Break:
                        break
                    except _Continue:
                        continue
            elif k == "break":
                raise _Break()
            elif k == "continue":
                raise _Continue()
            elif k == "do":
                self.depth += 1
                yield from self.run_block(self.subs[s[1]])
                self.depth -= 1

    @staticmethod
    def actionable(w):
        return w[0] in ("bot", "exec") and not (w[0] == "bot" and w[1] == "...")

    @staticmethod
    def matches(w, ev):
        t = ev["type"]
        if w[0] == "user":
            return t == "UserIntent" and ev["intent"] == w[1]
        if w[0] == "bot":
            return t == "BotIntent" and ev["intent"] == w[1]
        return t == "InternalSystemActionFinished" and ev["status"] == "success" and ev["action_name"] == w[1]

    def advance(self):
        before = self.depth
        try:
            self.wait = next(self.gen)
            self.next = self.wait if self.actionable(self.wait) else None
            if self.depth >= 2 and self.next is None:
                self.flags.add("nested-call-blocked")
        except StopIteration:
            self.gen = None
            self.wait = None
            self.next = None
        if before - self.depth >= 2:
            self.flags.add("stack-unwound-two-levels")

    def run(self, history):
        """-> ("steps", [...]) | ("raise",) ; also leaves self.wait (what the flow waits on), self.flags."""
        self.ctx, self.upd, self.gen, self.wait, self.next = {}, {}, None, None, None
        self.budget = 60000
        self.depth = 0
        self.flags = set()
        actual = []
        try:
            for ev in history:
                if ev["type"] == "hide_prev_turn":
                    idx = [i for i, e in enumerate(actual) if e["type"] == "UtteranceUserActionFinished"]
                    if not idx:
                        return ("raise",)
                    actual = actual[:idx[-1]]
                else:
                    actual.append(ev)
            for ev in actual:
                t = ev["type"]
                if t == "StartInternalSystemAction":
                    continue
                if t == "ContextUpdate":
                    self.ctx.update(ev["data"])
                    self.upd = {}
                    self.next = None
                    continue
                self.upd = {}
                self.next = None
                if self.gen is None:
                    first = self.prog["main"][0]
                    if self.matches(first, ev):
                        self.depth = 0
                        self.gen = self.run_block(self.prog["main"][1:])
                        self.advance()
                        if self.gen is None:
                            self.flags.add("finished-in-starting-event")
                elif t not in TRIGGERS:
                    self.next = self.wait if self.actionable(self.wait) else None
                elif self.matches(self.wait, ev):
                    self.advance()
                elif self.actionable(self.wait):
                    if self.depth >= 2:
                        self.flags.add("stack-unwound-two-levels")
                    self.gen.close()
                    self.gen, self.wait = None, None
                if t == "BotIntent" and ev["intent"] == "stop":
                    if self.gen is not None:
                        self.gen.close()
                    self.gen, self.wait = None, None
        except OracleBudget:
            raise
        except (_Break, _Continue):
            return ("raise",)
        except Exception:
            return ("raise",)
        steps = []
        if self.upd:
            steps.append(["ctx", [[k, v] for k, v in self.upd.items()]])
        if self.next is not None:
            w = self.next
            if w[0] == "bot":
                steps.append(["bot", w[1]])
            else:
                steps.append(["act", w[1], canon_params(w[2]), w[3]])
        if actual and actual[-1]["type"] == "BotIntent" and actual[-1]["intent"] == "stop":
            steps = []
        return ("steps", steps)


# =======================================================================================
# histories

def follow_step(rng, prog, oracle, h, noise=1.0):
    """Append to h the event(s) the flow waits for (as the runtime would produce them)."""
    first = prog["main"][0][1]
    r = oracle.run(h)
    if r[0] == "raise":
        return False
    w = oracle.wait
    if w is None:
        if rng.random() < 0.3 * noise:
            h.append({"type": "UtteranceUserActionFinished", "final_transcript": "hi"})
        if rng.random() < 0.2 * noise:
            h.append({"type": "UserMessage", "text": "hi"})
        h.append({"type": "UserIntent", "intent": first})
        return True
    # the runtime appends the ContextUpdate it returned
    if r[1] and r[1][0][0] == "ctx" and rng.random() < 0.7:
        h.append({"type": "ContextUpdate", "data": {k: v for k, v in r[1][0][1]}})
    if w[0] == "user":
        if rng.random() < 0.25 * noise:
            h.append({"type": "UtteranceUserActionFinished", "final_transcript": "t"})
        h.append({"type": "UserIntent", "intent": w[1]})
    elif w[0] == "bot":
        h.append({"type": "BotIntent", "intent": w[1]})
        if rng.random() < 0.25 * noise:
            h.append({"type": "StartUtteranceBotAction", "script": "s"})
    else:
        h.append({"type": "StartInternalSystemAction", "action_name": w[1], "action_params": w[2],
                  "action_result_key": w[3]})
        if w[3] is not None and rng.random() < 0.85:
            val = rng.choice([1, 0, True, False, None, "a", "", [1, 2], 2])
            h.append({"type": "ContextUpdate", "data": {w[3]: val}})
        h.append({"type": "InternalSystemActionFinished", "action_name": w[1], "status": "success"})
    return True


def gen_leave_family(rng, prog, oracle, dist, max_points=8):
    """One walk that follows the flow; at every point where the flow waits INSIDE a subflow (call
    depth >= 1) a history that leaves there (unknown / other known user intent / wrong bot
    intent), then comes back: the first intent again and two more steps.  Prefixes are shared
    with the walk, so each leave point costs only a few new cases."""
    users, bots, _acts = prog_intents(prog)
    first = prog["main"][0][1]
    walk, out, points = [], [], []
    for _ in range(16):
        if not follow_step(rng, prog, oracle, walk, noise=0.0):
            break
        r = oracle.run(walk)
        if r[0] == "raise":
            break
        if oracle.wait is not None and oracle.depth >= 1:
            points.append((len(walk), oracle.depth))
    out.append(list(walk))
    if len(points) > max_points:
        # keep the deepest points, then a random sample of the others
        points.sort(key=lambda t: -t[1])
        points = points[:max_points // 2] + rng.sample(points[max_points // 2:], max_points - max_points // 2)
    for n, depth in points:
        h = list(walk[:n])
        kind = rng.choice(["leave-unknown", "leave-known", "wrong-bot"])
        dist["nested-" + kind] = dist.get("nested-" + kind, 0) + 1
        dist["nested-leave-depth-%d" % min(depth, 4)] = dist.get("nested-leave-depth-%d" % min(depth, 4), 0) + 1
        if kind == "leave-unknown" or (kind == "leave-known" and not users):
            h.append({"type": "UserIntent", "intent": "ask unknown"})
        elif kind == "leave-known":
            h.append({"type": "UserIntent", "intent": rng.choice(users)})
        else:
            h.append({"type": "BotIntent", "intent": rng.choice(bots + ["say unknown"])})
        h.append({"type": "UserIntent", "intent": first})
        for _ in range(2):
            if not follow_step(rng, prog, oracle, h, noise=0.0):
                break
        out.append(h[:48])
    return out


def gen_history(rng, prog, oracle, dist):
    users, bots, acts = prog_intents(prog)
    h = []
    first = prog["main"][0][1]

    def follow_one():
        return follow_step(rng, prog, oracle, h)

    def tail():
        kind = rng.choice(["continue", "continue", "leave-known", "leave-known", "leave-unknown", "repeat",
                           "wrong-bot", "noise", "ctx", "act-failed", "bot-stop", "hide", "restart-intent", "other-act"])
        dist[kind] = dist.get(kind, 0) + 1
        if kind == "continue":
            return
        if kind == "leave-known" and users:
            h.append({"type": "UserIntent", "intent": rng.choice(users)})
        elif kind == "leave-unknown":
            h.append({"type": "UserIntent", "intent": "ask unknown"})
        elif kind == "repeat" and h:
            h.append(dict(h[-1]))
        elif kind == "wrong-bot":
            h.append({"type": "BotIntent", "intent": rng.choice(bots + ["say unknown"])})
        elif kind == "noise":
            t = rng.choice(NOISE_TYPES)
            h.append({"type": t, "text": "x"} if t == "UserMessage" else {"type": t, "script": "x"} if t == "StartUtteranceBotAction" else {"type": t})
        elif kind == "ctx":
            v = rng.choice(["x", "y", "s", "b", "r", "q"])
            val = {"x": rng.choice([0, 1, 2, None]), "y": rng.choice([0, 1, 5]), "s": rng.choice(["a", "", "abc", None]),
                   "b": rng.choice([True, False]), "r": rng.choice([1, 0, None, "a"]), "q": rng.choice([None, [1], 3])}[v]
            h.append({"type": "ContextUpdate", "data": {v: val}})
        elif kind == "act-failed" and acts:
            h.append({"type": "InternalSystemActionFinished", "action_name": rng.choice(acts), "status": "failed"})
        elif kind == "other-act":
            h.append({"type": "InternalSystemActionFinished", "action_name": rng.choice(acts + ["other_action"]), "status": "success"})
        elif kind == "bot-stop":
            h.append({"type": "BotIntent", "intent": "stop"})
        elif kind == "hide":
            h.append({"type": "hide_prev_turn"})
        elif kind == "restart-intent":
            h.append({"type": "UserIntent", "intent": first})

    k = rng.choice([1, 2, 3, 4, 5, 6, 8, 10, 14])
    for _ in range(k):
        if not follow_one():
            break
    tail()
    if rng.random() < 0.5:
        for _ in range(rng.randint(1, 4)):
            if not follow_one():
                break
        if rng.random() < 0.4:
            tail()
    return h[:40]


# =======================================================================================
# the implementation side (child process)

def canon_steps(steps):
    out = []
    for e in steps:
        t = e["type"]
        if t == "ContextUpdate":
            out.append(["ctx", [[k, v] for k, v in e["data"].items()]])
        elif t == "BotIntent":
            out.append(["bot", e["intent"]])
        elif t == "StartInternalSystemAction":
            out.append(["act", e["action_name"], canon_params(e["action_params"]), e["action_result_key"]])
        else:
            out.append(["other", t])
    return out


class _Budget(BaseException):
    pass


def _worker(inp, outp):
    """Reads {"programs": [{"text":..., "histories": [[...], ...]}]}; writes one JSON line per program."""
    import copy
    import signal
    sys.path.insert(0, C.REPO)
    from nemoguardrails.colang.v1_0.lang.parser import parse_colang_file
    from nemoguardrails.colang.v1_0.runtime.runtime import RuntimeV1_0
    from nemoguardrails.colang.v1_0.runtime.flows import compute_next_steps

    class Stub:
        pass

    def build(text):
        data = parse_colang_file("gen.co", text)
        st = Stub()
        st.flow_configs = {}
        for f in data["flows"]:
            RuntimeV1_0._load_flow_config(st, f)
        return st.flow_configs

    def dump_cfgs(fcs):
        out = []
        for fc in fcs.values():
            out.append({"id": fc.id, "elements": copy.deepcopy(fc.elements), "priority": fc.priority,
                        "is_extension": fc.is_extension, "is_interruptible": fc.is_interruptible,
                        "is_subflow": fc.is_subflow, "allow_multiple": fc.allow_multiple,
                        "trigger_event_types": list(fc.trigger_event_types)})
        return out

    armed = [False]

    def on_alarm(_s, _f):
        # repeating timer: SimpleEval.__del__ runs in the loop we want to leave, and an exception
        # raised inside a __del__ is swallowed - one shot would be lost
        if armed[0]:
            raise _Budget()

    signal.signal(signal.SIGVTALRM, on_alarm)      # CPU time of this process: a loaded machine is not a hang

    def call_inner(h, fcs):
        armed[0] = True
        signal.setitimer(signal.ITIMER_VIRTUAL, 3.0, 0.05)
        try:
            r = compute_next_steps(copy.deepcopy(h), fcs, None, [])
            armed[0] = False
            return ["steps", canon_steps(r)]
        except _Budget:
            armed[0] = False
            return ["hang"]
        except Exception as e:
            armed[0] = False
            return ["raise", type(e).__name__ + ": " + str(e)[:120]]

    def call(h, fcs):
        try:
            try:
                return call_inner(h, fcs)
            except _Budget:
                armed[0] = False
                return ["hang"]
        except _Budget:
            armed[0] = False
            return ["hang"]
        finally:
            armed[0] = False
            signal.setitimer(signal.ITIMER_VIRTUAL, 0)

    job = json.load(open(inp))
    with open(outp, "w") as out:
        for pr in job["programs"]:
            rec = {"idx": pr["idx"]}
            try:
                shared = build(pr["text"])
                rec["configs"] = dump_cfgs(shared)
            except Exception as e:
                rec["parse_error"] = type(e).__name__ + ": " + str(e)[:200]
                out.write(json.dumps(rec) + "\n")
                out.flush()
                continue
            res = []
            hung = 0
            for h in pr["histories"]:
                if hung >= 2:          # this program makes the implementation spin: do not pay for every prefix
                    res.append([["skipped"], ["skipped"], ["skipped"]])
                    continue
                r1 = call(h, shared)
                if r1[0] == "hang":
                    hung += 1
                r2 = call(h, shared) if r1[0] != "hang" else r1
                r3 = call(h, build(pr["text"])) if r1[0] != "hang" else r1
                res.append([r1, r2, r3])
            rec["results"] = res
            out.write(json.dumps(rec, default=str) + "\n")
            out.flush()


def run_impl(programs, tag, timeout, mode="--worker"):
    """programs: [{"idx", "text", "histories"}] -> {idx: record}.  Child processes under `timeout`."""
    tmp = os.path.join(C.BUILD, "c14", tag)
    os.makedirs(tmp, exist_ok=True)
    n = max(1, min(C.NPROC, len(programs)))
    chunks = [programs[i::n] for i in range(n)]

    def one(i):
        inp = os.path.join(tmp, f"in_{i}.json")
        outp = os.path.join(tmp, f"out_{i}.jsonl")
        json.dump({"programs": chunks[i]}, open(inp, "w"))
        if os.path.exists(outp):
            os.remove(outp)
        env = dict(os.environ)
        env.update(C.impl_env())
        env["VERIF_REPO"] = C.REPO
        rc = subprocess.run(["timeout", str(timeout), C.PY, "-m", "harness.c14", mode, inp, outp],
                            cwd=C.VERIF, env=env, stdout=subprocess.PIPE, stderr=subprocess.STDOUT, text=True)
        recs = {}
        if os.path.exists(outp):
            for line in open(outp):
                try:
                    d = json.loads(line)
                    recs[d["idx"]] = d
                except Exception:
                    pass
        return rc.returncode, rc.stdout[-2000:], recs

    out, errs = {}, []
    with ThreadPoolExecutor(max_workers=n) as ex:
        for rc, log, recs in ex.map(one, range(n)):
            out.update(recs)
            if rc != 0:
                errs.append(f"worker rc={rc}: {log}")
    return out, errs



# =======================================================================================
# the layer above compute_next_steps: RuntimeV1_0.generate_events with scripted actions

def scripted_return(name, kwargs):
    """What the scripted action `name` returns: a pure function of its name and RESOLVED arguments."""
    vals = [v for _k, v in sorted(kwargs.items())]
    ints = [v for v in vals if isinstance(v, int) and not isinstance(v, bool)]
    return (sum(ints) + len(vals) + len(name)) % 5


def canon_gevent(e):
    t = e["type"]
    if t == "ContextUpdate":
        return ["ctx", [[k, v] for k, v in e["data"].items()]]
    if t == "BotIntent":
        return ["bot", e["intent"]]
    if t == "StartInternalSystemAction":
        return ["start", e["action_name"], canon_params(e["action_params"]), e["action_result_key"]]
    if t == "InternalSystemActionFinished":
        return ["fin", e["action_name"], e["status"], e.get("return_value")]
    if t == "Listen":
        return ["listen"]
    return ["other", t]


def g_oracle_turn(oracle, events):
    """The structured semantics in closed loop: what generate_events must add to `events`
    (events[-1] is the new user event): decided steps are carried out - bot intents happen,
    `execute` calls the action with its `$var` arguments replaced by the values the context
    holds, its result is stored under the result key - until nothing is decided.
    -> (new events, canonical action calls) or raises OracleRaise."""
    events = list(events)
    new, calls = [], []
    while True:
        last = events[-1]
        if last["type"] == "StartInternalSystemAction":
            ctx = {"last_user_message": None, "last_bot_message": None}
            for e in events:
                if e["type"] == "ContextUpdate":
                    ctx.update(e["data"])
            ctx["event"] = last
            kwargs = dict(last["action_params"])
            for k, v in kwargs.items():
                if isinstance(v, str) and v.startswith("$") and v[1:] in ctx:
                    kwargs[k] = ctx[v[1:]]
            ret = scripted_return(last["action_name"], kwargs)
            calls.append([last["action_name"], canon_params(kwargs)])
            nxt = []
            key = last["action_result_key"]
            if key and ctx.get(key) != ret:
                nxt.append({"type": "ContextUpdate", "data": {key: ret}})
            nxt.append({"type": "InternalSystemActionFinished", "action_name": last["action_name"],
                        "status": "success", "return_value": ret})
        else:
            r = oracle.run(events)
            if r[0] == "raise":
                raise OracleRaise()
            nxt = []
            for st in r[1]:
                if st[0] == "ctx":
                    nxt.append({"type": "ContextUpdate", "data": {k: v for k, v in st[1]}})
                elif st[0] == "bot":
                    nxt.append({"type": "BotIntent", "intent": st[1]})
                else:
                    w = oracle.next
                    nxt.append({"type": "StartInternalSystemAction", "action_name": w[1], "action_params": dict(w[2]),
                                "action_result_key": w[3]})
            if not nxt:
                nxt = [{"type": "Listen"}]
        events.extend(nxt)
        new.extend(nxt)
        if nxt[-1]["type"] == "Listen":
            return new, calls
        if len(new) > 100:
            raise OracleRaise()


class OracleRaise(Exception):
    pass


def gen_conversation(rng, prog, oracle, dist):
    """User turns (each a list of events appended before generate_events is called) chosen with the
    oracle in closed loop, and the expected transcript: per turn [canonical new events, calls] or ["raise"]."""
    users, _bots, _acts = prog_intents(prog)
    first = prog["main"][0][1]
    events, turns, expected = [], [], []
    for _ in range(rng.randint(2, 6)):
        turn = []
        if rng.random() < 0.35:
            v = rng.choice(["x", "y", "x", "s"])
            val = rng.choice([0, 1, 2, 3, 7]) if v != "s" else rng.choice(["a", "", "abc"])
            turn.append({"type": "ContextUpdate", "data": {v: val}})
            dist["g-ctx-change"] = dist.get("g-ctx-change", 0) + 1
        oracle.run(events + turn)
        w = oracle.wait
        r = rng.random()
        if r < 0.75:
            intent = w[1] if (w is not None and w[0] == "user") else first
        elif r < 0.88:
            intent = "ask unknown"
        else:
            intent = rng.choice(users)
        turn.append({"type": "UserIntent", "intent": intent})
        turns.append(turn)
        events += turn
        try:
            new, calls = g_oracle_turn(oracle, events)
        except OracleRaise:
            expected.append(["raise"])
            break
        events += new
        expected.append([[canon_gevent(e) for e in new], calls])
    return turns, expected


def prog_actions(p):
    return sorted(set(prog_intents(p)[2]))


def _gworker(inp, outp):
    """Reads {"programs": [{"idx","text","actions","conversations":[turns,...]}]}; for every conversation
    three transcripts: twice on ONE RuntimeV1_0 instance shared by all conversations of the program,
    once on a fresh instance."""
    import asyncio
    import copy
    import logging
    import signal
    sys.path.insert(0, C.REPO)
    logging.disable(logging.CRITICAL)
    from nemoguardrails import RailsConfig
    from nemoguardrails.colang.v1_0.runtime.runtime import RuntimeV1_0

    calls = []

    def mk(name):
        def act(**kwargs):
            calls.append([name, canon_params(kwargs)])
            return scripted_return(name, kwargs)
        return act

    def build(text, actions):
        rt = RuntimeV1_0(config=RailsConfig.from_content(colang_content=text))
        for a in actions:
            rt.register_action(mk(a), a)
        return rt

    armed = [False]

    def on_alarm(_s, _f):
        if armed[0]:
            raise _Budget()

    signal.signal(signal.SIGVTALRM, on_alarm)      # CPU time of this process: a loaded machine is not a hang

    async def converse(rt, turns):
        events, transcript = [], []
        for turn in turns:
            events += copy.deepcopy(turn)
            del calls[:]
            try:
                new = await rt.generate_events(events)
            except _Budget:
                raise
            except Exception as e:
                transcript.append(["raise", type(e).__name__ + ": " + str(e)[:100]])
                break
            # snapshot at once: the events alias dicts of the flow configuration
            transcript.append([[canon_gevent(e) for e in new], list(calls)])
            events += new
        return json.loads(json.dumps(transcript, default=str))

    def run(rt, turns):
        armed[0] = True
        signal.setitimer(signal.ITIMER_VIRTUAL, 10.0, 0.05)
        try:
            try:
                return asyncio.run(converse(rt, turns))
            except _Budget:
                armed[0] = False
                return [["hang"]]
        except _Budget:
            armed[0] = False
            return [["hang"]]
        finally:
            armed[0] = False
            signal.setitimer(signal.ITIMER_VIRTUAL, 0)

    job = json.load(open(inp))
    with open(outp, "w") as out:
        for pr in job["programs"]:
            rec = {"idx": pr["idx"]}
            try:
                shared = build(pr["text"], pr["actions"])
            except Exception as e:
                rec["parse_error"] = type(e).__name__ + ": " + str(e)[:200]
                out.write(json.dumps(rec) + "\n")
                out.flush()
                continue
            first = [run(shared, t) for t in pr["conversations"]]
            second = [run(shared, t) for t in pr["conversations"]]
            fresh = [run(build(pr["text"], pr["actions"]), t) for t in pr["conversations"]]
            rec["results"] = [list(x) for x in zip(first, second, fresh)]
            out.write(json.dumps(rec, default=str) + "\n")
            out.flush()


def g_layer(out, rng, tier, replay_payload=None):
    """generate_events on real RuntimeV1_0 instances vs the structured semantics in closed loop."""
    info = {"programs": 0, "conversations": 0, "turns": 0, "action_calls": 0, "violations": 0, "dist": {}}
    progs = []
    corpus_dir = os.path.join(C.VERIF, "corpus", PID)
    if replay_payload is not None:
        progs.append((replay_payload["program"], [replay_payload["turns"]]))
    else:
        if os.path.isdir(corpus_dir):
            for fn in sorted(os.listdir(corpus_dir)):
                if fn.endswith(".json"):
                    d = json.load(open(os.path.join(corpus_dir, fn)))
                    d = d.get("replay", d)
                    if d.get("kind") == "gpair":
                        progs.append((d["program"], [d["turns"]]))
        n = 45 if tier == "quick" else 600
        if os.environ.get("C14_NGPROG"):
            n = int(os.environ["C14_NGPROG"])
        g = Gen(rng, tight_p=0.0)
        tries = 0
        while n > 0 and tries < 20 * n + 100:
            tries += 1
            p = g.program()
            if p["stats"].get("exec", 0) == 0:
                continue
            progs.append((p, None))
            n -= 1
    jobs, metas = [], []
    for i, (p, convs) in enumerate(progs):
        orc = Oracle(p)
        exp = []
        if convs is None:
            convs = []
            for _ in range(3):
                try:
                    turns, e = gen_conversation(rng, p, orc, info["dist"])
                except OracleBudget:
                    continue
                convs.append(turns)
                exp.append(e)
        else:
            for turns in convs:
                events, e = [], []
                for turn in turns:
                    events += turn
                    try:
                        new, calls = g_oracle_turn(orc, events)
                    except (OracleRaise, OracleBudget):
                        e.append(["raise"])
                        break
                    events += new
                    e.append([[canon_gevent(x) for x in new], calls])
                exp.append(e)
        try:
            text = colang_text(p)
        except Unsupported:
            continue
        jobs.append({"idx": i, "text": text, "actions": prog_actions(p), "conversations": convs})
        metas.append((i, p, text, convs, exp))
    if not jobs:
        return info
    recs, errs = run_impl(jobs, "glayer", 900 if tier == "quick" else 3600, mode="--gworker")
    for e in errs:
        out.add_broken("impl-worker(generate_events)", e)

    def norm(tr):
        return [t[:1] if t and t[0] == "raise" else t for t in tr]

    viol = []
    for i, p, text, convs, exp in metas:
        rec = recs.get(i)
        if rec is None:
            out.add_broken("impl-worker(generate_events)", f"no result for program #{i}")
            continue
        if "parse_error" in rec:
            out.findings.append(C.Finding("parser-rejects-structured-program", "RailsConfig/RuntimeV1_0 raised: " + rec["parse_error"],
                                          {"kind": "gpair", "program": p, "turns": [], "text": text}))
            continue
        info["programs"] += 1
        for turns, want, (r1, r2, r3) in zip(convs, exp, rec["results"]):
            info["conversations"] += 1
            info["turns"] += len(turns)
            info["action_calls"] += sum(len(t[1]) for t in want if len(t) == 2)
            payload = {"kind": "gpair", "program": p, "turns": turns, "text": text}
            n1, n2, n3, nw = norm(r1), norm(r2), norm(r3), norm(json.loads(json.dumps(want)))
            size = prog_size(p) + sum(len(t) for t in turns)
            if not (n1 == n2 == n3):
                viol.append((size, "generate_events-repeated-call-differs",
                             "the same conversation on one RuntimeV1_0 instance (1st / 2nd time) and on a fresh instance: "
                             + json.dumps([r1, r2, r3])[:600], dict(payload, impl=[r1, r2, r3], documented=want)))
            for tag, got in (("first", n1), ("second", n2), ("fresh", n3)):
                if got != nw:
                    k = next((j for j in range(min(len(got), len(nw))) if got[j] != nw[j]), min(len(got), len(nw)))
                    g_t = got[k] if k < len(got) else None
                    w_t = nw[k] if k < len(nw) else None
                    if g_t and w_t and len(g_t) == 2 and len(w_t) == 2 and g_t[1] != w_t[1]:
                        sig = "action-called-with-wrong-arguments"
                    else:
                        sig = "generate_events-differs-from-structured-semantics"
                    viol.append((size, sig, f"turn {k} ({tag} evaluation): generate_events gives {json.dumps(g_t)[:300]}; "
                                 f"structured semantics: {json.dumps(w_t)[:300]}", dict(payload, impl=[r1, r2, r3], documented=want)))
                    break
    info["violations"] = len(viol)
    for _sz, sig, what, payload in sorted(viol, key=lambda v: v[0])[:20]:
        out.findings.append(C.Finding(sig, what, payload))
    return info

# =======================================================================================

def shipped_flows():
    """Colang 1.0 example/library flow files whose compiled elements fit the model's vocabulary."""
    found = []
    for root in ("examples", "nemoguardrails/library", "tests/test_configs"):
        base = os.path.join(C.REPO, root)
        for d, _dirs, files in os.walk(base):
            for fn in sorted(files):
                if fn.endswith(".co"):
                    found.append(os.path.join(d, fn))
    return sorted(found)


def classify(prog, hist, oracle_flags, impl, want):
    if impl[0] == "hang":
        return "compute_next_steps-does-not-return"
    if "finished-in-starting-event" in oracle_flags:
        return "flow-finished-in-starting-event-stays-active"
    if "nested-call-blocked" in oracle_flags:
        return "statement-after-nested-do-proposed-while-subflow-waits"
    if "stack-unwound-two-levels" in oracle_flags:
        return "caller-not-resumed-after-nested-subflows-unwind"
    if impl[0] == "raise" and want[0] != "raise":
        return "unexpected-exception"
    return "next-step-differs-from-structured-semantics"


def nontrivial(prog, hist):
    st = prog.get("stats", {})
    return len(hist) >= 3 and (prog_depth(prog) >= 2 or st.get("while", 0) > 0 or st.get("do", 0) > 0)


def run(tier, seed, replay=None):
    out = C.Outcome(PID, tier, seed)
    rng = random.Random(seed * 1000003 + 14)
    b = C.build_and_audit(PID, GEN)
    C.proof_coverage(out, b, "make theories/Props/C14.vo && coqc Props/C14.v (Print Assumptions)")
    for br in b["broken"]:
        out.add_broken(br, b["log"])
    with C.BuildLock():
        okm, logm = C.coq_make(["theories/V1/InterpRun.vo"])
    if not okm:
        out.add_broken("coq:theories/V1/InterpRun.v", logm)

    # ---- the layer above compute_next_steps: generate_events on real runtime instances with
    #      scripted actions; runs in a thread beside the main pipeline (its work is in child processes)
    greplay = None
    if replay:
        d = json.load(open(replay))
        d = d.get("replay", d)
        if d.get("kind") == "gpair":
            greplay = d
    gthread, gbox, gout, ginfo = None, {}, C.Outcome(PID, tier, seed), {}
    if not replay or greplay:
        import threading
        import traceback

        def _g():
            t0g = time.time()
            try:
                gbox["info"] = g_layer(gout, random.Random(seed * 1000003 + 1414), tier, greplay)
                gbox["info"]["wall_s"] = round(time.time() - t0g, 1)
            except Exception:
                gbox["error"] = traceback.format_exc()

        gthread = threading.Thread(target=_g)
        gthread.start()

    n_prog = 140 if tier == "quick" else 2500
    n_hist = 4 if tier == "quick" else 8
    if os.environ.get("C14_NPROG"):
        n_prog = int(os.environ["C14_NPROG"])      # exploration runs
    if replay:
        n_prog = 0

    # ---- cases: corpus / replay first, then generated
    progs = []   # {"prog":..., "histories": [...], "origin": ...}
    corpus_dir = os.path.join(C.VERIF, "corpus", PID)
    corpus_n = 0
    if os.path.isdir(corpus_dir):
        for fn in sorted(os.listdir(corpus_dir)):
            if fn.endswith(".json"):
                d = json.load(open(os.path.join(corpus_dir, fn)))
                d = d.get("replay", d)
                if d.get("kind") == "pair":
                    progs.append({"prog": d["program"], "histories": [d["history"]], "origin": "corpus:" + fn})
                    corpus_n += 1
    if replay:
        d = json.load(open(replay))
        d = d.get("replay", d)
        if d.get("kind") == "pair":
            progs.append({"prog": d["program"], "histories": [d["history"]], "origin": "replay"})
    dist = {}
    g = Gen(rng)
    for _ in range(n_prog):
        p = g.program()
        orc = Oracle(p)
        hs = []
        for _ in range(n_hist):
            try:
                hs.append(gen_history(rng, p, orc, dist))
            except OracleBudget:
                dist["oracle-budget"] = dist.get("oracle-budget", 0) + 1
        if p["stats"].get("do", 0) > 0:
            try:
                hs += gen_leave_family(rng, p, orc, dist, max_points=8 if tier == "quick" else 16)
            except OracleBudget:
                dist["oracle-budget"] = dist.get("oracle-budget", 0) + 1
        progs.append({"prog": p, "histories": hs, "origin": "gen"})

    # every prefix of every history is a case (deduplicated per program)
    jobs = []
    for i, pe in enumerate(progs):
        seen, hl = set(), []
        for h in pe["histories"]:
            for k in range(1, len(h) + 1):
                key = C.canon_hash(h[:k])
                if key not in seen:
                    seen.add(key)
                    hl.append(h[:k])
        pe["cases"] = hl
        try:
            pe["text"] = colang_text(pe["prog"])
        except Unsupported as e:
            out.add_broken("harness:colang-printer", str(e))
            pe["text"] = None
            continue
        jobs.append({"idx": i, "text": pe["text"], "histories": hl})

    t0 = time.time()
    recs, errs = run_impl(jobs, "main", 900 if tier == "quick" else 5400)
    impl_s = round(time.time() - t0, 1)
    for e in errs:
        out.add_broken("impl-worker", e)

    # ---- compare: history-only (3 evaluations), direct oracle, and collect Coq cases
    terms_i, terms_s, terms_c, meta_i, meta_c = [], [], [], [], []
    chunks = []          # per program: definitions for the preamble
    seen_cases = set()
    n_nontrivial = 0
    res_hist = {"steps": 0, "raise": 0, "hang": 0}
    oracle_viol, repeat_viol = [], []
    samples = []
    evals = 0
    for i, pe in enumerate(progs):
        if pe.get("text") is None:
            continue
        rec = recs.get(i)
        if rec is None:
            out.add_broken("impl-worker", f"no result for program #{i} ({pe['origin']})")
            continue
        if "parse_error" in rec:
            out.findings.append(C.Finding("parser-rejects-structured-program",
                                          "the real parser raised on a program of the structured subset: " + rec["parse_error"],
                                          {"kind": "pair", "program": pe["prog"], "history": [], "text": pe["text"]}))
            continue
        try:
            cfg_term = coq_configs(rec["configs"])
            prog_term = coq_prog(pe["prog"])
        except (Unsupported, ValueError) as e:
            out.add_broken("translator:flat-elements", f"{e} in program {pe['text']}")
            continue
        pname, cname = f"prog_{i}", f"cfgs_{i}"
        defs = f"Definition {pname} : prog := {prog_term}.\nDefinition {cname} : configs := {cfg_term}.\n"
        my_i, my_s = [], []
        orc = Oracle(pe["prog"])
        for h, (r1, r2, r3) in zip(pe["cases"], rec["results"]):
            if r1[0] == "skipped":
                dist["skipped-after-hang"] = dist.get("skipped-after-hang", 0) + 1
                continue
            evals += 1
            res_hist[r1[0]] = res_hist.get(r1[0], 0) + 1
            payload = {"kind": "pair", "program": pe["prog"], "history": h, "text": pe["text"]}
            n1 = r1[:1] if r1[0] == "raise" else r1
            n2 = r2[:1] if r2[0] == "raise" else r2
            n3 = r3[:1] if r3[0] == "raise" else r3
            if not (n1 == n2 == n3):
                repeat_viol.append((prog_size(pe["prog"]) + len(h), payload, r1, r2, r3))
            try:
                want = orc.run(h)
                flags = set(orc.flags)
            except OracleBudget:
                continue
            want_n = list(want) if want[0] == "raise" else ["steps", want[1]]
            if n1 != want_n:
                oracle_viol.append((prog_size(pe["prog"]) + len(h), payload, r1, want_n, classify(pe["prog"], h, flags, r1, want)))
            if r1[0] == "hang":
                continue
            try:
                hterm = C.coq_list([coq_event(e) for e in h])
                xterm = coq_expect(n1)
            except (Unsupported, ValueError) as e:
                dist["unsupported-case"] = dist.get("unsupported-case", 0) + 1
                continue
            my_i.append((f"({cname}, {hterm}, {xterm})", payload, r1))
            my_s.append(f"({pname}, {hterm}, {xterm})")
            key = C.canon_hash([pe["text"], h])
            if key not in seen_cases:
                seen_cases.add(key)
                if nontrivial(pe["prog"], h):
                    n_nontrivial += 1
            if len(samples) < 3 and len(h) >= 4 and nontrivial(pe["prog"], h):
                samples.append({"colang": pe["text"], "history": h, "impl": r1})
        chunks.append({"defs": defs, "i": my_i, "s": my_s, "c": (f"({pname}, {cname})", pe), "pname": pname})

    # ---- the model inside Coq: groups of programs, one run_cases call per group and check
    disagree_i, disagree_s, disagree_c = [], [], []
    coq_s = 0.0
    if okm and chunks:
        groups, cur, cnt = [], [], 0
        for ch in chunks:
            cur.append(ch)
            cnt += len(ch["i"])
            if cnt >= 260:
                groups.append(cur)
                cur, cnt = [], 0
        if cur:
            groups.append(cur)
        t0 = time.time()

        def do_group(gi_group):
            gi, grp = gi_group
            pre = PREAMBLE + "".join(ch["defs"] for ch in grp)
            flat = [(ch, j) for ch in grp for j in range(len(ch["i"]))]
            tb = [f"({ch['pname']}, {ch['i'][j][0][1:]}" for ch, j in flat]
            r = {"i": ([], None), "s": ([], None)}
            bools, err = C.run_cases(f"{PID}_b{gi}", pre, tb, "check_both", shard=100000)
            if err:
                return grp, {"i": ([], err), "s": ([], err), "c": ([], None)}, []
            bad = [k for k, ok in enumerate(bools) if not ok]
            ri = [True] * len(flat)
            rs = [True] * len(flat)
            if bad:
                ti = [flat[k][0]["i"][flat[k][1]][0] for k in bad]
                ts = [flat[k][0]["s"][flat[k][1]] for k in bad]
                bi, ei = C.run_cases(f"{PID}_i{gi}", pre, ti, "check_interp", shard=100000)
                bs, es = C.run_cases(f"{PID}_s{gi}", pre, ts, "check_spec", shard=100000)
                if ei or es:
                    return grp, {"i": ([], ei or es), "s": ([], ei or es), "c": ([], None)}, []
                for k, a, b2 in zip(bad, bi, bs):
                    ri[k], rs[k] = a, b2
            tc = [ch["c"][0] for ch in grp]
            rc = C.run_cases(f"{PID}_c{gi}", pre, tc, "check_compile", shard=100000)
            return grp, {"i": (ri, None), "s": (rs, None), "c": rc}, flat

        with ThreadPoolExecutor(max_workers=max(1, C.NPROC // 2)) as ex:
            results = list(ex.map(do_group, enumerate(groups)))
        coq_s = round(time.time() - t0, 1)
        for grp, r, _flat in results:
            for kind in ("i", "s", "c"):
                if r[kind][1]:
                    out.add_broken(f"correspondence:C14-{kind}(coqc)", r[kind][1])
            if not r["i"][1]:
                flat = [(p, rr) for ch in grp for (_t, p, rr) in ch["i"]]
                for ok, (p, rr) in zip(r["i"][0], flat):
                    if not ok:
                        disagree_i.append((prog_size(p["program"]) + len(p["history"]), p, rr))
            if not r["s"][1]:
                flat = [(p, rr) for ch in grp for (_t, p, rr) in ch["i"]]
                for ok, (p, rr) in zip(r["s"][0], flat):
                    if not ok:
                        disagree_s.append((prog_size(p["program"]) + len(p["history"]), p, rr))
            if not r["c"][1]:
                for ok, ch in zip(r["c"][0], grp):
                    if not ok:
                        pe = ch["c"][1]
                        disagree_c.append((prog_size(pe["prog"]), pe))

    def model_answer(tag, defs, fn, term):
        return C.eval_term(PID + tag, PREAMBLE + defs, f"{fn} {term}")[-1500:]

    os.makedirs(os.path.join(C.BUILD, "c14"), exist_ok=True)
    json.dump({"interp": [[p, rr] for _s, p, rr in sorted(disagree_i, key=lambda x: x[0])[:200]],
               "spec": [[p, rr] for _s, p, rr in sorted(disagree_s, key=lambda x: x[0])[:200]],
               "oracle": [[p, r1, w, sg] for _s, p, r1, w, sg in sorted(oracle_viol, key=lambda x: x[0])[:200]]},
              open(os.path.join(C.BUILD, "c14", "disagreements.json"), "w"), indent=1, default=str)
    if disagree_i:
        _sz, p, rr = min(disagree_i, key=lambda x: x[0])
        out.add_broken("correspondence:C14-interp",
                       f"{len(disagree_i)} disagreements between V1.Interp and the implementation; smallest:\n{p['text']}history={json.dumps(p['history'])}\nimpl={rr}")
    if disagree_c:
        _sz, pe = min(disagree_c, key=lambda x: x[0])
        out.add_broken("correspondence:C14-compile",
                       f"{len(disagree_c)} programs where Structured.compile_prog differs from the real parser's FlowConfigs; smallest:\n{pe['text']}")
    # a disagreement between the SPEC and the implementation is a failing input of the property
    for _sz, p, rr in sorted(disagree_s, key=lambda x: x[0])[:30]:
        orc = Oracle(p["program"])
        try:
            want = orc.run(p["history"])
            flags = set(orc.flags)
        except OracleBudget:
            want, flags = ("?",), set()
        sig = classify(p["program"], p["history"], flags, rr, want)
        out.findings.append(C.Finding(sig, f"implementation answers {rr}; V1.Structured.next_steps (the specification) answers otherwise; Python oracle: {list(want)}",
                                      dict(p, impl=rr, documented=list(want))))
    for _sz, p, r1, want, sig in sorted(oracle_viol, key=lambda x: x[0])[:30]:
        out.findings.append(C.Finding(sig, f"implementation answers {r1}, the structured-program semantics gives {want}",
                                      dict(p, impl=r1, documented=want)))
    for _sz, p, r1, r2, r3 in sorted(repeat_viol, key=lambda x: x[0])[:10]:
        out.findings.append(C.Finding("repeated-call-differs", f"same history, same configs: first call {r1}, second call {r2}, freshly parsed {r3}",
                                      dict(p, impl=[r1, r2, r3])))
    # findings are reported smallest first per signature
    out.findings.sort(key=lambda f: len(json.dumps(f.replay.get("history", []))) + len(f.replay.get("text", "")))

    # ---- the layer above (started at the beginning, runs beside the main pipeline)
    if gthread is not None:
        gthread.join()
        ginfo = gbox.get("info", {})
        if "error" in gbox:
            out.add_broken("harness:generate_events-layer", gbox["error"])
        out.findings += gout.findings
        out.broken += gout.broken

    # ---- thorough: shipped Colang 1.0 flows against V1.Interp
    shipped = {"files": 0, "fit": 0, "cases": 0}
    if tier == "thorough" and not replay and okm:
        shipped = shipped_check(out, rng)

    st = {"if": 0, "elif": 0, "while": 0, "do": 0, "tail_do": 0, "tight": 0, "break": 0, "continue": 0, "exec": 0, "set": 0}
    depths = {}
    for pe in progs:
        for k in st:
            st[k] += pe["prog"].get("stats", {}).get(k, 0)
        d = prog_depth(pe["prog"])
        depths[d] = depths.get(d, 0) + 1
    out.coverage.update({
        "evaluations": evals,
        "distinct_nontrivial": n_nontrivial,
        "rule": "a case = (generated structured program, history prefix); every case: real compute_next_steps x3 (twice on the same FlowConfig objects, once freshly parsed) == V1.Interp (Coq) == V1.Structured.next_steps (Coq) == Python generator oracle, and per program compile_prog == real parser output; non-trivial = history of >= 3 events on a program with nesting depth >= 2 or a while or a subflow call; distinct by hash of (Colang text, history)",
        "samples": samples,
        "input_distribution": {"programs": len(progs), "statement_mix": st, "nesting_depth_histogram": depths,
                               "history_tails": dist, "impl_results": res_hist, "corpus_cases": corpus_n,
                               "shipped_v1_flows": shipped},
        "traces_validated_against_impl": sum(len(ch["i"]) for ch in chunks),
        "programs_compile_checked": len(chunks),
        "correspondence_disagreements": {"interp": len(disagree_i), "spec": len(disagree_s), "compile": len(disagree_c)},
        "oracle_violations": len(oracle_viol), "repeat_violations": len(repeat_viol),
        "impl_wall_s": impl_s, "coq_cases_wall_s": coq_s,
        "generate_events_layer": ginfo,
    })
    out.assumptions += [
        "generate_events layer: scripted actions return a pure function of (name, resolved arguments); compared are event types + key fields and the action calls (name, resolved kwargs); expectation = the Python restatement of the structured semantics in closed loop, not the Coq model",
        "new_uuid() is a fresh-name supply (modelled by a counter); uids are only compared for equality",
        "context keys event/config/last_user_message/last_bot_message are not modelled; the expression translator rejects expressions reading them",
        "simpleeval is modelled for the fragment None/bool/int/str/list, not/and/or, comparisons, + -, len, indexing, is None; its MAX_STRING_LENGTH guard is not modelled",
        "next_step_comment / BotIntent.instructions and action uids are not compared",
        "priorities are rationals; the float products priority*0.9 are assumed to compare like the rationals",
        "the Python oracle evaluates expressions with Python's eval (the language simpleeval implements)",
        "fuel of the executable models: 30000 per slide/resume loop; generated loops are counter-bounded (tight loops up to 500 iterations / 20x10 nested)",
    ]
    if tier == "thorough" and b["ok"]:
        ok, log = C.coqchk(PID, b["files"])
        out.coverage["coqchk"] = "ok" if ok else "FAILED"
        if not ok:
            out.add_broken("coqchk", log)
    return C.finish(out)


def shipped_check(out, rng):
    """Shipped Colang 1.0 flows that fit the element vocabulary: random event sequences over the
    intents they mention, implementation vs V1.Interp (multi-flow competition, branches, priorities)."""
    files = shipped_flows()
    info = {"files": len(files), "fit": 0, "cases": 0, "skipped": {}}
    jobs, metas = [], []
    for idx, path in enumerate(files):
        try:
            text = open(path, encoding="utf-8").read()
        except Exception:
            continue
        if "flow " not in text or len(text) > 20000:
            continue
        users = sorted(set(m.strip() for m in re.findall(r"^\s*(?:when |else when )?user (.+?)\s*$", text, re.M)))[:12]
        bots = sorted(set(m.strip() for m in re.findall(r"^\s*(?:when |else when )?bot (.+?)\s*$", text, re.M)))[:12]
        users = [u for u in users if '"' not in u and "(" not in u]
        bots = [u for u in bots if '"' not in u and "(" not in u]
        if not users:
            continue
        hs = []
        for _ in range(6):
            h = []
            for _ in range(rng.randint(1, 8)):
                r = rng.random()
                if r < 0.5:
                    h.append({"type": "UserIntent", "intent": rng.choice(users)})
                elif r < 0.9 and bots:
                    h.append({"type": "BotIntent", "intent": rng.choice(bots)})
                else:
                    h.append({"type": "ContextUpdate", "data": {"x": rng.choice([0, 1, True])}})
            hs.append(h)
        cases, seen = [], set()
        for h in hs:
            for k in range(1, len(h) + 1):
                key = C.canon_hash(h[:k])
                if key not in seen:
                    seen.add(key)
                    cases.append(h[:k])
        jobs.append({"idx": idx, "text": text, "histories": cases})
        metas.append((idx, path, cases))
    recs, errs = run_impl(jobs, "shipped", 1800)
    for e in errs:
        out.add_broken("impl-worker(shipped)", e)
    groups = []
    for idx, path, cases in metas:
        rec = recs.get(idx)
        if rec is None or "parse_error" in rec:
            info["skipped"]["parse"] = info["skipped"].get("parse", 0) + 1
            continue
        try:
            cfg_term = coq_configs(rec["configs"])
        except (Unsupported, ValueError, KeyError) as e:
            k = str(e)[:40]
            info["skipped"][k] = info["skipped"].get(k, 0) + 1
            continue
        info["fit"] += 1
        terms, keep = [], []
        for h, (r1, r2, r3) in zip(cases, rec["results"]):
            n1 = r1[:1] if r1[0] == "raise" else r1
            if r1[0] == "hang":
                continue
            if (r2[:1] if r2[0] == "raise" else r2) != n1 or (r3[:1] if r3[0] == "raise" else r3) != n1:
                out.findings.append(C.Finding("repeated-call-differs", f"{path}: same history answers {r1} / {r2} / {r3}",
                                              {"kind": "shipped", "file": path, "history": h}))
            try:
                terms.append(f"(cfgs_{idx}, {C.coq_list([coq_event(e) for e in h])}, {coq_expect(n1)})")
                keep.append((path, h, r1))
            except (Unsupported, ValueError):
                continue
        groups.append((idx, f"Definition cfgs_{idx} : configs := {cfg_term}.\n", terms, keep))
    bad = []

    def do(gr):
        idx, defs, terms, keep = gr
        bools, err = C.run_cases(f"{PID}_ship{idx}", PREAMBLE + defs, terms, "check_interp", shard=100000)
        return gr, bools, err

    with ThreadPoolExecutor(max_workers=C.NPROC) as ex:
        for (idx, defs, terms, keep), bools, err in ex.map(do, groups):
            if err:
                out.add_broken("correspondence:C14-shipped(coqc)", err)
                continue
            info["cases"] += len(terms)
            for ok, k in zip(bools, keep):
                if not ok:
                    bad.append(k)
    if bad:
        path, h, r1 = min(bad, key=lambda k: len(k[1]))
        out.add_broken("correspondence:C14-shipped", f"{len(bad)} disagreements on shipped flows; smallest: {path} history={json.dumps(h)} impl={r1}")
    return info


if __name__ == "__main__":
    if len(sys.argv) == 4 and sys.argv[1] == "--worker":
        _worker(sys.argv[2], sys.argv[3])
    if len(sys.argv) == 4 and sys.argv[1] == "--gworker":
        _gworker(sys.argv[2], sys.argv[3])
