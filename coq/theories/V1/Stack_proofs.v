(* V1.Stack_proofs - the simulation for programs WITH subflow calls: `do` pushes an interrupted
   caller, the resume loop of compute_next_state unwinds the stack of flow states in whatever
   order they sit in State.flow_states. *)
From Coq Require Import ZArith QArith List String Bool Lia.
From NG Require Import V1.Expr V1.Elems V1.Slide V1.Interp V1.Structured V1.Interp_proofs
                       V1.Code_proofs V1.Slide_proofs V1.Sim_proofs.
Import ListNotations.
Open Scope list_scope.
Open Scope Z_scope.

(* ------------------------------------------------------------------ exec = lexec + calls *)

Section Decomp.
  Variable subs : list (string * list stmt).

  (* what exec does with the result of the frame-local run *)
  Definition after_local (m : nat) (lr : lres) (r : xres) : Prop :=
    match lr with
    | LWait w k c u => r = XWait w k [] c u
    | LEnd c u => r = XEnd c u
    | LExc => r = XExc
    | LFuel => False
    | LCallR name k c u =>
        exists rest k', k = KSeq rest k' /\
          r = match lookup name subs with
              | None => XExc
              | Some body =>
                  match exec subs m c u body KDone with
                  | XEnd c' u' => exec subs m c' u' rest k'
                  | XWait w kw stk c' u' => XWait w kw (stk ++ [KSeq rest k']) c' u'
                  | r' => r'
                  end
              end
    end.

  Lemma exec_decomp : forall n c u blk k r,
    exec subs n c u blk k = r -> r <> XFuel ->
    exists m, (m < n)%nat /\ after_local m (lexec n c u blk k) r.
  Proof.
    induction n as [|n IH]; intros c u blk k r Hr Hnf; [simpl in Hr; congruence|].
    assert (Hlift : forall c' u' blk' k', exec subs n c' u' blk' k' = r ->
              exists m, (m < S n)%nat /\ after_local m (lexec n c' u' blk' k') r).
    { intros c' u' blk' k' H. destruct (IH _ _ _ _ _ H Hnf) as (m & Hm & Ha). exists m. split; [lia|exact Ha]. }
    destruct blk as [|s rest].
    - simpl in Hr |- *. destruct k; [exists n; split; [lia|exact (eq_sym Hr)]| |]; apply Hlift; exact Hr.
    - destruct s; simpl in Hr |- *.
      + exists n. split; [lia|exact (eq_sym Hr)].
      + exists n. split; [lia|exact (eq_sym Hr)].
      + exists n. split; [lia|exact (eq_sym Hr)].
      + destruct (eval c e); [apply Hlift; exact Hr|exists n; split; [lia|exact (eq_sym Hr)]].
      + destruct (eval c c0) as [v|]; [apply Hlift; exact Hr|exists n; split; [lia|exact (eq_sym Hr)]].
      + destruct (eval c c0) as [v|]; [|exists n; split; [lia|exact (eq_sym Hr)]].
        destruct (truthy v); apply Hlift; exact Hr.
      + destruct (unwind k) as [[[cnd b] k']|]; [apply Hlift; exact Hr|exists n; split; [lia|exact (eq_sym Hr)]].
      + destruct (unwind k) as [[[cnd b] k']|]; [apply Hlift; exact Hr|exists n; split; [lia|exact (eq_sym Hr)]].
      + exists n. split; [lia|]. exists rest, k. split; [reflexivity|exact (eq_sym Hr)].
  Qed.
End Decomp.

(* ------------------------------------------------------------------ lists of flow states *)

Lemma list_set_length : forall {A} (l : list A) i a, List.length (list_set l i a) = List.length l.
Proof. induction l; intros [|i] x; simpl; auto. Qed.

Lemma list_set_nth_same : forall {A} (l : list A) i a, (i < List.length l)%nat ->
  nth_error (list_set l i a) i = Some a.
Proof. induction l; intros [|i] x H; simpl in *; try lia; [reflexivity|apply IHl; lia]. Qed.

Lemma list_set_nth_other : forall {A} (l : list A) i j a, i <> j ->
  nth_error (list_set l i a) j = nth_error l j.
Proof. induction l; intros [|i] [|j] x H; simpl; auto; try congruence. Qed.

Lemma list_set_app_l : forall {A} (l m : list A) i a, (i < List.length l)%nat ->
  list_set (l ++ m) i a = list_set l i a ++ m.
Proof. induction l; intros m [|i] x H; simpl in *; try lia; [reflexivity|f_equal; apply IHl; lia]. Qed.

Lemma list_set_map : forall {A B} (g : A -> B) (l : list A) i a, (i < List.length l)%nat ->
  (forall x, nth_error l i = Some x -> g a = g x) ->
  map g (list_set l i a) = map g l.
Proof.
  induction l; intros [|i] x H Hg; simpl in *; try lia.
  - f_equal. apply Hg. reflexivity.
  - f_equal. apply IHl; [lia|exact Hg].
Qed.

Lemma list_set_in : forall {A} (l : list A) i a x, In x (list_set l i a) ->
  x = a \/ exists j, j <> i /\ nth_error l j = Some x.
Proof.
  induction l; intros [|i] y x H; simpl in H; try contradiction.
  - destruct H as [H|H]; [left; auto|].
    right. destruct (In_nth_error _ _ H) as (j & Hj). exists (S j). split; [lia|exact Hj].
  - destruct H as [H|H].
    + right. exists 0%nat. split; [lia|subst; reflexivity].
    + destruct (IHl _ _ _ H) as [E|(j & Hj & Hn)]; [left; exact E|].
      right. exists (S j). split; [lia|exact Hn].
Qed.

Lemma find_uid_in : forall l g, NoDup (map f_uid l) -> In g l -> find_uid l (f_uid g) = Some g.
Proof.
  induction l as [|x l IH]; intros g Hnd Hin; [contradiction|].
  inversion Hnd as [|? ? Hnotin Hnd']; subst. simpl. destruct Hin as [E|Hin].
  - subst. rewrite N.eqb_refl. reflexivity.
  - destruct (N.eqb (f_uid x) (f_uid g)) eqn:E.
    + apply N.eqb_eq in E. exfalso. apply Hnotin. rewrite E. apply in_map. exact Hin.
    + apply IH; assumption.
Qed.

Lemma find_uid_none : forall l u, ~ In u (map f_uid l) -> find_uid l u = None.
Proof.
  induction l as [|x l IH]; intros u H; [reflexivity|]. simpl in *.
  destruct (N.eqb (f_uid x) u) eqn:E; [apply N.eqb_eq in E; exfalso; apply H; left; exact E|].
  apply IH. intros Hin. apply H. right. exact Hin.
Qed.

(* "eventually": for all sufficiently large fuel *)
Definition evl {A} (g : nat -> res A) (r : res A) : Prop := exists F, forall f, (F <= f)%nat -> g f = r.

Lemma evl_const : forall {A} (r : res A), evl (fun _ => r) r.
Proof. intros. exists 0%nat. intros; reflexivity. Qed.

Lemma evl_bind : forall {A B} (g : nat -> res A) (h : A -> nat -> res B) a r,
  evl g (Ok a) -> evl (h a) r -> evl (fun f => bind (g f) (fun x => h x f)) r.
Proof.
  intros A B g h a r (F1 & H1) (F2 & H2). exists (Nat.max F1 F2). intros f Hf.
  rewrite H1 by lia. simpl. apply H2. lia.
Qed.

Lemma evl_bind_exc : forall {A B} (g : nat -> res A) (h : A -> nat -> res B),
  evl g Exc -> evl (fun f => bind (g f) (fun x => h x f)) Exc.
Proof. intros A B g h (F1 & H1). exists F1. intros f Hf. rewrite H1 by lia. reflexivity. Qed.

Lemma evl_ext : forall {A} (g g' : nat -> res A) r F0,
  (forall f, (F0 <= f)%nat -> g f = g' f) -> evl g' r -> evl g r.
Proof.
  intros A g g' r F0 He (F & H). exists (Nat.max F0 F). intros f Hf. rewrite He by lia. apply H. lia.
Qed.

Lemma evl_S : forall {A} (g : nat -> res A) r, evl g r -> evl (fun f => g (S f)) r.
Proof. intros A g r (F & H). exists F. intros f Hf. apply H. lia. Qed.

Lemma evl_pred : forall {A} (g : nat -> res A) r, evl (fun f => g (S f)) r -> evl g r.
Proof.
  intros A g r (F & H). exists (S F). intros f Hf. destruct f as [|f]; [lia|]. apply H. lia.
Qed.

(* ------------------------------------------------------------------ one program *)

Section ProgS.
  Variable p : prog.
  Variable o : opts.
  Hypothesis Hwf : wf_prog p = true.
  Hypothesis Hmark : o_mark o = true.
  Hypothesis Hguard : o_guard o = true.

  Let cs : configs := compile_prog p.

  (* the body of a flow of the program *)
  Definition flow_body (fl : string) : option (list stmt) :=
    if String.eqb fl (p_id p) then Some (p_main p) else lookup fl (p_subs p).

  Definition code (b : list stmt) : list elem := compile_block None b.

  Definition cfg_of (fl : string) (b : list stmt) : flow_config :=
    mk_config fl (code b) (negb (String.eqb fl (p_id p))).

  Lemma wf_parts :
    (exists i0 rest0, p_main p = SUser i0 :: rest0 /\ wf_block false rest0 = true) /\
    Forall (fun nb => wf_block false (snd nb) = true) (p_subs p) /\
    ~ In (p_id p) (map fst (p_subs p)).
  Proof.
    pose proof Hwf as W. unfold wf_prog in W.
    apply andb_true_iff in W. destruct W as [W W4].
    apply andb_true_iff in W. destruct W as [W W3].
    apply andb_true_iff in W. destruct W as [W1 W2].
    split; [|split].
    - destruct (p_main p) as [|s rest0]; [discriminate|]. destruct s; try discriminate.
      exists intent, rest0. split; [reflexivity|]. simpl in W2. exact W2.
    - apply Forall_forall. intros nb Hin. rewrite forallb_forall in W3. apply W3. exact Hin.
    - simpl in W4. apply andb_true_iff in W4. destruct W4 as [W4 _]. apply negb_true_iff in W4.
      intros Hin. unfold string_in in W4.
      assert (existsb (String.eqb (p_id p)) (map fst (p_subs p)) = true).
      { apply existsb_exists. exists (p_id p). split; [exact Hin|apply String.eqb_refl]. }
      congruence.
  Qed.

  Lemma lookup_in : forall {A} k (l : list (string * A)) v, lookup k l = Some v -> In k (map fst l).
  Proof.
    induction l as [|[k' v'] l IH]; intros v H; simpl in *; [discriminate|].
    destruct (String.eqb k k') eqn:E; [left; apply String.eqb_eq in E; auto|right; eapply IH; eauto].
  Qed.

End ProgS.
