(* Pipe/Options.v - one `LLMRails.generate` call with generation options (Colang 1.0).

   Modelled code:
   * rails/llm/options.py: the `rails` option (dict form over the defaults, list form over the
     all-False base; both tables come from Gen/C16Consts.v);
   * rails/llm/llmrails.py::generate_async: `$generation_options` context message and the
     injection of a trailing assistant message into `$bot_message` when dialog rails are off;
   * rails/llm/llm_flows.co: the guards of `process user input`, `run dialog rails`,
     `generate bot message`, `process bot message`, the `run input/output/retrieval rails`
     loops, written as the sequence of processing-log entries (steps decided by which flow,
     events, LLM calls) that the v1 runtime produces for them;
   * rails of the self-check shape (`$allowed = execute a(text=...)`, `if not $allowed: bot refuse
     to respond; stop`), whose action may also rewrite the checked text (context update).
   External behaviour = Section variables: the verdict of every rail action, the LLM text. *)
From Coq Require Import String List Bool Arith.
From NG Require Import Gen.C16Consts Pipe.GenLog.
Import ListNotations.
Open Scope string_scope.

Inductive verdict := Accept | Reject | Rewrite (t : string).

Record rail := mkRail { r_flow : string; r_action : string }.

(* how dialog rails produce the bot message *)
Inductive dmode :=
| General                      (* no user messages defined: generate_user_intent makes the `general` LLM call *)
| Flows (predefined : bool).   (* intent -> flow -> bot intent; message predefined or LLM generated *)

Record cfg := mkCfg { c_in : list rail; c_out : list rail; c_ret : list rail; c_dmode : dmode;
                      c_flow : string; c_bot_intent : string }.

Record ropts := mkO { o_input : bool; o_dialog : bool; o_retrieval : bool; o_output : bool }.

(* --- options.py --- *)
Fixpoint lookup (k : string) (l : list (string * bool)) (d : bool) : bool :=
  match l with [] => d | (k', v) :: r => if String.eqb k k' then v else lookup k r d end.

Definition ropts_of_table (t : list (string * bool)) : ropts :=
  mkO (lookup "input" t false) (lookup "dialog" t false) (lookup "retrieval" t false) (lookup "output" t false).

Inductive rails_spec :=
| RAbsent                                   (* `rails` key not given: GenerationRailsOptions() *)
| RList (names : list string)               (* "rails": ["input", ...] *)
| RDict (kvs : list (string * bool)).       (* "rails": {"input": False, ...} *)

Definition parse_rails (s : rails_spec) : ropts :=
  match s with
  | RAbsent => ropts_of_table rails_option_defaults
  | RList names => ropts_of_table (map (fun n => (n, true)) names ++ rails_list_form_base)
  | RDict kvs => ropts_of_table (kvs ++ rails_option_defaults)
  end.

(* --- generate_async: what reaches the context --- *)
(* g = None : generate called without options ($generation_options is None) *)
Definition input_enabled (g : option ropts) := match g with None => true | Some o => o_input o end.
Definition retrieval_enabled (g : option ropts) := match g with None => true | Some o => o_retrieval o end.
Definition output_enabled (g : option ropts) := match g with None => true | Some o => o_output o end.
(* `if $generation_options and $generation_options.rails.dialog == False` *)
Definition dialog_disabled (g : option ropts) := match g with None => false | Some o => negb (o_dialog o) end.
(* `if $generation_options.rails.output == False` (only reached when dialog is disabled) *)
Definition output_off (g : option ropts) := match g with None => false | Some o => negb (o_output o) end.

(* the trailing assistant message is moved to $bot_message only when options are given and
   dialog rails are disabled *)
Definition injected_bot (g : option ropts) (bot : option string) : option string :=
  if dialog_disabled g then bot else None.

(* rows of the documented table *)
Definition in_table (o : ropts) (bot : option string) : Prop :=
  (o_dialog o = true -> bot = None) /\
  (o_dialog o = false -> o_output o = true -> bot <> None).

Inductive category := CIn | COut | CRet.
Record call := mkCall { k_cat : category; k_idx : nat; k_action : string; k_text : string }.

Inductive reply :=
| RText (s : string)
| RUndefBot.   (* BotMessage(text=None): outside the documented table (see DESIGN C16) *)

Record outcome := mkOut {
  plog : list pentry;                  (* processing log, timing-free *)
  calls : list call;                   (* rail action invocations, in order *)
  llm : list string;                   (* tasks of the LLM calls, in order *)
  ran : list (string * string);        (* (type, name) of the rails that ran, in order *)
  blocked : option string;             (* flow of the rail that blocked *)
  answer : reply }.

(* --- processing-log segments --- *)
Definition ce (flow ty arg : string) : list pentry :=
  [PStep flow [SAct "create_event"];
   PEvent "StartInternalSystemAction" "create_event";
   PEvent "InternalSystemActionFinished" "create_event";
   PEvent ty arg].

Definition act_seg (flow action : string) (tasks : list string) : list pentry :=
  [PStep flow [SAct action]; PEvent "StartInternalSystemAction" action]
  ++ map PLlm tasks ++ [PEvent "InternalSystemActionFinished" action].

Inductive kind := KIn | KOut.
Definition loop_flow (K : kind) := match K with KIn => "run input rails" | KOut => "run output rails" end.
Definition start_ev (K : kind) := match K with KIn => "StartInputRail" | KOut => "StartOutputRail" end.
Definition fin_ev (K : kind) := match K with KIn => "InputRailFinished" | KOut => "OutputRailFinished" end.
Definition ktype (K : kind) := match K with KIn => "input" | KOut => "output" end.
Definition kcat (K : kind) := match K with KIn => CIn | KOut => COut end.

Inductive rres := Passed (t : string) | Blocked (flow : string).

Record seg := mkSeg { s_log : list pentry; s_calls : list call; s_ran : list (string * string); s_res : rres }.

Section Turn.
  Variables (iv ov : nat -> string -> verdict).
  Variables (llm_text refusal predefined_text : string).
  Variable (c : cfg).
  Variable (g : option ropts).

  Definition rail_pre (K : kind) (r : rail) : list pentry :=
    ce (loop_flow K) (start_ev K) (r_flow r) ++ act_seg (r_flow r) (r_action r) [].

  Fixpoint run_rails (K : kind) (vf : nat -> string -> verdict) (k : nat) (rs : list rail) (t : string) : seg :=
    match rs with
    | [] => mkSeg [] [] [] (Passed t)
    | r :: rest =>
      let cl := mkCall (kcat K) k (r_action r) t in
      let continue (t' : string) :=
          let s := run_rails K vf (S k) rest t' in
          mkSeg (rail_pre K r ++ ce (loop_flow K) (fin_ev K) (r_flow r) ++ s_log s)
                (cl :: s_calls s) ((ktype K, r_flow r) :: s_ran s) (s_res s) in
      match vf k t with
      | Reject => mkSeg (rail_pre K r) [cl] [(ktype K, r_flow r)] (Blocked (r_flow r))
      | Accept => continue t
      | Rewrite t' => continue t'
      end
    end.

  Definition ret_active : bool := negb (match c_ret c with [] => true | _ => false end) && retrieval_enabled g.
  Definition in_active : bool := negb (match c_in c with [] => true | _ => false end) && input_enabled g.
  Definition out_active : bool := negb (match c_out c with [] => true | _ => false end) && output_enabled g.

  Fixpoint ret_calls (k : nat) (rs : list rail) : list call :=
    match rs with [] => [] | r :: rest => mkCall CRet k (r_action r) "" :: ret_calls (S k) rest end.

  Definition ret_seg : list pentry :=
    if ret_active then flat_map (fun r => act_seg (r_flow r) (r_action r) []) (c_ret c) else [].
  Definition ret_cl : list call := if ret_active then ret_calls 0 (c_ret c) else [].

  (* flow `generate bot message` *)
  Definition genbot_seg (uses_llm : bool) : list pentry :=
    act_seg "generate bot message" "retrieve_relevant_chunks" [] ++ ret_seg
    ++ act_seg "generate bot message" "generate_bot_message" (if uses_llm then ["generate_bot_message"] else [])
    ++ [PEvent "BotMessage" ""].

  (* `bot refuse to respond` + `stop` inside rail flow f.  With retrieval rails running inside
     `generate bot message` the rail flow is left ABORTED by the v1 interpreter and its `stop`
     is never reached (observed; validated by the correspondence). *)
  Definition refusal_seg (f : string) : list pentry :=
    [PStep f [SIntent "refuse to respond"]; PEvent "BotIntent" ""]
    ++ genbot_seg false
    ++ ce "process bot message" "StartUtteranceBotAction" ""
    ++ (if ret_active then [] else [PStep f [SIntent "stop"]; PEvent "BotIntent" ""])
    ++ [PEvent "Listen" ""].

  Definition utter : list pentry := ce "process bot message" "StartUtteranceBotAction" "" ++ [PEvent "Listen" ""].

  (* flow `process bot message` on BotMessage(text=b); skip = $skip_output_rails *)
  Definition output_phase (b : string) (skip : bool) : outcome :=
    if skip then mkOut utter [] [] [] None (RText b)
    else if out_active then
      let s := run_rails KOut ov 0 (c_out c) b in
      match s_res s with
      | Passed b' =>
        mkOut (ce "process bot message" "StartOutputRails" "" ++ s_log s
               ++ ce "process bot message" "OutputRailsFinished" "" ++ utter)
              (s_calls s) [] (s_ran s) None (RText b')
      | Blocked f =>
        mkOut (ce "process bot message" "StartOutputRails" "" ++ s_log s ++ refusal_seg f)
              (s_calls s ++ ret_cl) [] (s_ran s) (Some f) (RText refusal)
      end
    else mkOut utter [] [] [] None (RText b).

  Definition prepend (l : list pentry) (cs : list call) (ts : list string) (rn : list (string * string)) (o : outcome) : outcome :=
    mkOut (l ++ plog o) (cs ++ calls o) (ts ++ llm o) (rn ++ ran o) (blocked o) (answer o).

  (* after UserMessage(text=t) *)
  Definition dialog_phase (t : string) (bot : option string) : outcome :=
    if dialog_disabled g then
      if output_off g then
        mkOut (ce "run dialog rails" "StartUtteranceBotAction" "" ++ [PEvent "Listen" ""]) [] [] [] None (RText t)
      else
        match bot with
        | None => mkOut (ce "run dialog rails" "BotMessage" "") [] [] [] None RUndefBot
        | Some b => prepend (ce "run dialog rails" "BotMessage" "") [] [] [] (output_phase b false)
        end
    else
      match c_dmode c with
      | General =>
        prepend (act_seg "generate user intent" "generate_user_intent" ["general"] ++ [PEvent "BotMessage" ""])
                [] ["general"] [("generation", "generate user intent")]
                (output_phase llm_text false)
      | Flows predefined =>
        prepend (act_seg "generate user intent" "generate_user_intent" ["generate_user_intent"]
                 ++ [PEvent "UserIntent" ""; PStep (c_flow c) [SIntent (c_bot_intent c)]; PEvent "BotIntent" ""]
                 ++ genbot_seg (negb predefined))
                ret_cl
                ("generate_user_intent" :: if predefined then [] else ["generate_bot_message"])
                [("dialog", "generate user intent"); ("dialog", c_flow c); ("generation", "generate bot message")]
                (output_phase (if predefined then predefined_text else llm_text) predefined)
      end.

  (* flow `process user input` on UtteranceUserActionFinished(final_transcript=user) *)
  Definition turn (user : string) (bot_msg : option string) : outcome :=
    let bot := injected_bot g bot_msg in
    let first := [PEvent "UtteranceUserActionFinished" ""] in
    if in_active then
      let s := run_rails KIn iv 0 (c_in c) user in
      match s_res s with
      | Passed t =>
        prepend (first ++ ce "process user input" "StartInputRails" "" ++ s_log s
                 ++ ce "process user input" "InputRailsFinished" ""
                 ++ ce "process user input" "UserMessage" "")
                (s_calls s) [] (s_ran s) (dialog_phase t bot)
      | Blocked f =>
        mkOut (first ++ ce "process user input" "StartInputRails" "" ++ s_log s ++ refusal_seg f)
              (s_calls s ++ ret_cl) [] (s_ran s) (Some f) (RText refusal)
      end
    else prepend (first ++ ce "process user input" "UserMessage" "") [] [] [] (dialog_phase user bot).
End Turn.

(* ---------- sanity ---------- *)
Definition ex_cfg := mkCfg [mkRail "in0" "in_rail_0"; mkRail "in1" "in_rail_1"] [mkRail "out0" "out_rail_0"]
                           [mkRail "ret0" "ret_rail_0"] (Flows false) "greet" "express greeting".
Definition ex_iv (k : nat) (t : string) := match k with 0 => Rewrite "masked" | _ => Accept end.
Definition ex_ov (k : nat) (t : string) := Reject.

Example parse_list : parse_rails (RList ["input"; "output"]) = mkO true false false true.
Proof. reflexivity. Qed.
Example parse_default : parse_rails RAbsent = mkO true true true true.
Proof. reflexivity. Qed.
Example parse_dict : parse_rails (RDict [("dialog", false)]) = mkO true false true true.
Proof. reflexivity. Qed.

Example input_only_rewrite :
  let r := turn ex_iv ex_ov "LLM" "REFUSED" "PRE" ex_cfg (Some (parse_rails (RList ["input"]))) "hello" None in
  answer r = RText "masked" /\ llm r = [] /\ List.length (calls r) = 2 /\ ran r = [("input", "in0"); ("input", "in1")].
Proof. vm_compute. repeat split. Qed.

Example io_block :
  let r := turn ex_iv ex_ov "LLM" "REFUSED" "PRE" ex_cfg (Some (parse_rails (RList ["input"; "output"]))) "hello" (Some "bot text") in
  answer r = RText "REFUSED" /\ llm r = [] /\ blocked r = Some "out0"
  /\ option_map (map (fun a => (ar_type a, ar_name a, ar_stop a))) (gen_log (plog r))
     = Some [("input", "in0", false); ("input", "in1", false); ("output", "out0", true)].
Proof. vm_compute. repeat split. Qed.

Example all_rails_general_log :
  let r := turn (fun _ _ => Accept) (fun _ _ => Accept) "LLM" "REFUSED" "PRE"
                (mkCfg [mkRail "in0" "a"] [mkRail "out0" "b"] [] General "greet" "x") None "hello" None in
  answer r = RText "LLM" /\
  option_map (map (fun a => (ar_type a, ar_name a))) (gen_log (plog r))
  = Some [("input", "in0"); ("generation", "generate user intent"); ("output", "out0")].
Proof. vm_compute. repeat split. Qed.
