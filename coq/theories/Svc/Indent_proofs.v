(* C13 (layout, Colang 2.x) - proofs about Svc/Indent.v *)
From Coq Require Import NArith List Bool Lia Relations.
From NG Require Import Svc.Indent.
Import ListNotations.
Open Scope N_scope.

(* ------------------------------------------------------------------------------------ *)
(* lexer lemmas *)

Lemma option_map_flush_none : forall o : option (list tok), option_map (flush None) o = o.
Proof. destruct o; reflexivity. Qed.

Lemma lex_skip_spaces_none :
  forall ig sps X, forallb is_sp sps = true -> lex_go ig None (sps ++ X) = lex_go ig None X.
Proof.
  intros ig sps X. induction sps as [|s sps IH]; simpl; intros H; [reflexivity|].
  apply andb_prop in H. destruct H as [Hs H].
  destruct s; simpl in Hs; try discriminate. now apply IH.
Qed.

Lemma lex_skip_ws_none_ig :
  forall ws X, forallb is_ws ws = true -> lex_go true None (ws ++ X) = lex_go true None X.
Proof.
  intros ws X. induction ws as [|s ws IH]; simpl; intros H; [reflexivity|].
  apply andb_prop in H. destruct H as [Hs H].
  destruct s; simpl in Hs; try discriminate; now apply IH.
Qed.

(* inside a _NEWLINE token, whitespace followed by another line break is forgotten *)
Lemma lex_ws_then_nl :
  forall ig ws X p, forallb is_ws ws = true ->
    lex_go ig (Some p) (ws ++ SNl :: X) = lex_go ig (Some (0, 0)) X.
Proof.
  intros ig ws X. induction ws as [|s ws IH]; simpl; intros p H; [reflexivity|].
  apply andb_prop in H. destruct H as [Hs H].
  destruct p as [sp tb].
  destruct s; simpl in Hs; try discriminate; now apply IH.
Qed.

Lemma sp_is_ws : forall l, forallb is_sp l = true -> forallb is_ws l = true.
Proof.
  induction l as [|s l IH]; simpl; intros H; [reflexivity|].
  apply andb_prop in H. destruct H as [Hs H]. rewrite (IH H).
  destruct s; simpl in *; try discriminate; reflexivity.
Qed.

(* congruence: a common prefix does not matter *)
Lemma lex_prefix :
  forall ig a X Y,
    (forall st, lex_go ig st X = lex_go ig st Y) ->
    forall st, lex_go ig st (a ++ X) = lex_go ig st (a ++ Y).
Proof.
  intros ig a X Y H. induction a as [|s a IH]; intros st; simpl; [apply H|].
  destruct s; simpl; try (now rewrite IH).
  - destruct st as [[sp tb]|]; apply IH.
  - destruct st as [[sp tb]|]; [apply IH|]. destruct ig; [apply IH | reflexivity].
Qed.

Lemma lex_blank :
  forall ig a ws b st, forallb is_ws ws = true ->
    lex_go ig st (a ++ SNl :: ws ++ SNl :: b) = lex_go ig st (a ++ SNl :: b).
Proof.
  intros ig a ws b st H. apply lex_prefix. intros st'. simpl.
  now apply lex_ws_then_nl.
Qed.

Lemma lex_trailing :
  forall ig a sps b st, forallb is_sp sps = true ->
    lex_go ig st (a ++ sps ++ SNl :: b) = lex_go ig st (a ++ SNl :: b).
Proof.
  intros ig a sps b st H. apply lex_prefix. intros [p|].
  - rewrite (lex_ws_then_nl ig sps b p (sp_is_ws _ H)). reflexivity.
  - now apply lex_skip_spaces_none.
Qed.

Lemma lex_trailing_ws_ig :
  forall a ws b st, forallb is_ws ws = true ->
    lex_go true st (a ++ ws ++ SNl :: b) = lex_go true st (a ++ SNl :: b).
Proof.
  intros a ws b st H. apply lex_prefix. intros [p|].
  - rewrite (lex_ws_then_nl true ws b p H). reflexivity.
  - now apply lex_skip_ws_none_ig.
Qed.

Lemma lex_comment :
  forall ig a t sps sps' b st,
    is_content t = true -> forallb is_sp sps = true -> forallb is_sp sps' = true ->
    lex_go ig st (a ++ t :: sps ++ sps' ++ SComment :: SNl :: b) = lex_go ig st (a ++ t :: sps ++ SNl :: b).
Proof.
  intros ig a t sps sps' b st Ht H H'. apply lex_prefix. intros st'.
  assert (E : lex_go ig None (sps ++ sps' ++ SComment :: SNl :: b) = lex_go ig None (sps ++ SNl :: b)).
  { rewrite !lex_skip_spaces_none by assumption. simpl. apply option_map_flush_none. }
  destruct t; simpl in Ht; try discriminate; simpl; now rewrite E.
Qed.

(* ------------------------------------------------------------------------------------ *)
(* the edits leave the parser's input unchanged *)

Lemma app_cons_assoc : forall (A : Type) (a : list A) x b c, (a ++ x :: b) ++ c = a ++ x :: (b ++ c).
Proof. intros. now rewrite <- app_assoc. Qed.

Ltac norm := repeat (first [rewrite app_cons_assoc | rewrite <- app_assoc | progress (simpl app)]).

Theorem layout_blank :
  forall ig T s s', blank_edit s s' -> layout ig T s' = layout ig T s.
Proof.
  intros ig T s s' H. destruct H as [a ws b Hws]. unfold layout, lex_file.
  norm. now rewrite lex_blank.
Qed.

Theorem layout_trailing_ws :
  forall ig T s s', trail_edit s s' -> layout ig T s' = layout ig T s.
Proof.
  intros ig T s s' H. destruct H as [a sps b Hs | a sps Hs]; unfold layout, lex_file.
  - norm. now rewrite lex_trailing.
  - norm. now rewrite lex_trailing.
Qed.

Theorem layout_trailing_tabs_if_ignored :
  forall T s s', trail_ws_edit s s' -> layout true T s' = layout true T s.
Proof.
  intros T s s' H. destruct H as [a ws b Hs | a ws Hs]; unfold layout, lex_file.
  - norm. now rewrite lex_trailing_ws_ig.
  - norm. now rewrite lex_trailing_ws_ig.
Qed.

(* pinned grammar (`%ignore " "` only): a trailing TAB turns a lexable file into a lexing error *)
Lemma layout_trailing_tab_refuted :
  exists T s s', trail_ws_edit s s' /\ layout false T s <> LexError /\ layout false T s' = LexError.
Proof.
  exists 8, [STok 1; SNl], [STok 1; STab; SNl]. repeat split.
  - exact (TrailWsEdit [STok 1] [STab] [] eq_refl).
  - vm_compute. discriminate.
Qed.

Theorem layout_comment :
  forall ig T s s', comment_edit s s' -> layout ig T s' = layout ig T s.
Proof.
  intros ig T s s' H. destruct H as [a t sps sps' b Ht Hs Hs' | a t sps sps' Ht Hs Hs']; unfold layout, lex_file.
  - norm. now rewrite lex_comment.
  - norm. now rewrite lex_comment.
Qed.

(* a comment on a line WITHOUT content is not harmless at this layer: it ends the _NEWLINE
   token, so the comment's own indentation reaches the indenter *)
Lemma comment_only_line_matters :
  exists s s', s' = [STok 1; SNl; SSp; SSp; STok 2; SNl; SComment; SNl; SSp; SSp; STok 3] /\
               s = [STok 1; SNl; SSp; SSp; STok 2; SNl; SNl; SSp; SSp; STok 3] /\
               layout false 8 s' <> layout false 8 s.
Proof. eexists. eexists. split; [reflexivity|]. split; [reflexivity|]. vm_compute. discriminate. Qed.

(* ------------------------------------------------------------------------------------ *)
(* scaling *)

Definition scale_tok (K : N) (t : tok) : tok :=
  match t with TNL sp tb => TNL (K * sp) (K * tb) | x => x end.

Lemma lex_repeat_sp_none :
  forall ig k X, lex_go ig None (repeat SSp k ++ X) = lex_go ig None X.
Proof. intros ig k X. induction k as [|k IH]; simpl; [reflexivity | exact IH]. Qed.

Lemma lex_repeat_sp_some :
  forall ig k X sp tb, lex_go ig (Some (sp, tb)) (repeat SSp k ++ X) = lex_go ig (Some (sp + N.of_nat k, tb)) X.
Proof.
  intros ig k X. induction k as [|k IH]; intros sp tb; simpl repeat; simpl app.
  - simpl. now rewrite N.add_0_r.
  - simpl lex_go. rewrite IH. f_equal. f_equal. f_equal. lia.
Qed.

Lemma lex_repeat_tab_some :
  forall ig k X sp tb, lex_go ig (Some (sp, tb)) (repeat STab k ++ X) = lex_go ig (Some (sp, tb + N.of_nat k)) X.
Proof.
  intros ig k X. induction k as [|k IH]; intros sp tb; simpl repeat; simpl app.
  - simpl. now rewrite N.add_0_r.
  - simpl lex_go. rewrite IH. f_equal. f_equal. f_equal. lia.
Qed.

Lemma lex_repeat_tab_none_ig :
  forall k X, lex_go true None (repeat STab k ++ X) = lex_go true None X.
Proof. intros k X. induction k as [|k IH]; simpl; [reflexivity | exact IH]. Qed.

(* relation between the lexer state on the scaled text and on the original *)
Definition srel (K : N) (bol : bool) (st st' : lstate) : Prop :=
  (st = None /\ st' = None) \/
  (bol = true /\ exists sp tb, st' = Some (sp, tb) /\ st = Some (K * sp, K * tb)).

Lemma flush_scale :
  forall K bol st st' x, srel K bol st st' -> flush st (map (scale_tok K) x) = map (scale_tok K) (flush st' x).
Proof.
  intros K bol st st' x [[-> ->] | [_ [sp [tb [-> ->]]]]]; reflexivity.
Qed.

Lemma option_map_map : forall (A B C : Type) (f : A -> B) (g : B -> C) (o : option A),
  option_map g (option_map f o) = option_map (fun x => g (f x)) o.
Proof. destruct o; reflexivity. Qed.

Lemma option_map_ext : forall (A B : Type) (f g : A -> B) (o : option A),
  (forall x, f x = g x) -> option_map f o = option_map g o.
Proof. intros A B f g [x|] H; simpl; [now rewrite H | reflexivity]. Qed.

Lemma lex_scale :
  forall ig k, (0 < k)%nat ->
  forall ss bol st st', srel (N.of_nat k) bol st st' ->
    lex_go ig st (scale_go k bol ss) = option_map (map (scale_tok (N.of_nat k))) (lex_go ig st' ss).
Proof.
  intros ig k Hk. set (K := N.of_nat k).
  assert (content_case : forall (c : tok) (bol : bool) st st' (r : list seg),
             scale_tok K c = c ->
             srel K bol st st' ->
             (forall bol st st', srel K bol st st' ->
                 lex_go ig st (scale_go k bol r) = option_map (map (scale_tok K)) (lex_go ig st' r)) ->
             option_map (fun x => flush st (c :: x)) (lex_go ig None (scale_go k false r))
             = option_map (map (scale_tok K)) (option_map (fun x => flush st' (c :: x)) (lex_go ig None r))).
  { intros c bol st st' r Hc Hrel IH.
    rewrite (IH false None None) by (left; split; reflexivity).
    rewrite !option_map_map. apply option_map_ext. intros x.
    rewrite <- (flush_scale K bol st st' (c :: x) Hrel). simpl. now rewrite Hc. }
  induction ss as [|s r IH]; intros bol st st' Hrel.
  - simpl. f_equal. now apply (flush_scale K bol st st' []).
  - destruct s.
    + (* SNl *) simpl. apply IH. right. split; [reflexivity|]. exists 0, 0. split; [reflexivity|].
      now rewrite !N.mul_0_r.
    + (* SSp *) simpl scale_go. destruct Hrel as [[-> ->] | [-> [sp [tb [-> ->]]]]].
      * destruct bol.
        -- rewrite lex_repeat_sp_none. simpl. apply IH. left. split; reflexivity.
        -- simpl. apply IH. left. split; reflexivity.
      * rewrite lex_repeat_sp_some. simpl. apply IH. right. split; [reflexivity|].
        exists (sp + 1), tb. split; [reflexivity|]. f_equal. f_equal. unfold K. lia.
    + (* STab *) simpl scale_go. destruct Hrel as [[-> ->] | [-> [sp [tb [-> ->]]]]].
      * destruct bol.
        -- destruct ig.
           ++ rewrite lex_repeat_tab_none_ig. simpl. apply IH. left. split; reflexivity.
           ++ destruct k as [|k']; [lia|]. simpl. reflexivity.
        -- simpl. destruct ig; [|reflexivity]. apply IH. left. split; reflexivity.
      * rewrite lex_repeat_tab_some. simpl. apply IH. right. split; [reflexivity|].
        exists sp, (tb + 1). split; [reflexivity|]. f_equal. f_equal. unfold K. lia.
    + (* SComment *) simpl.
      rewrite (IH false None None) by (left; split; reflexivity).
      rewrite !option_map_map. apply option_map_ext. intros x.
      now apply (flush_scale K bol).
    + simpl. now apply (content_case TOpen bol).
    + simpl. now apply (content_case TClose bol).
    + simpl. now apply (content_case (TOther id) bol).
Qed.

Lemma scale_go_snoc_nl : forall k ss bol, scale_go k bol (ss ++ [SNl]) = scale_go k bol ss ++ [SNl].
Proof.
  intros k ss. induction ss as [|s r IH]; intros bol; simpl; [reflexivity|].
  destruct s; simpl; rewrite ?IH; try reflexivity; now rewrite <- app_assoc.
Qed.

(* the indenter makes the same decisions on scaled indentations *)
Lemma pop_to_scale :
  forall K, 0 < K -> forall ind st,
    pop_to (K * ind) (map (N.mul K) st) = (map (N.mul K) (fst (pop_to ind st)), snd (pop_to ind st)).
Proof.
  intros K HK ind st. induction st as [|x st IH]; simpl; [reflexivity|].
  assert (E : (K * ind <? K * x) = (ind <? x)).
  { destruct (ind <? x) eqn:H.
    - apply N.ltb_lt. apply N.ltb_lt in H. now apply N.mul_lt_mono_pos_l.
    - apply N.ltb_ge. apply N.ltb_ge in H. now apply N.mul_le_mono_l. }
  rewrite E. destruct (ind <? x).
  - rewrite IH. destruct (pop_to ind st) as [s n]. reflexivity.
  - reflexivity.
Qed.

Lemma top_scale : forall K st, top (map (N.mul K) st) = K * top st.
Proof. intros K [|x st]; simpl; [now rewrite N.mul_0_r | reflexivity]. Qed.

Lemma process_scale :
  forall T K, 0 < K -> forall ts paren st,
    process T (map (scale_tok K) ts) paren (map (N.mul K) st) = process T ts paren st.
Proof.
  intros T K HK ts. induction ts as [|t r IH]; intros paren st.
  - simpl. now rewrite map_length.
  - destruct t as [sp tb| | |i]; simpl.
    + destruct (0 <? paren); [apply IH|].
      assert (Eind : K * sp + K * tb * T = K * (sp + tb * T)) by lia.
      rewrite Eind, top_scale.
      assert (E1 : (K * top st <? K * (sp + tb * T)) = (top st <? sp + tb * T)).
      { destruct (top st <? sp + tb * T) eqn:H.
        - apply N.ltb_lt. apply N.ltb_lt in H. now apply N.mul_lt_mono_pos_l.
        - apply N.ltb_ge. apply N.ltb_ge in H. now apply N.mul_le_mono_l. }
      rewrite E1. destruct (top st <? sp + tb * T).
      * change (K * (sp + tb * T) :: map (N.mul K) st) with (map (N.mul K) ((sp + tb * T) :: st)).
        now rewrite IH.
      * rewrite pop_to_scale by assumption.
        destruct (pop_to (sp + tb * T) st) as [st' n]. simpl fst. simpl snd.
        rewrite top_scale.
        assert (E2 : (K * (sp + tb * T) =? K * top st') = (sp + tb * T =? top st')).
        { destruct (sp + tb * T =? top st') eqn:H.
          - apply N.eqb_eq in H. rewrite H. apply N.eqb_refl.
          - apply N.eqb_neq. apply N.eqb_neq in H. intros C. apply H.
            apply N.mul_cancel_l in C; [assumption | lia]. }
        rewrite E2. destruct (sp + tb * T =? top st'); [now rewrite IH | reflexivity].
    + now rewrite IH.
    + destruct (paren =? 0); [reflexivity | now rewrite IH].
    + now rewrite IH.
Qed.

Theorem layout_scale :
  forall ig T k s, (0 < k)%nat -> layout ig T (scale k s) = layout ig T s.
Proof.
  intros ig T k s Hk. unfold layout, lex_file, scale.
  rewrite <- scale_go_snoc_nl.
  rewrite (lex_scale ig k Hk (s ++ [SNl]) true None None) by (left; split; reflexivity).
  destruct (lex_go ig None (s ++ [SNl])) as [ts|]; simpl; [|reflexivity].
  f_equal.
  change (@nil N) with (map (N.mul (N.of_nat k)) []).
  apply process_scale. lia.
Qed.

(* scaling by 0 (removing all indentation) is of course not harmless *)
Lemma layout_scale_zero_refuted :
  exists s, layout false 8 (scale 0 s) <> layout false 8 s.
Proof. exists [STok 1; SNl; SSp; SSp; STok 2]. vm_compute. discriminate. Qed.

(* any number of the harmless edits, in any order *)
Inductive layout_edit : list seg -> list seg -> Prop :=
| LEBlank : forall s s', blank_edit s s' -> layout_edit s s'
| LETrail : forall s s', trail_edit s s' -> layout_edit s s'
| LEComment : forall s s', comment_edit s s' -> layout_edit s s'
| LEScale : forall k s, (0 < k)%nat -> layout_edit s (scale k s).

Theorem layout_edits :
  forall ig T s s', clos_refl_trans _ layout_edit s s' -> layout ig T s' = layout ig T s.
Proof.
  intros ig T s s' H. induction H as [s s' H | s | s s1 s2 H1 IH1 H2 IH2].
  - destruct H as [s s' H | s s' H | s s' H | k s H].
    + now apply layout_blank.
    + now apply layout_trailing_ws.
    + now apply layout_comment.
    + now apply layout_scale.
  - reflexivity.
  - congruence.
Qed.

(* the hypotheses are inhabited by a non-trivial file: Indent.ex1 has nested blocks, a
   bracket spanning lines, a comment-only line and a blank line *)
Example layout_edits_inhabited :
  let s1 := [STok 1; SSp; STok 2; SNl] in
  let rest := [SSp; SSp; STok 3; SSp; SOpen; STok 4; SNl; SSp; SSp; SSp; SSp; SClose; SNl] in
  blank_edit (s1 ++ rest) ([STok 1; SSp; STok 2] ++ SNl :: [SSp; STab] ++ SNl :: rest)
  /\ comment_edit ([STok 1; SSp] ++ STok 2 :: [] ++ SNl :: rest) ([STok 1; SSp] ++ STok 2 :: [] ++ [SSp; SSp] ++ SComment :: SNl :: rest)
  /\ layout false 8 (scale 3 ex1) = layout false 8 ex1
  /\ (exists o, layout false 8 ex1 = Lexed (o, None)).
Proof.
  intros s1 rest. split; [|split; [|split]].
  - exact (BlankEdit [STok 1; SSp; STok 2] [SSp; STab] _ eq_refl).
  - exact (CommentEdit [STok 1; SSp] (STok 2) [] [SSp; SSp] _ eq_refl eq_refl eq_refl).
  - vm_compute. reflexivity.
  - eexists. vm_compute. reflexivity.
Qed.

(* with a grammar that also ignores tabs between tokens, trailing tabs are harmless too *)
Theorem layout_trailing_tabs_cond :
  forall ig T s s', ig = true -> trail_ws_edit s s' -> layout ig T s' = layout ig T s.
Proof. intros ig T s s' ->. apply layout_trailing_tabs_if_ignored. Qed.
