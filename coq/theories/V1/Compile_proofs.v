(* C12 (Colang 1.0) - proofs about the flow compiler model (Compile.v) and the offset checker
   (CompileRun.v).

   Main results
     compile_closed            : every offset of every compiled element lands inside the flow
     compile_targets           : every successor position is in [-1, len]
     compile_branch_heads_indexed
     closed_slide_safe         : slide never raises IndexError / KeyError on a closed flow
                                 (this uses the "`_absolute` only on jumps" part of shape_ok;
                                 see unsafe_flow_rejected for the flow it rules out)
     compile_abs_jump          : `_absolute` is only set on jumps in compiler output
     compile_slide_safe        : the same for compiler output
     offsets_okb_iff           : the boolean checker decides closed_v1
     compile_errors, compile_undef : when the two exceptions of _resolve_gotos are raised *)
From Coq Require Import ZArith List String Bool Lia.
From NG Require Import V1.CompileItems V1.Compile V1.CompileRun.
Import ListNotations.
Open Scope Z_scope.

(* ------------------------------------------------------------------------------------------ *)
(* zlen arithmetic                                                                             *)
(* ------------------------------------------------------------------------------------------ *)
Lemma zlen_nil : forall A, zlen (@nil A) = 0.
Proof. reflexivity. Qed.

Lemma zlen_cons : forall A (a : A) l, zlen (a :: l) = zlen l + 1.
Proof. intros A a l. unfold zlen. cbn [Datatypes.length]. lia. Qed.

Lemma zlen_app : forall A (a b : list A), zlen (a ++ b) = zlen a + zlen b.
Proof. intros A a b. unfold zlen. rewrite app_length. lia. Qed.

Lemma zlen_map : forall A B (f : A -> B) l, zlen (map f l) = zlen l.
Proof. intros A B f l. unfold zlen. rewrite map_length. reflexivity. Qed.

Lemma zlen_nonneg : forall A (l : list A), 0 <= zlen l.
Proof. intros A l. unfold zlen. lia. Qed.

(* ------------------------------------------------------------------------------------------ *)
(* all_from P i es : element k of es satisfies P (i + k)                                       *)
(* ------------------------------------------------------------------------------------------ *)
Fixpoint all_from (P : Z -> elem -> Prop) (i : Z) (es : list elem) : Prop :=
  match es with
  | [] => True
  | e :: r => P i e /\ all_from P (i + 1) r
  end.

Lemma all_from_app : forall (P : Z -> elem -> Prop) a b i,
  all_from P i (a ++ b) <-> all_from P i a /\ all_from P (i + zlen a) b.
Proof.
  intros P a. induction a as [|x a IHa]; intros b i.
  - cbn [app all_from]. rewrite zlen_nil. replace (i + 0) with i by lia. tauto.
  - cbn [app all_from]. rewrite IHa. rewrite zlen_cons.
    replace (i + 1 + zlen a) with (i + (zlen a + 1)) by lia. tauto.
Qed.

Lemma all_from_impl : forall (P Q : Z -> elem -> Prop) es i,
  (forall j e, i <= j -> P j e -> Q j e) -> all_from P i es -> all_from Q i es.
Proof.
  intros P Q es. induction es as [|x es IHes]; intros i HPQ H.
  - exact I.
  - cbn [all_from] in *. destruct H as [Hx Hr]. split.
    + apply HPQ; [lia | exact Hx].
    + apply IHes; [ | exact Hr]. intros j e Hj. apply HPQ. lia.
Qed.

Lemma all_from_nth : forall (P : Z -> elem -> Prop) es i k e,
  all_from P i es -> nth_error es k = Some e -> P (i + Z.of_nat k) e.
Proof.
  intros P es. induction es as [|x es IHes]; intros i k e H Hn.
  - destruct k; discriminate Hn.
  - cbn [all_from] in H. destruct H as [Hx Hr]. destruct k as [|k].
    + cbn in Hn. inversion Hn; subst. replace (i + Z.of_nat 0) with i by lia. exact Hx.
    + cbn [nth_error] in Hn. replace (i + Z.of_nat (S k)) with (i + 1 + Z.of_nat k) by lia.
      apply IHes; assumption.
Qed.

Lemma all_from_of_nth : forall (P : Z -> elem -> Prop) es i,
  (forall k e, nth_error es k = Some e -> P (i + Z.of_nat k) e) -> all_from P i es.
Proof.
  intros P es. induction es as [|x es IHes]; intros i H.
  - exact I.
  - cbn [all_from]. split.
    + replace i with (i + Z.of_nat 0) by lia. apply H. reflexivity.
    + apply IHes. intros k e Hk.
      replace (i + 1 + Z.of_nat k) with (i + Z.of_nat (S k)) by lia. apply H. exact Hk.
Qed.

(* ------------------------------------------------------------------------------------------ *)
(* the invariant of _extract_elements: like in_range, but labels/gotos are still allowed, and   *)
(* an `_absolute` element is a jump to -1                                                      *)
(* ------------------------------------------------------------------------------------------ *)
Definition wshape (e : elem) : Prop :=
  match e_type e with
  | TIf => e_else e <> None
  | TWhile => e_brk e <> None
  | TJump => e_next e <> None
  | _ => True
  end.

Record ok (len i : Z) (e : elem) : Prop := mk_ok {
  ok_next  : forall n, e_next e = Some n -> if e_abs e then n = -1 else 0 <= i + n <= len;
  ok_else  : forall n, e_else e = Some n -> 0 <= i + n <= len;
  ok_brk   : forall n, e_brk e = Some n -> 0 <= i + n <= len;
  ok_cont  : forall n, e_cont e = Some n -> 0 <= i + n <= len;
  ok_heads : forall h, In h (e_heads e) -> 0 <= i + h < len;
  ok_shape : wshape e;
  ok_abs   : e_abs e = true -> e_type e = TJump
}.

Definition wf_from (len : Z) : Z -> list elem -> Prop := all_from (ok len).

(* a block is self-contained: all its offsets land in [0, length of the block] *)
Definition blk (es : list elem) : Prop := wf_from (zlen es) 0 es.

(* embedding a block of length len at offset a into a block of length len' *)
Lemma ok_shift : forall len i e a len',
  ok len i e -> 0 <= a -> a + len <= len' -> ok len' (a + i) e.
Proof.
  intros len i e a len' [Hn He Hb Hc Hh Hs Ha] Ha0 Hlen.
  constructor.
  - intros n Hn'. specialize (Hn n Hn'). destruct (e_abs e); lia.
  - intros n Hn'. specialize (He n Hn'). lia.
  - intros n Hn'. specialize (Hb n Hn'). lia.
  - intros n Hn'. specialize (Hc n Hn'). lia.
  - intros h Hh'. specialize (Hh h Hh'). lia.
  - exact Hs.
  - exact Ha.
Qed.

Lemma wf_from_shift : forall len es i a len',
  wf_from len i es -> 0 <= a -> a + len <= len' -> wf_from len' (a + i) es.
Proof.
  intros len es. induction es as [|x es IHes]; intros i a len' H Ha Hlen.
  - exact I.
  - unfold wf_from in *. cbn [all_from] in *. destruct H as [Hx Hr]. split.
    + eapply ok_shift; eassumption.
    + replace (a + i + 1) with (a + (i + 1)) by lia. apply IHes; assumption.
Qed.

Lemma blk_embed : forall es a len',
  blk es -> 0 <= a -> a + zlen es <= len' -> wf_from len' a es.
Proof.
  intros es a len' H Ha Hlen. replace a with (a + 0) by lia.
  eapply wf_from_shift; eassumption.
Qed.

Lemma blk_nil : blk [].
Proof. exact I. Qed.

Lemma blk_app : forall a b, blk a -> blk b -> blk (a ++ b).
Proof.
  intros a b Ha Hb. unfold blk, wf_from. apply all_from_app. split.
  - apply blk_embed; [exact Ha | lia | rewrite zlen_app; pose proof (zlen_nonneg _ b); lia].
  - apply blk_embed; [exact Hb | pose proof (zlen_nonneg _ a); lia | rewrite zlen_app; lia].
Qed.

Ltac psimpl := cbn [e_type e_next e_abs e_else e_brk e_cont e_heads e_label plain jump].
Ltac psimpl_in H := cbn [e_type e_next e_abs e_else e_brk e_cont e_heads e_label plain jump] in H.

Lemma some_inj : forall (a b : Z), Some a = Some b -> a = b.
Proof. intros a b H. congruence. Qed.

(* closes the fields of an `ok` record that are absent (None / [] / false) *)
Ltac ok_absent :=
  psimpl;
  try (let n := fresh "n" in let Hx := fresh "Hx" in
       intros n Hx; first [discriminate Hx | contradiction Hx]);
  try (let Hx := fresh "Hx" in intros Hx; discriminate Hx);
  try exact I.

(* ---- leaves ---- *)
Lemma ok_plain : forall len i t, wshape (plain t) -> ok len i (plain t).
Proof.
  intros len i t Hs. constructor; ok_absent.
  exact Hs.
Qed.

Lemma ok_leaf : forall len i l, ok len i (leaf_elem l).
Proof.
  intros len i l. destruct l; try (apply ok_plain; exact I).
  constructor; ok_absent.
  - intros n Hn. apply some_inj in Hn. subst n. reflexivity.
  - intros _. reflexivity.
Qed.

Lemma wf_leaves : forall len ch i, wf_from len i (map leaf_elem ch).
Proof.
  intros len ch. induction ch as [|l ch IHch]; intros i.
  - exact I.
  - unfold wf_from in *. cbn [map all_from]. split; [apply ok_leaf | apply IHch].
Qed.

Lemma ok_jump : forall len i n, 0 <= i + n <= len -> ok len i (jump n).
Proof.
  intros len i n H. constructor; ok_absent.
  intros m Hm. apply some_inj in Hm. subst m. exact H.
Qed.

Lemma blk_leaf : forall l, blk [leaf_elem l].
Proof. intros l. split; [apply ok_leaf | exact I]. Qed.

Lemma blk_any : forall ch, blk (plain TAny :: map leaf_elem ch).
Proof. intros ch. split; [apply ok_plain; exact I | apply wf_leaves]. Qed.

(* ---- `if` ---- *)
Lemma zlen_if_block : forall th el,
  zlen (if_block th el) = match el with [] => zlen th + 1 | _ => zlen th + zlen el + 2 end.
Proof.
  intros th el. destruct el as [|x el]; unfold if_block.
  - rewrite zlen_cons. reflexivity.
  - rewrite zlen_cons, zlen_app, zlen_cons. lia.
Qed.

Lemma ok_if_head : forall len n, 0 <= n <= len ->
  ok len 0 (mkE TIf None false (Some n) None None [] None).
Proof.
  intros len n Hn. constructor; ok_absent.
  intros m Hm. apply some_inj in Hm. subst m. lia.
Qed.

Lemma blk_if : forall th el, blk th -> blk el -> blk (if_block th el).
Proof.
  intros th el Hth Hel.
  pose proof (zlen_nonneg _ th) as Hth0. pose proof (zlen_nonneg _ el) as Hel0.
  unfold blk. rewrite zlen_if_block. destruct el as [|x el]; unfold if_block.
  - unfold wf_from. cbn [all_from]. split.
    + apply ok_if_head. lia.
    + apply blk_embed; [exact Hth | lia | lia].
  - remember (x :: el) as el' eqn:Eel. unfold wf_from. cbn [all_from]. split.
    + apply ok_if_head. lia.
    + apply all_from_app. split.
      * apply blk_embed; [exact Hth | lia | lia].
      * cbn [all_from]. split.
        -- apply ok_jump. lia.
        -- apply blk_embed; [exact Hel | lia | lia].
Qed.

(* ---- `while` ---- *)
Lemma zlen_decorate_from : forall n es j, zlen (decorate_from n j es) = zlen es.
Proof.
  intros n es. induction es as [|x es IHes]; intros j.
  - reflexivity.
  - cbn [decorate_from]. rewrite !zlen_cons, IHes. reflexivity.
Qed.

Lemma ok_decorate : forall len n j e,
  0 <= n + 2 <= len -> ok len (j + 1) e -> ok len (j + 1) (decorate n j e).
Proof.
  intros len n j e Hn Hok. unfold decorate.
  destruct (e_brk e) as [b|] eqn:Eb; [exact Hok|].
  destruct Hok as [Hnx He Hb Hc Hh Hs Ha].
  constructor; psimpl.
  - exact Hnx.
  - exact He.
  - intros m Hm. apply some_inj in Hm. subst m. lia.
  - intros m Hm. apply some_inj in Hm. subst m. lia.
  - exact Hh.
  - unfold wshape in *. psimpl. destruct (e_type e); try exact Hs; try exact I. discriminate.
  - exact Ha.
Qed.

Lemma wf_decorate_from : forall len n es j,
  0 <= n + 2 <= len -> wf_from len (j + 1) es -> wf_from len (j + 1) (decorate_from n j es).
Proof.
  intros len n es. induction es as [|x es IHes]; intros j Hn H.
  - exact I.
  - unfold wf_from in *. cbn [decorate_from all_from] in *. destruct H as [Hx Hr]. split.
    + apply ok_decorate; assumption.
    + apply IHes; assumption.
Qed.

Lemma zlen_while_block : forall body, zlen (while_block body) = zlen body + 2.
Proof.
  intros body. unfold while_block. rewrite zlen_cons, zlen_app, zlen_decorate_from, zlen_cons.
  rewrite zlen_nil. lia.
Qed.

Lemma blk_while : forall body, blk body -> blk (while_block body).
Proof.
  intros body Hb. pose proof (zlen_nonneg _ body) as Hb0.
  unfold blk. rewrite zlen_while_block. unfold while_block.
  unfold wf_from. cbn [all_from]. split.
  - constructor; ok_absent.
    intros m Hm. apply some_inj in Hm. subst m. lia.
  - apply all_from_app. split.
    + apply (wf_decorate_from (zlen body + 2) (zlen body) body 0); [lia|].
      apply blk_embed; [exact Hb | lia | lia].
    + rewrite zlen_decorate_from. cbn [all_from]. split; [|exact I].
      apply ok_jump. lia.
Qed.

(* ---- branch groups ---- *)
Lemma rest_len_nonneg : forall bs, 0 <= rest_len bs.
Proof.
  induction bs as [|b bs IHbs]; cbn [rest_len]; [lia|].
  pose proof (zlen_nonneg _ b). lia.
Qed.

Lemma rest_len_app1 : forall bs b, rest_len (bs ++ [b]) = rest_len bs + zlen b + 1.
Proof.
  induction bs as [|c bs IHbs]; intros b; cbn [app rest_len].
  - lia.
  - rewrite IHbs. lia.
Qed.

Lemma zlen_branch_bodies : forall bs, zlen (branch_bodies bs) = rest_len bs.
Proof.
  induction bs as [|b bs IHbs]; cbn [branch_bodies rest_len].
  - reflexivity.
  - rewrite zlen_app, zlen_cons, IHbs. lia.
Qed.

Lemma branch_heads_range : forall bs pos h,
  In h (branch_heads pos bs) -> pos <= h < pos + rest_len bs.
Proof.
  induction bs as [|b bs IHbs]; intros pos h Hin; cbn [branch_heads rest_len] in *.
  - contradiction.
  - pose proof (zlen_nonneg _ b) as Hb0. pose proof (rest_len_nonneg bs) as Hr0.
    destruct Hin as [Heq | Hin].
    + subst. lia.
    + apply IHbs in Hin. lia.
Qed.

Lemma wf_branch_bodies : forall len bs p,
  Forall blk bs -> 0 <= p -> p + rest_len bs <= len -> wf_from len p (branch_bodies bs).
Proof.
  intros len bs. induction bs as [|b bs IHbs]; intros p Hall Hp Hlen.
  - exact I.
  - inversion Hall as [|b' bs' Hb Hbs]; subst.
    cbn [branch_bodies rest_len] in *.
    pose proof (zlen_nonneg _ b) as Hb0. pose proof (rest_len_nonneg bs) as Hr0.
    unfold wf_from. apply all_from_app. split.
    + apply blk_embed; [exact Hb | lia | lia].
    + cbn [all_from]. split.
      * apply ok_jump. lia.
      * apply IHbs; [exact Hbs | lia | lia].
Qed.

Lemma zlen_flush : forall bs,
  zlen (flush bs) = match bs with [] => 0 | _ => 1 + rest_len bs end.
Proof.
  intros bs. destruct bs as [|b bs]; [reflexivity|].
  unfold flush. rewrite zlen_cons, zlen_branch_bodies. lia.
Qed.

Lemma blk_flush : forall bs, Forall blk bs -> blk (flush bs).
Proof.
  intros bs Hall. destruct bs as [|b bs]; [exact I|].
  remember (b :: bs) as bs' eqn:Ebs.
  assert (Hf : flush bs' = mkE TBranch None false None None None (branch_heads 1 bs') None
                           :: branch_bodies bs') by (subst; reflexivity).
  unfold blk. rewrite Hf, zlen_cons, zlen_branch_bodies.
  pose proof (rest_len_nonneg bs') as Hr0.
  unfold wf_from. cbn [all_from]. split.
  - constructor; ok_absent.
    intros h Hh. apply branch_heads_range in Hh. lia.
  - apply wf_branch_bodies; [exact Hall | lia | lia].
Qed.

(* ---- assemble ---- *)
Definition xok (x : xres) : Prop :=
  match x with XBlock es => blk es | XBranch es => blk es end.

Lemma blk_assemble : forall xs pending,
  Forall xok xs -> Forall blk pending -> blk (assemble xs pending).
Proof.
  induction xs as [|x xs IHxs]; intros pending Hxs Hp.
  - cbn [assemble]. apply blk_flush. exact Hp.
  - inversion Hxs as [|x' xs' Hx Hxs']; subst.
    destruct x as [es|b]; cbn [assemble xok] in *.
    + apply blk_app; [apply blk_flush; exact Hp|].
      apply blk_app; [exact Hx|]. apply IHxs; [exact Hxs' | constructor].
    + apply IHxs; [exact Hxs'|]. apply Forall_app. split; [exact Hp|].
      constructor; [exact Hx | constructor].
Qed.

(* ---- induction over the nested item tree ---- *)
Section ItemInd.
  Variable P : item -> Prop.
  Hypothesis Hleaf : forall l, P (ILeaf l).
  Hypothesis Hif : forall th el, Forall P th -> Forall P el -> P (IIf th el).
  Hypothesis Hwhile : forall body, Forall P body -> P (IWhile body).
  Hypothesis Hany : forall ch, P (IAny ch).
  Hypothesis Hlist : forall b, Forall P b -> P (IList b).

  Fixpoint item_ind' (it : item) : P it :=
    let fix go (l : list item) : Forall P l :=
      match l with
      | [] => Forall_nil P
      | x :: r => Forall_cons x (item_ind' x) (go r)
      end in
    match it with
    | ILeaf l => Hleaf l
    | IIf th el => Hif th el (go th) (go el)
    | IWhile body => Hwhile body (go body)
    | IAny ch => Hany ch
    | IList b => Hlist b (go b)
    end.
End ItemInd.

Lemma Forall_xok_map : forall l, Forall (fun it => xok (xitem it)) l -> Forall xok (map xitem l).
Proof.
  intros l H. induction H as [|x l Hx Hl IH]; cbn [map]; constructor; assumption.
Qed.

Lemma xok_xitem : forall it, xok (xitem it).
Proof.
  induction it as [l | th el Hth Hel | body Hbody | ch | b Hb] using item_ind';
    cbn [xitem xok].
  - apply blk_leaf.
  - apply blk_if; apply blk_assemble; try constructor; apply Forall_xok_map; assumption.
  - apply blk_while; apply blk_assemble; try constructor; apply Forall_xok_map; assumption.
  - apply blk_any.
  - apply blk_assemble; try constructor; apply Forall_xok_map; assumption.
Qed.

Lemma blk_extract : forall items, blk (extract items).
Proof.
  intros items. unfold extract. apply blk_assemble; [|constructor].
  apply Forall_xok_map. apply Forall_forall. intros it _. apply xok_xitem.
Qed.

(* ------------------------------------------------------------------------------------------ *)
(* _resolve_gotos and _process_ellipsis                                                        *)
(* ------------------------------------------------------------------------------------------ *)
(* `_absolute` is only ever set on a jump (slide() honours it only there) *)
Definition abs_jump (e : elem) : Prop := e_abs e = true -> e_type e = TJump.

Definition fin (len i : Z) (e : elem) : Prop := in_range len i e /\ abs_jump e.

Lemma label_pos_lt : forall name es k,
  label_pos name es = Some k -> (k < List.length es)%nat.
Proof.
  intros name es. induction es as [|x es IHes]; intros k H.
  - discriminate H.
  - cbn [label_pos] in H. cbn [Datatypes.length].
    assert (Hrec : option_map S (label_pos name es) = Some k -> (k < S (List.length es))%nat).
    { intros Hr. destruct (label_pos name es) as [k'|] eqn:El; [|discriminate Hr].
      cbn [option_map] in Hr. assert (k = S k') by congruence. subst k.
      specialize (IHes k' eq_refl). lia. }
    destruct (e_type x) as [ | | | | | | n | | | | | | ]; try (apply Hrec; exact H).
    destruct (String.eqb n name).
    + assert (k = O) by congruence. subst k. lia.
    + apply Hrec; exact H.
Qed.

(* the six fields of in_range: next, else, break, continue, heads, shape *)
Ltac split_range := unfold in_range; split; [|split; [|split; [|split; [|split]]]].

Lemma ok_in_range : forall len i e,
  ok len i e -> 0 <= len ->
  (forall n, e_type e <> TLabel n) -> (forall n, e_type e <> TGoto n) ->
  in_range len i e.
Proof.
  intros len i e [Hn He Hb Hc Hh Hs Ha] Hlen Hnl Hng.
  split_range; try assumption.
  - intros n Hn'. specialize (Hn n Hn'). destruct (e_abs e); lia.
  - unfold shape_ok. split; [exact Ha|]. unfold wshape in Hs.
    destruct (e_type e) as [ | | | | | | n | n | | | | | ]; try exact Hs.
    + exact (Hnl n eq_refl).
    + exact (Hng n eq_refl).
Qed.

Lemma ok_not_jump_abs : forall len i e,
  ok len i e -> e_type e <> TJump -> e_abs e = false.
Proof.
  intros len i e Hok Ht. destruct (e_abs e) eqn:Ea; [|reflexivity].
  exfalso. apply Ht. apply (ok_abs _ _ _ Hok). exact Ea.
Qed.

Lemma resolve_one_fin : forall all i e e',
  resolve_one all i e = Ok e' -> ok (zlen all) i e -> 0 <= i -> i + 1 <= zlen all ->
  fin (zlen all) i e'.
Proof.
  intros all i e e' Hr Hok Hi Hlen. unfold resolve_one in Hr.
  destruct (e_type e) as [ | | | | | | n | n | | | | | ] eqn:Et;
    try (assert (e' = e) by congruence; subst e'; split;
         [ apply ok_in_range; [exact Hok | lia | rewrite Et; discriminate | rewrite Et; discriminate]
         | exact (ok_abs _ _ _ Hok) ]).
  - (* label *)
    assert (Ea : e_abs e = false) by (apply (ok_not_jump_abs _ _ _ Hok); rewrite Et; discriminate).
    destruct Hok as [Hn He Hb Hc Hh Hs Ha].
    assert (He' : e' = mkE TJump (Some 1) (e_abs e) (e_else e) (e_brk e) (e_cont e) (e_heads e)
                           (Some n)) by congruence.
    subst e'. split.
    + split_range; psimpl; try assumption.
      * rewrite Ea. intros m Hm. apply some_inj in Hm. lia.
      * unfold shape_ok. psimpl. split; [intros _; reflexivity | discriminate].
    + intros _. reflexivity.
  - (* goto *)
    assert (Ea : e_abs e = false) by (apply (ok_not_jump_abs _ _ _ Hok); rewrite Et; discriminate).
    destruct Hok as [Hn He Hb Hc Hh Hs Ha].
    destruct (label_pos n all) as [k|] eqn:El; [|discriminate Hr].
    apply label_pos_lt in El.
    assert (He' : e' = mkE TJump (Some (Z.of_nat k - i)) (e_abs e) (e_else e) (e_brk e) (e_cont e)
                           (e_heads e) (e_label e)) by congruence.
    subst e'. split.
    + split_range; psimpl; try assumption.
      * rewrite Ea. intros m Hm. apply some_inj in Hm. unfold zlen in *. lia.
      * unfold shape_ok. psimpl. split; [intros _; reflexivity | discriminate].
    + intros _. reflexivity.
Qed.

Lemma resolve_from_fin : forall all es i es',
  resolve_from all i es = Ok es' -> wf_from (zlen all) i es -> 0 <= i ->
  i + zlen es <= zlen all ->
  all_from (fin (zlen all)) i es' /\ zlen es' = zlen es.
Proof.
  intros all es. induction es as [|x es IHes]; intros i es' Hr Hwf Hi Hlen.
  - cbn [resolve_from] in Hr. assert (es' = []) by congruence. subst es'. split; [exact I | reflexivity].
  - cbn [resolve_from] in Hr. unfold wf_from in Hwf. cbn [all_from] in Hwf.
    destruct Hwf as [Hx Hrest]. rewrite zlen_cons in Hlen. pose proof (zlen_nonneg _ es) as Hes0.
    destruct (resolve_one all i x) as [x'|err] eqn:Ex; [|discriminate Hr].
    destruct (resolve_from all (i + 1) es) as [r'|err] eqn:Er; [|discriminate Hr].
    assert (es' = x' :: r') by congruence. subst es'.
    destruct (IHes (i + 1) r' Er Hrest) as [Hall Hz]; [lia | lia |].
    split.
    + cbn [all_from]. split; [|exact Hall].
      apply (resolve_one_fin all i x x' Ex Hx); lia.
    + rewrite !zlen_cons, Hz. reflexivity.
Qed.

Lemma fin_ellipsis : forall len i e, fin len i e -> fin len i (ellipsis_one e).
Proof.
  intros len i e H. unfold ellipsis_one.
  destruct (e_type e) as [ | | | | | b | | | | | | | ]; try exact H.
  destruct b; [|exact H].
  split.
  - split_range; ok_absent.
    unfold shape_ok. psimpl. split; [intros Hx; discriminate Hx | exact I].
  - intros Hx. discriminate Hx.
Qed.

Lemma all_from_map : forall (P : Z -> elem -> Prop) f es i,
  (forall j e, P j e -> P j (f e)) -> all_from P i es -> all_from P i (map f es).
Proof.
  intros P f es. induction es as [|x es IHes]; intros i Hf H.
  - exact I.
  - cbn [map all_from] in *. destruct H as [Hx Hr]. split; [apply Hf; exact Hx | apply IHes; assumption].
Qed.

(* the full invariant of compiler output *)
Lemma compile_fin : forall items es,
  compile items = Ok es -> all_from (fin (zlen es)) 0 es.
Proof.
  intros items es H. unfold compile, resolve_gotos in H.
  destruct (has_dup (labels_of (extract items))); [discriminate H|].
  destruct (resolve_from (extract items) 0 (extract items)) as [es0|err] eqn:Er; [|discriminate H].
  assert (es = map ellipsis_one es0) by congruence. subst es.
  destruct (resolve_from_fin _ _ _ _ Er (blk_extract items)) as [Hall Hz]; [lia | lia |].
  rewrite zlen_map, Hz. apply all_from_map; [|exact Hall].
  intros j e. apply fin_ellipsis.
Qed.

Lemma all_from_in_range_closed : forall es,
  all_from (in_range (zlen es)) 0 es <-> closed_v1 es.
Proof.
  intros es. split.
  - intros H i e Hn. apply (all_from_nth _ _ _ _ _ H Hn).
  - intros H. apply all_from_of_nth. intros k e Hk. apply (H k e Hk).
Qed.

(* ---- 1. main theorem ---- *)
Theorem compile_closed : forall items es, compile items = Ok es -> closed_v1 es.
Proof.
  intros items es H. apply all_from_in_range_closed.
  apply (all_from_impl (fin (zlen es))); [|exact (compile_fin _ _ H)].
  intros j e _ [Hr _]. exact Hr.
Qed.

Theorem compile_abs_jump : forall items es,
  compile items = Ok es -> forall e, In e es -> e_abs e = true -> e_type e = TJump.
Proof.
  intros items es H e Hin. apply In_nth_error in Hin. destruct Hin as [k Hk].
  pose proof (all_from_nth _ _ _ _ _ (compile_fin _ _ H) Hk) as [_ Ha]. exact Ha.
Qed.

(* ------------------------------------------------------------------------------------------ *)
(* 2. successor positions                                                                      *)
(* ------------------------------------------------------------------------------------------ *)
Lemma or1_range : forall len h o,
  0 <= h < len -> (forall n, o = Some n -> 0 <= h + n <= len) -> 0 <= h + or1 o <= len.
Proof.
  intros len h o Hh Ho. destruct o as [n|]; cbn [or1].
  - specialize (Ho n eq_refl). lia.
  - lia.
Qed.

Lemma in_range_next_rel : forall len i e,
  in_range len i e -> e_abs e = false -> forall n, e_next e = Some n -> 0 <= i + n <= len.
Proof.
  intros len i e [Hn _] Ea n Hn'. specialize (Hn n Hn'). rewrite Ea in Hn. exact Hn.
Qed.

Lemma abs_jump_false : forall e, abs_jump e -> e_type e <> TJump -> e_abs e = false.
Proof.
  intros e Ha Ht. destruct (e_abs e) eqn:Ea; [|reflexivity]. exfalso. apply Ht. apply Ha. exact Ea.
Qed.

Lemma in_singleton : forall (t x : Z), In t [x] -> t = x.
Proof. intros t x [H | []]. symmetry. exact H. Qed.

Lemma targets_fin : forall len i e t,
  in_range len i e -> abs_jump e -> 0 <= i < len -> In t (targets i e) ->
  0 <= t <= len \/ (t = -1 /\ e_abs e = true).
Proof.
  intros len i e t Hr Haj Hi Hin.
  pose proof (in_range_next_rel _ _ _ Hr) as Hnext.
  destruct Hr as [Hn [He [Hb [Hc [Hh Hs]]]]].
  unfold targets in Hin.
  destruct (e_type e) as [ | | | | | | | | | | | | ] eqn:Et;
    try (apply in_singleton in Hin; subst t; left; lia);
    try (assert (Ea : e_abs e = false) by (apply (abs_jump_false _ Haj); rewrite Et; discriminate);
         specialize (Hnext Ea)).
  - (* check *) apply in_singleton in Hin. subst t. left. apply or1_range; assumption.
  - (* stop *) contradiction Hin.
  - (* break *) apply in_singleton in Hin. subst t. left. apply or1_range; assumption.
  - (* continue *) apply in_singleton in Hin. subst t. left. apply or1_range; assumption.
  - (* set *) apply in_singleton in Hin. subst t. left. apply or1_range; assumption.
  - (* if *) destruct Hin as [Ht | Hin]; [subst t; left; lia|].
    destruct (e_else e) as [n|]; [|contradiction Hin].
    apply in_singleton in Hin. subst t. left. apply He. reflexivity.
  - (* while *) destruct Hin as [Ht | Hin].
    + subst t. left. apply or1_range; assumption.
    + destruct (e_brk e) as [n|]; [|contradiction Hin].
      apply in_singleton in Hin. subst t. left. apply Hb. reflexivity.
  - (* jump *) destruct (e_next e) as [n|]; [|contradiction Hin].
    apply in_singleton in Hin. specialize (Hn n eq_refl).
    destruct (e_abs e); subst t.
    + assert (Hc' : 0 <= n <= len \/ n = -1) by lia.
      destruct Hc' as [Hc' | Hc']; [left; exact Hc' | right; split; [exact Hc' | reflexivity]].
    + left. exact Hn.
  - (* branch *) apply in_map_iff in Hin. destruct Hin as [h [Ht Hin]]. subst t.
    specialize (Hh h Hin). left. lia.
Qed.

Lemma nth_error_index_range : forall A (l : list A) i x,
  nth_error l i = Some x -> 0 <= Z.of_nat i < zlen l.
Proof.
  intros A l i x H. assert (Hlt : (i < List.length l)%nat) by (apply nth_error_Some; congruence).
  unfold zlen. lia.
Qed.

Theorem compile_targets : forall items es, compile items = Ok es ->
  forall i e t, nth_error es i = Some e -> In t (targets (Z.of_nat i) e) ->
  -1 <= t <= zlen es /\ (t = -1 -> e_abs e = true).
Proof.
  intros items es H i e t Hn Hin.
  pose proof (all_from_nth _ _ _ _ _ (compile_fin _ _ H) Hn) as [Hr Ha].
  replace (0 + Z.of_nat i) with (Z.of_nat i) in Hr by lia.
  pose proof (nth_error_index_range _ _ _ _ Hn) as Hi.
  destruct (targets_fin _ _ _ _ Hr Ha Hi Hin) as [Ht | [Ht Hab]].
  - split; [lia | intros Hm; lia].
  - split; [lia | intros _; exact Hab].
Qed.

Lemma closed_branch_heads_indexed : forall es, closed_v1 es ->
  forall i e h, nth_error es i = Some e -> In h (e_heads e) ->
  exists e', nth_error es (Z.to_nat (Z.of_nat i + h)) = Some e'.
Proof.
  intros es Hc i e h Hn Hin. destruct (Hc i e Hn) as [_ [_ [_ [_ [Hh _]]]]].
  specialize (Hh h Hin).
  destruct (nth_error es (Z.to_nat (Z.of_nat i + h))) as [e'|] eqn:E; [exists e'; reflexivity|].
  apply nth_error_None in E. unfold zlen in Hh. lia.
Qed.

Theorem compile_branch_heads_indexed : forall items es, compile items = Ok es ->
  forall i e h, nth_error es i = Some e -> In h (e_heads e) ->
  exists e', nth_error es (Z.to_nat (Z.of_nat i + h)) = Some e'.
Proof.
  intros items es H. apply closed_branch_heads_indexed. exact (compile_closed _ _ H).
Qed.

(* ------------------------------------------------------------------------------------------ *)
(* 3. slide() never raises on a closed flow                                                    *)
(* ------------------------------------------------------------------------------------------ *)
Theorem closed_slide_safe : forall cond es, closed_v1 es ->
  forall fuel head prev, -1 <= head <= zlen es ->
  slide cond fuel es head prev <> SIndexError /\ slide cond fuel es head prev <> SKeyError.
Proof.
  intros cond es Hc fuel. induction fuel as [|f IH]; intros head prev Hh.
  - cbn [slide]. split; discriminate.
  - cbn [slide].
    destruct ((head =? zlen es) || (head <? 0)) eqn:Eend; [split; discriminate|].
    apply orb_false_iff in Eend. destruct Eend as [E1 E2].
    apply Z.eqb_neq in E1. apply Z.ltb_ge in E2.
    assert (Hh' : 0 <= head < zlen es) by lia.
    destruct (nth_error es (Z.to_nat head)) as [e|] eqn:En.
    2:{ apply nth_error_None in En. unfold zlen in Hh'. lia. }
    pose proof (Hc _ _ En) as Hr. rewrite Z2Nat.id in Hr by lia.
    pose proof (in_range_next_rel _ _ _ Hr) as Hnext.
    destruct Hr as [Hn [He [Hb [Hcn [_ Hs]]]]]. unfold shape_ok in Hs.
    destruct Hs as [Haj Hs]. fold (abs_jump e) in Haj.
    assert (Hor : forall o, (forall n, o = Some n -> 0 <= head + n <= zlen es) ->
                            -1 <= head + or1 o <= zlen es).
    { intros o Ho. pose proof (or1_range _ _ _ Hh' Ho). lia. }
    destruct (e_type e) as [ | | | | | | | | | | | | ] eqn:Et;
      try (split; discriminate);
      try (assert (Ea : e_abs e = false) by (apply (abs_jump_false _ Haj); rewrite Et; discriminate);
           specialize (Hnext Ea)).
    + (* check *) destruct (cond f head); [|split; discriminate]. apply IH. apply Hor. exact Hnext.
    + (* break *) apply IH. apply Hor. exact Hb.
    + (* continue *) apply IH. apply Hor. exact Hcn.
    + (* set *) apply IH. apply Hor. exact Hnext.
    + (* if *) destruct (cond f head); [apply IH; lia|].
      destruct (e_else e) as [n|]; [|exfalso; apply Hs; reflexivity].
      apply IH. specialize (He n eq_refl). lia.
    + (* while *) destruct (cond f head); [apply IH; apply Hor; exact Hnext|].
      destruct (e_brk e) as [n|]; [|exfalso; apply Hs; reflexivity].
      apply IH. specialize (Hb n eq_refl). lia.
    + (* jump *) destruct (e_next e) as [n|]; [|exfalso; apply Hs; reflexivity].
      specialize (Hn n eq_refl). destruct (e_abs e); apply IH; lia.
Qed.

Theorem compile_slide_safe : forall cond items es, compile items = Ok es ->
  forall fuel head prev, -1 <= head <= zlen es ->
  slide cond fuel es head prev <> SIndexError /\ slide cond fuel es head prev <> SKeyError.
Proof.
  intros cond items es H. apply closed_slide_safe. exact (compile_closed _ _ H).
Qed.

(* why shape_ok demands "`_absolute` only on jumps": in_range reads `_next` of ANY `_absolute`
   element as an absolute position, slide() does so only for a jump; on this flow slide() raises
   IndexError although every offset field, read that way, is in range.  (Compiler output never
   has `_absolute` on a non-jump: compile_abs_jump.) *)
Definition unsafe_flow : list elem :=
  [plain (TOther "a"); mkE TCheck (Some 2) true None None None [] None].

(* ------------------------------------------------------------------------------------------ *)
(* 4. the boolean checker decides closed_v1                                                    *)
(* ------------------------------------------------------------------------------------------ *)
Lemma inb_iff : forall lo hi x, inb lo hi x = true <-> lo <= x <= hi.
Proof.
  intros lo hi x. unfold inb. rewrite andb_true_iff, !Z.leb_le. tauto.
Qed.

Lemma opt_allb_iff : forall o p (Q : Z -> Prop),
  (forall n, p n = true <-> Q n) ->
  (opt_allb o p = true <-> forall n, o = Some n -> Q n).
Proof.
  intros o p Q HpQ. destruct o as [m|]; cbn [opt_allb].
  - rewrite HpQ. split.
    + intros Hm n Hn. apply some_inj in Hn. subst n. exact Hm.
    + intros H. apply H. reflexivity.
  - split; [intros _ n Hn; discriminate Hn | reflexivity].
Qed.

Lemma shape_okb_iff : forall e, shape_okb e = true <-> shape_ok e.
Proof.
  intros e. unfold shape_okb, shape_ok. rewrite andb_true_iff.
  assert (Habs : negb (e_abs e) || match e_type e with TJump => true | _ => false end = true <->
                 (e_abs e = true -> e_type e = TJump)).
  { destruct (e_abs e); cbn [negb orb].
    - destruct (e_type e) as [ | | | | | | | | | | | | ];
        (split; [intros Hx _; first [reflexivity | discriminate Hx]
                | intros Hx; first [reflexivity | specialize (Hx eq_refl); discriminate Hx]]).
    - split; [intros _ Hx; discriminate Hx | reflexivity]. }
  rewrite Habs. clear Habs.
  apply and_iff_compat_l.
  destruct (e_type e) as [ | | | | | | | | | | | | ];
    try (split; [intros _; exact I | reflexivity]);
    try (split; [intros Hx; discriminate Hx | intros []]).
  - destruct (e_else e); split; try discriminate; try reflexivity. intros H; exfalso; apply H; reflexivity.
  - destruct (e_brk e); split; try discriminate; try reflexivity. intros H; exfalso; apply H; reflexivity.
  - destruct (e_next e); split; try discriminate; try reflexivity. intros H; exfalso; apply H; reflexivity.
Qed.

Lemma in_rangeb_iff : forall len i e, in_rangeb len i e = true <-> in_range len i e.
Proof.
  intros len i e. unfold in_rangeb, in_range. rewrite !andb_true_iff.
  rewrite (opt_allb_iff (e_next e) _
             (fun n => if e_abs e then -1 <= n <= len else 0 <= i + n <= len)).
  2:{ intros n. destruct (e_abs e); apply inb_iff. }
  rewrite (opt_allb_iff (e_else e) _ (fun n => 0 <= i + n <= len)) by (intros n; apply inb_iff).
  rewrite (opt_allb_iff (e_brk e) _ (fun n => 0 <= i + n <= len)) by (intros n; apply inb_iff).
  rewrite (opt_allb_iff (e_cont e) _ (fun n => 0 <= i + n <= len)) by (intros n; apply inb_iff).
  rewrite shape_okb_iff, forallb_forall.
  assert (Hheads : (forall h, In h (e_heads e) -> inb 0 (len - 1) (i + h) = true) <->
                   (forall h, In h (e_heads e) -> 0 <= i + h < len)).
  { split; intros H h Hin; specialize (H h Hin).
    - apply inb_iff in H. lia.
    - apply inb_iff. lia. }
  rewrite Hheads. tauto.
Qed.

Lemma wf_fromb_iff : forall len es i,
  wf_fromb len i es = true <-> all_from (in_range len) i es.
Proof.
  intros len es. induction es as [|x es IHes]; intros i; cbn [wf_fromb all_from].
  - tauto.
  - rewrite andb_true_iff, in_rangeb_iff, IHes. tauto.
Qed.

Theorem offsets_okb_iff : forall es, offsets_okb es = true <-> closed_v1 es.
Proof.
  intros es. unfold offsets_okb. rewrite wf_fromb_iff. apply all_from_in_range_closed.
Qed.

Example unsafe_flow_rejected :
  offsets_okb unsafe_flow = false /\ ~ closed_v1 unsafe_flow /\
  slide (fun _ _ => true) 2 unsafe_flow 1 0 = SIndexError.
Proof.
  split; [reflexivity|]. split; [|reflexivity].
  intros Hc. apply offsets_okb_iff in Hc. discriminate Hc.
Qed.

(* ------------------------------------------------------------------------------------------ *)
(* 5. when _resolve_gotos raises                                                               *)
(* ------------------------------------------------------------------------------------------ *)
Lemma resolve_one_err : forall all i e x,
  resolve_one all i e = Err x ->
  x = UndefLabel /\ exists n, e_type e = TGoto n /\ label_pos n all = None.
Proof.
  intros all i e x H. unfold resolve_one in H.
  destruct (e_type e) as [ | | | | | | | n | | | | | ]; try discriminate H.
  destruct (label_pos n all) eqn:El; [discriminate H|].
  split; [congruence | exists n; split; [reflexivity | exact El]].
Qed.

Lemma resolve_one_ok_or_undef : forall all i e,
  (exists e', resolve_one all i e = Ok e') \/
  (resolve_one all i e = Err UndefLabel).
Proof.
  intros all i e. destruct (resolve_one all i e) as [e'|x] eqn:E.
  - left. exists e'. reflexivity.
  - right. apply resolve_one_err in E. destruct E as [Hx _]. subst x. reflexivity.
Qed.

Lemma resolve_from_err : forall all es i x,
  resolve_from all i es = Err x ->
  x = UndefLabel /\ exists e n, In e es /\ e_type e = TGoto n /\ label_pos n all = None.
Proof.
  intros all es. induction es as [|y es IHes]; intros i x H; cbn [resolve_from] in H.
  - discriminate H.
  - destruct (resolve_one all i y) as [y'|err] eqn:Ey.
    + destruct (resolve_from all (i + 1) es) as [r'|err] eqn:Er; [discriminate H|].
      assert (err = x) by congruence. subst err.
      destruct (IHes _ _ Er) as [Hx [e [n [Hin [Ht Hl]]]]].
      split; [exact Hx|]. exists e, n. split; [right; exact Hin | split; assumption].
    + assert (err = x) by congruence. subst err.
      apply resolve_one_err in Ey. destruct Ey as [Hx [n [Ht Hl]]].
      split; [exact Hx|]. exists y, n. split; [left; reflexivity | split; assumption].
Qed.

Lemma resolve_from_undef : forall all es i e n,
  In e es -> e_type e = TGoto n -> label_pos n all = None ->
  resolve_from all i es = Err UndefLabel.
Proof.
  intros all es. induction es as [|y es IHes]; intros i e n Hin Ht Hl; cbn [resolve_from].
  - contradiction Hin.
  - destruct Hin as [Heq | Hin].
    + subst y. unfold resolve_one. rewrite Ht, Hl. reflexivity.
    + destruct (resolve_one_ok_or_undef all i y) as [[y' Hy] | Hy]; rewrite Hy; [|reflexivity].
      rewrite (IHes (i + 1) e n Hin Ht Hl). reflexivity.
Qed.

Theorem compile_errors : forall items,
  compile items = Err DupLabel <-> has_dup (labels_of (extract items)) = true.
Proof.
  intros items. unfold compile, resolve_gotos.
  destruct (has_dup (labels_of (extract items))).
  - split; reflexivity.
  - destruct (resolve_from (extract items) 0 (extract items)) as [es|x] eqn:Er.
    + split; intros H; discriminate H.
    + apply resolve_from_err in Er. destruct Er as [Hx _]. subst x.
      split; intros H; discriminate H.
Qed.

Theorem compile_undef : forall items,
  compile items = Err UndefLabel <->
  has_dup (labels_of (extract items)) = false /\
  exists e n, In e (extract items) /\ e_type e = TGoto n /\ label_pos n (extract items) = None.
Proof.
  intros items. unfold compile, resolve_gotos.
  destruct (has_dup (labels_of (extract items))).
  - split; [intros H; discriminate H | intros [H _]; discriminate H].
  - split.
    + intros H. split; [reflexivity|].
      destruct (resolve_from (extract items) 0 (extract items)) as [es|x] eqn:Er; [discriminate H|].
      apply resolve_from_err in Er. destruct Er as [_ Hex]. exact Hex.
    + intros [_ [e [n [Hin [Ht Hl]]]]].
      rewrite (resolve_from_undef _ _ 0 e n Hin Ht Hl). reflexivity.
Qed.

(* ------------------------------------------------------------------------------------------ *)
(* 6. the hypotheses are inhabited by a non-trivial tree                                       *)
(* ------------------------------------------------------------------------------------------ *)
Open Scope string_scope.

(* label; while { check; if {break; a} else {continue; $x = ...}; while {break} };
   three branches (the second one empty, the third one ends in `return`); any; goto *)
Definition ex_items : list item :=
  [ ILeaf (LLabel "top");
    IWhile [ ILeaf LCheck;
             IIf [ILeaf LBreak; ILeaf (LOther "a")] [ILeaf LContinue; ILeaf (LSet true)];
             IWhile [ILeaf LBreak] ];
    IList [ILeaf (LOther "b1")]; IList []; IList [ILeaf (LOther "b3"); ILeaf LReturn];
    IAny [LOther "x"; LOther "y"];
    ILeaf (LGoto "top") ].

Definition ex_elems : list elem :=
  [ mkE TJump (Some 1) false None None None [] (Some "top");
    mkE TWhile None false None (Some 12) None [] None;
    mkE TCheck None false None (Some 11) (Some (-1)) [] None;
    mkE TIf None false (Some 4) (Some 10) (Some (-2)) [] None;
    mkE TBreak None false None (Some 9) (Some (-3)) [] None;
    mkE (TOther "a") None false None (Some 8) (Some (-4)) [] None;
    mkE TJump (Some 3) false None (Some 7) (Some (-5)) [] None;
    mkE TContinue None false None (Some 6) (Some (-6)) [] None;
    plain (TOther "run_action");
    mkE TWhile None false None (Some 3) None [] None;
    mkE TBreak None false None (Some 2) (Some (-1)) [] None;
    mkE TJump (Some (-2)) false None (Some 2) (Some (-10)) [] None;
    jump (-11);
    mkE TBranch None false None None None [1; 3; 4] None;
    plain (TOther "b1");
    jump 5;
    jump 4;
    plain (TOther "b3");
    mkE TJump (Some (-1)) true None None None [] None;
    jump 1;
    plain TAny;
    plain (TOther "x");
    plain (TOther "y");
    jump (-23) ].

Example ex_compile : compile ex_items = Ok ex_elems.
Proof. vm_compute. reflexivity. Qed.

Example ex_closed : closed_v1 ex_elems.
Proof. exact (compile_closed _ _ ex_compile). Qed.

Example ex_slide_safe : forall cond fuel,
  slide cond fuel ex_elems 0 0 <> SIndexError /\ slide cond fuel ex_elems 0 0 <> SKeyError.
Proof.
  intros cond fuel. apply (compile_slide_safe cond _ _ ex_compile). unfold zlen. cbn. lia.
Qed.

Print Assumptions compile_closed.
Print Assumptions compile_targets.
Print Assumptions compile_slide_safe.
Print Assumptions closed_slide_safe.
Print Assumptions offsets_okb_iff.
Print Assumptions compile_undef.
