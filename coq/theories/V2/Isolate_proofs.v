(* C10 part 3 proofs: a raising element fails only its flow (and descendants); the retry loop ends. *)
From Coq Require Import List Arith Bool Lia.
From NG Require Import V2.Term V2.Isolate.
Import ListNotations.

Lemma set_nth_length : forall A (l : list A) n a, length (set_nth l n a) = length l.
Proof. induction l; destruct n; simpl; intros; auto. Qed.

Lemma nth_error_set_nth_eq : forall A (l : list A) n a, n < length l -> nth_error (set_nth l n a) n = Some a.
Proof. induction l; destruct n; simpl; intros; try lia; auto. apply IHl. lia. Qed.

Lemma nth_error_set_nth_neq : forall A (l : list A) n m a, n <> m -> nth_error (set_nth l n a) m = nth_error l m.
Proof. induction l; destruct n; destruct m; simpl; intros; try congruence; auto. Qed.

Lemma get_set_eq : forall st u i i0, get st u = Some i0 -> get (set_inst st u i) u = Some i.
Proof. unfold get, set_inst; simpl; intros. apply nth_error_set_nth_eq. apply nth_error_Some. congruence. Qed.

Lemma get_set_neq : forall st u x i, u <> x -> get (set_inst st u i) x = get st x.
Proof. unfold get, set_inst; simpl; intros. apply nth_error_set_nth_neq; assumption. Qed.

Lemma get_push : forall st e x, get (push st e) x = get st x. Proof. reflexivity. Qed.
Lemma get_push_left : forall st e x, get (push_left st e) x = get st x. Proof. reflexivity. Qed.

Definition same_ctl (st st' : state) (x : nat) : Prop :=
  option_map control (get st x) = option_map control (get st' x).

Definition shrunk (st st' : state) : Prop :=
  forall x i', get st' x = Some i' -> exists i, get st x = Some i /\ incl (i_children i') (i_children i).

Definition qext (st st' : state) : Prop := exists pre post, queue st' = pre ++ queue st ++ post.

Definition frame (D : nat -> Prop) (st st' : state) : Prop :=
  length (insts st') = length (insts st) /\
  (forall x, ~ D x -> same_ctl st st' x) /\
  shrunk st st' /\ qext st st'.

Definition closed (st : state) (D : nat -> Prop) : Prop :=
  forall x i c, D x -> get st x = Some i -> In c (i_children i) -> D c.

Lemma frame_refl : forall D st, frame D st st.
Proof.
  intros. split; [reflexivity|]. split; [|split].
  - intros x _. reflexivity.
  - intros x i' H. exists i'. split; [assumption | apply incl_refl].
  - exists [], []. rewrite app_nil_r. reflexivity.
Qed.

Lemma frame_trans : forall D a b c, frame D a b -> frame D b c -> frame D a c.
Proof.
  intros D a b c [L1 [C1 [S1 Q1]]] [L2 [C2 [S2 Q2]]]. split; [|split; [|split]].
  - congruence.
  - intros x Hx. unfold same_ctl in *. rewrite (C1 x Hx). apply C2. assumption.
  - intros x i' H. destruct (S2 x i' H) as [ib [Hb Ib]]. destruct (S1 x ib Hb) as [ia [Ha Ia]].
    exists ia. split; [assumption | eapply incl_tran; eassumption].
  - destruct Q1 as [p1 [q1 E1]]. destruct Q2 as [p2 [q2 E2]].
    exists (p2 ++ p1), (q1 ++ q2). rewrite E2, E1. repeat rewrite <- app_assoc. reflexivity.
Qed.

Lemma closed_shrunk : forall D st st', closed st D -> shrunk st st' -> closed st' D.
Proof.
  intros D st st' Hc Hs x i' c Dx Hg Hin.
  destruct (Hs x i' Hg) as [i [Hi Hincl]]. eapply Hc; eauto.
Qed.

Lemma frame_push : forall D st e, frame D st (push st e).
Proof.
  intros. split; [reflexivity|]. split; [|split].
  - intros x _. reflexivity.
  - intros x i' H. exists i'. split; [assumption | apply incl_refl].
  - exists [], [e]. reflexivity.
Qed.

Lemma frame_push_left : forall D st e, frame D st (push_left st e).
Proof.
  intros. split; [reflexivity|]. split; [|split].
  - intros x _. reflexivity.
  - intros x i' H. exists i'. split; [assumption | apply incl_refl].
  - exists [e], []. simpl. rewrite app_nil_r. reflexivity.
Qed.

(* updating an instance inside D, not growing its child list *)
Lemma frame_set_in : forall (D : nat -> Prop) st u i0 i,
  D u -> get st u = Some i0 -> incl (i_children i) (i_children i0) -> frame D st (set_inst st u i).
Proof.
  intros D st u i0 i Du Hg Hincl. split; [|split; [|split]].
  - simpl. apply set_nth_length.
  - intros x Hx. unfold same_ctl. rewrite get_set_neq; [reflexivity|]. intros ->. contradiction.
  - intros x i' H. destruct (Nat.eq_dec u x) as [->|Hne].
    + rewrite (get_set_eq _ _ _ _ Hg) in H. inversion H; subst. exists i0. split; assumption.
    + rewrite get_set_neq in H by assumption. exists i'. split; [assumption|apply incl_refl].
  - exists [], []. simpl. rewrite app_nil_r. reflexivity.
Qed.

(* shrinking the child list of any instance *)
Lemma frame_set_children : forall (D : nat -> Prop) st p pi cs,
  get st p = Some pi -> incl cs (i_children pi) -> frame D st (set_inst st p (with_children pi cs)).
Proof.
  intros D st p pi cs Hg Hincl. split; [|split; [|split]].
  - simpl. apply set_nth_length.
  - intros x _. unfold same_ctl. destruct (Nat.eq_dec p x) as [->|Hne].
    + rewrite (get_set_eq _ _ _ _ Hg), Hg. reflexivity.
    + rewrite get_set_neq by assumption. reflexivity.
  - intros x i' H. destruct (Nat.eq_dec p x) as [->|Hne].
    + rewrite (get_set_eq _ _ _ _ Hg) in H. inversion H; subst. exists pi. split; assumption.
    + rewrite get_set_neq in H by assumption. exists i'. split; [assumption|apply incl_refl].
  - exists [], []. simpl. rewrite app_nil_r. reflexivity.
Qed.

Lemma remove_nat_incl : forall x l, incl (remove_nat x l) l.
Proof. intros x l y H. unfold remove_nat in H. apply filter_In in H. tauto. Qed.

Lemma abort_frame : forall (D : nat -> Prop) fuel st u d r st',
  closed st D -> D u -> abort fuel st u d r = Some st' -> frame D st st'.
Proof.
  intros D. induction fuel as [|f IH]; intros st u d r st' Hcl Du Hab; [discriminate|].
  simpl in Hab.
  destruct (get st u) as [i|] eqn:Hgu; [|inversion Hab; subst; apply frame_refl].
  destruct (negb (listening (i_status i)) && negb (is_stopping (i_status i)));
    [inversion Hab; subst; apply frame_refl|].
  (* the children loop *)
  set (kids := fix kids (ks : list nat) (s : state) {struct ks} : option state :=
                 match ks with
                 | [] => Some s
                 | c :: ks' =>
                     match get s c with
                     | None => kids ks' s
                     | Some ci =>
                         if child_activated s ci then kids ks' s
                         else match abort f s c true true with
                              | None => None
                              | Some s' => kids ks' s'
                              end
                     end
                 end) in *.
  assert (Hkids : forall ks s s1, (forall c, In c ks -> D c) -> closed s D ->
                    kids ks s = Some s1 -> frame D s s1).
  { induction ks as [|c ks IHks]; intros s s1 Hin Hc Hk; simpl in Hk.
    - inversion Hk; subst. apply frame_refl.
    - destruct (get s c) as [ci|] eqn:Hgc.
      + destruct (child_activated s ci).
        * apply IHks; auto. intros; apply Hin; right; assumption.
        * destruct (abort f s c true true) as [s'|] eqn:Ha; [|discriminate].
          assert (F1 : frame D s s') by (apply (IH s c true true s' Hc (Hin c (or_introl eq_refl)) Ha)).
          eapply frame_trans; [exact F1|].
          apply IHks; auto.
          -- intros; apply Hin; right; assumption.
          -- eapply closed_shrunk; [exact Hc|]. apply F1.
      + apply IHks; auto. intros; apply Hin; right; assumption. }
  destruct (kids (i_children i) st) as [s1|] eqn:Hk; [|discriminate].
  assert (F1 : frame D st s1).
  { apply Hkids with (ks := i_children i); auto. intros c Hc. eapply Hcl; eauto. }
  clearbody kids.
  destruct (get s1 u) as [i1|] eqn:Hg1; [|inversion Hab; subst; exact F1].
  set (s2 := set_inst s1 u (with_heads i1 [])) in *.
  assert (F2 : frame D s1 s2).
  { unfold s2. eapply frame_set_in; eauto. apply incl_refl. }
  set (s3 := if Nat.eqb (i_activated i1) 0 then
               match i_parent i1 with
               | Some p => match get s2 p with
                           | Some pi => set_inst s2 p (with_children pi (remove_nat u (i_children pi)))
                           | None => s2
                           end
               | None => s2
               end
             else s2) in *.
  assert (F3 : frame D s2 s3).
  { unfold s3. destruct (Nat.eqb (i_activated i1) 0); [|apply frame_refl].
    destruct (i_parent i1) as [p|]; [|apply frame_refl].
    destruct (get s2 p) as [pi|] eqn:Hgp; [|apply frame_refl].
    apply frame_set_children; [assumption | apply remove_nat_incl]. }
  assert (F03 : frame D st s3) by (eapply frame_trans; [exact F1|]; eapply frame_trans; eassumption).
  destruct (get s3 u) as [i3|] eqn:Hg3; [|inversion Hab; subst; exact F03].
  set (s4 := push (set_inst s3 u (with_status i3 Stopped)) (EvFlowFailed u)) in *.
  assert (F4 : frame D s3 s4).
  { unfold s4. eapply frame_trans; [|apply frame_push].
    eapply frame_set_in; eauto. apply incl_refl. }
  assert (F04 : frame D st s4) by (eapply frame_trans; eassumption).
  destruct (negb d && r && Nat.ltb 0 (i_activated i3) && negb (i_new_started i3));
    [|inversion Hab; subst; exact F04].
  destruct (get s4 u) as [i4|] eqn:Hg4; [|inversion Hab; subst; exact F04].
  inversion Hab; subst. eapply frame_trans; [exact F04|].
  eapply frame_trans; [apply frame_push_left|].
  eapply frame_set_in; eauto. apply incl_refl.
Qed.

Lemma reach_closed : forall st u, closed st (reach st u).
Proof. intros st u x i c Hr Hg Hin. eapply reach_step; eauto. Qed.

Lemma fold_push_frame : forall D (l : list (flowid * bool)) u st,
  frame D st (fold_left (fun s fa => push s (EvStartFlow (fst fa) u (snd fa))) l st).
Proof.
  intros D l u. induction l as [|a l IH]; intros st; simpl; [apply frame_refl|].
  eapply frame_trans; [apply frame_push|]. apply IH.
Qed.

Lemma frame_queue_in : forall D st st' e, frame D st st' -> In e (queue st) -> In e (queue st').
Proof.
  intros D st st' e [_ [_ [_ [pre [post E]]]]] Hin. rewrite E.
  apply in_or_app; right; apply in_or_app; left; assumption.
Qed.

(* with_status / set_head do not touch the child list *)
Lemma set_head_children : forall i h hd, i_children (set_head i h hd) = i_children i.
Proof. reflexivity. Qed.

(* MAIN: if the slide of head `hidx` of instance `u` raises, the resulting state differs from the
   old one only inside the sub-tree of `u` (child lists elsewhere can only lose entries), nothing
   is removed from the event queue, and a ColangError event is queued. *)
Theorem error_isolated : forall guard prog st u hidx orc st' i hd es p,
  get st u = Some i ->
  nth_error (i_heads i) hidx = Some hd ->
  nth_error prog (i_flow i) = Some es ->
  h_status hd <> HInactive -> listening (i_status i) = true ->
  s_stop (slide (length es + 1) es orc
                (match h_status hd with HActive => S (h_pos hd) | _ => h_pos hd end) (h_catch hd)) = Raised p ->
  advance guard prog st u hidx orc = Some st' ->
  (* frame *)
  length (insts st') = length (insts st) /\
  (forall x, ~ reach st u x -> option_map control (get st x) = option_map control (get st' x)) /\
  (forall x i', get st' x = Some i' -> exists i0, get st x = Some i0 /\ incl (i_children i') (i_children i0)) /\
  (exists pre post, queue st' = pre ++ queue st ++ post /\ In EvColangError post).
Proof.
  intros guard prog st u hidx orc st' i hd es p Hg Hh He Hact Hl Hs Hadv.
  unfold advance in Hadv. rewrite Hg, Hh, He in Hadv.
  assert (Hina : (match h_status hd with HInactive => true | _ => false end) = false)
    by (destruct (h_status hd); congruence).
  rewrite Hina, Hl in Hadv. change (false || negb true) with false in Hadv. cbv iota in Hadv. rewrite Hs in Hadv.
  set (i_a := match i_status i with Waiting => with_status i Starting | _ => i end) in *.
  set (st_a := set_inst st u i_a) in *.
  set (r := slide (length es + 1) es orc
                  (match h_status hd with HActive => S (h_pos hd) | _ => h_pos hd end) (h_catch hd)) in *.
  set (st_b := fold_left (fun s fa => push s (EvStartFlow (fst fa) u (snd fa))) (s_starts r) st_a) in *.
  set (hd' := {| h_pos := p; h_status := h_status hd; h_catch := s_catch r |}) in *.
  set (st_c0 := set_inst st_b u (set_head i_a hidx hd')) in *.
  set (st_c := push st_c0 EvColangError) in *.
  set (D := reach st u).
  assert (Du : D u) by apply reach_refl.
  assert (Hia_ch : i_children i_a = i_children i) by (unfold i_a; destruct (i_status i); reflexivity).
  assert (Fa : frame D st st_a).
  { unfold st_a. eapply frame_set_in; eauto. rewrite Hia_ch. apply incl_refl. }
  assert (Fb : frame D st_a st_b) by (unfold st_b; apply fold_push_frame).
  assert (Hgb : get st_b u = Some i_a).
  { assert (Hga : get st_a u = Some i_a) by (unfold st_a; eapply get_set_eq; eauto).
    clear - Hga. unfold st_b. generalize (s_starts r) st_a Hga.
    induction l as [|a l IH]; intros s Hs; simpl; [assumption|]. apply IH. rewrite get_push. assumption. }
  assert (Fc0 : frame D st_b st_c0).
  { unfold st_c0. eapply frame_set_in; eauto. rewrite set_head_children. apply incl_refl. }
  assert (Fc : frame D st st_c).
  { eapply frame_trans; [exact Fa|]. eapply frame_trans; [exact Fb|].
    eapply frame_trans; [exact Fc0|]. apply frame_push. }
  assert (Hclosed : closed st_c D).
  { eapply closed_shrunk; [apply reach_closed|]. apply Fc. }
  assert (Fab : frame D st_c st') by (eapply abort_frame; eauto).
  assert (F : frame D st st') by (eapply frame_trans; eassumption).
  destruct F as [FL [FC [FS _]]].
  repeat split; try assumption.
  (* the queue *)
  destruct Fa as [_ [_ [_ [pa [qa Ea]]]]]. destruct Fb as [_ [_ [_ [pb [qb Eb]]]]].
  destruct Fc0 as [_ [_ [_ [pc [qc Ec]]]]]. destruct Fab as [_ [_ [_ [pd [qd Ed]]]]].
  exists (pd ++ pc ++ pb ++ pa), (qa ++ qb ++ qc ++ [EvColangError] ++ qd).
  split.
  - rewrite Ed. unfold st_c. unfold push at 1. cbn [queue]. rewrite Ec, Eb, Ea. repeat rewrite <- app_assoc. reflexivity.
  - apply in_or_app; right. apply in_or_app; right. apply in_or_app; right. left; reflexivity.
Qed.

(* consequence: the heads on which other instances listen are exactly the same afterwards, so
   those instances are candidates for the current and for all later events as before *)
Definition listening_heads (st : state) (x : nat) : list head :=
  match get st x with
  | Some i => if listening (i_status i) then filter (fun h => match h_status h with HInactive => false | _ => true end) (i_heads i) else []
  | None => []
  end.

Corollary others_still_listen : forall guard prog st u hidx orc st' i hd es p,
  get st u = Some i ->
  nth_error (i_heads i) hidx = Some hd ->
  nth_error prog (i_flow i) = Some es ->
  h_status hd <> HInactive -> listening (i_status i) = true ->
  s_stop (slide (length es + 1) es orc
                (match h_status hd with HActive => S (h_pos hd) | _ => h_pos hd end) (h_catch hd)) = Raised p ->
  advance guard prog st u hidx orc = Some st' ->
  forall x, ~ reach st u x -> listening_heads st' x = listening_heads st x.
Proof.
  intros guard prog st u hidx orc st' i hd es p Hg Hh He Hact Hl Hs Hadv x Hx.
  destruct (error_isolated guard prog st u hidx orc st' i hd es p Hg Hh He Hact Hl Hs Hadv) as [_ [HC _]].
  specialize (HC x Hx). unfold listening_heads.
  destruct (get st x) as [a|], (get st' x) as [b|]; simpl in HC; try discriminate; [|reflexivity].
  unfold control in HC. inversion HC. reflexivity.
Qed.

(* the faulty instance itself no longer listens *)
Lemma abort_stops : forall fuel st u d r st' i,
  abort fuel st u d r = Some st' -> get st u = Some i ->
  listening (i_status i) = true \/ i_status i = Stopping ->
  exists i', get st' u = Some i' /\ i_status i' = Stopped /\ i_heads i' = [].
Proof.
  intros fuel st u d r st' i Hab Hg Hl. destruct fuel as [|f]; [discriminate|].
  simpl in Hab. rewrite Hg in Hab.
  assert (Hc : negb (listening (i_status i)) && negb (is_stopping (i_status i)) = false).
  { destruct Hl as [Hl|Hl]; [rewrite Hl; reflexivity | rewrite Hl; reflexivity]. }
  rewrite Hc in Hab.
  match type of Hab with match ?K with _ => _ end = _ => destruct K as [s1|] eqn:Hk; [|discriminate] end.
  destruct (get s1 u) as [i1|] eqn:Hg1.
  2:{ (* u vanished: impossible, but then st' = s1 *) exfalso.
      (* length is preserved by the children loop; use abort_frame with D := fun _ => True *)
      assert (F : frame (fun _ => True) st s1).
      { clear Hab. revert Hk. generalize (i_children i) st. 
        induction l as [|c ks IH]; intros s Hk; simpl in Hk.
        - inversion Hk; subst; apply frame_refl.
        - destruct (get s c) as [ci|]; [|apply IH; assumption].
          destruct (child_activated s ci); [apply IH; assumption|].
          destruct (abort f s c true true) as [s'|] eqn:Ha; [|discriminate].
          eapply frame_trans; [|apply IH; eassumption].
          eapply abort_frame with (D := fun _ => True); eauto. intros x0 i0 c0 _ _ _. exact I. }
      destruct F as [FL _]. unfold get in Hg, Hg1.
      apply nth_error_None in Hg1. assert (u < length (insts st)) by (apply nth_error_Some; congruence). lia. }
  set (s2 := set_inst s1 u (with_heads i1 [])) in *.
  assert (Hg2 : get s2 u = Some (with_heads i1 [])) by (unfold s2; eapply get_set_eq; eauto).
  set (s3 := if Nat.eqb (i_activated i1) 0 then
               match i_parent i1 with
               | Some p => match get s2 p with
                           | Some pi => set_inst s2 p (with_children pi (remove_nat u (i_children pi)))
                           | None => s2
                           end
               | None => s2
               end
             else s2) in *.
  assert (Hg3 : exists i3, get s3 u = Some i3 /\ i_heads i3 = []).
  { unfold s3. destruct (Nat.eqb (i_activated i1) 0); [|eauto].
    destruct (i_parent i1) as [p|]; [|eauto].
    destruct (get s2 p) as [pi|] eqn:Hgp; [|eauto].
    destruct (Nat.eq_dec p u) as [->|Hne].
    - rewrite (get_set_eq _ _ _ _ Hgp). rewrite Hg2 in Hgp. inversion Hgp; subst. eauto.
    - rewrite get_set_neq by assumption. eauto. }
  destruct Hg3 as [i3 [Hg3 Hh3]]. rewrite Hg3 in Hab.
  set (s4 := push (set_inst s3 u (with_status i3 Stopped)) (EvFlowFailed u)) in *.
  assert (Hg4 : get s4 u = Some (with_status i3 Stopped)).
  { unfold s4. rewrite get_push. eapply get_set_eq; eauto. }
  destruct (negb d && r && Nat.ltb 0 (i_activated i3) && negb (i_new_started i3)).
  - rewrite Hg4 in Hab. inversion Hab; subst.
    exists (with_new_started (with_status i3 Stopped) true). split; [|split; [reflexivity|assumption]].
    eapply get_set_eq. rewrite get_push_left. eassumption.
  - inversion Hab; subst. exists (with_status i3 Stopped). split; [assumption|split; [reflexivity|assumption]].
Qed.

(* ------------------------------------------------------------------------------------------ *)
(* the retry loop *)

Theorem retry_terminates : forall St Ev Exn (rtc : St -> Ev -> St * option Exn) (ce : Exn -> Ev),
  (forall st x, snd (rtc st (ce x)) = None) ->
  forall st ev, retry St Ev Exn rtc ce 2 st ev <> None.
Proof.
  intros St Ev Exn rtc ce H st ev. simpl.
  destruct (rtc st ev) as [st1 [x|]] eqn:E1; [|discriminate].
  specialize (H st1 x). destruct (rtc st1 (ce x)) as [st2 [y|]]; simpl in H; [discriminate|discriminate].
Qed.

(* without the assumption the loop need not end: a handler for ColangError that itself raises *)
Theorem retry_unbounded_without_assumption :
  exists hs, ~ no_raising_error_handler hs /\
    forall n, retry _ _ _ (rtc_match false) (fun _ => ev_colang_error) n hs ev_colang_error = None.
Proof.
  exists [{| m_event := ev_colang_error; m_raises := true |}]. split.
  - intros H. specialize (H _ (or_introl eq_refl) eq_refl). discriminate.
  - induction n as [|n IH]; [reflexivity|]. simpl. exact IH.
Qed.

Lemma rtc_match_colang_ok : forall catch hs,
  no_raising_error_handler hs -> snd (rtc_match catch hs ev_colang_error) = None.
Proof.
  intros catch hs H. unfold rtc_match.
  destruct (existsb (fun h => Nat.eqb (m_event h) ev_colang_error && m_raises h) hs) eqn:E; [|reflexivity].
  apply existsb_exists in E. destruct E as [h [Hin Hb]]. apply andb_true_iff in Hb. destruct Hb as [He Hr].
  apply Nat.eqb_eq in He. rewrite (H h Hin He) in Hr. discriminate.
Qed.

Lemma rtc_match_preserves : forall catch hs ev,
  no_raising_error_handler hs -> no_raising_error_handler (fst (rtc_match catch hs ev)).
Proof.
  intros catch hs ev H h Hin. unfold rtc_match in Hin.
  destruct (existsb (fun h => Nat.eqb (m_event h) ev && m_raises h) hs); [destruct catch|]; simpl in Hin;
    try (apply filter_In in Hin; destruct Hin as [Hin _]); apply H; assumption.
Qed.

Theorem no_escape_unchanged : forall hs ev,
  no_raising_error_handler hs ->
  retry _ _ _ (rtc_match false) (fun _ => ev_colang_error) 2 hs ev <> None.
Proof.
  intros hs ev H. simpl.
  destruct (rtc_match false hs ev) as [h1 [x|]] eqn:E1; [|discriminate].
  assert (H1 : no_raising_error_handler h1).
  { replace h1 with (fst (rtc_match false hs ev)) by (rewrite E1; reflexivity). apply rtc_match_preserves; assumption. }
  pose proof (rtc_match_colang_ok false h1 H1) as H2.
  destruct (rtc_match false h1 ev_colang_error) as [h2 [y|]]; simpl in H2; discriminate.
Qed.

(* with the match-error patch run_to_completion never lets the exception out: one iteration *)
Theorem no_escape_repaired : forall hs ev,
  retry _ _ _ (rtc_match true) (fun _ => ev_colang_error) 1 hs ev <> None.
Proof.
  intros hs ev. simpl. unfold rtc_match.
  destruct (existsb (fun h => Nat.eqb (m_event h) ev && m_raises h) hs); discriminate.
Qed.

(* the hypotheses of error_isolated are inhabited: instance 1 of ex_state raises in its second step;
   it and its child 3 are stopped, the bystander 2 and main 0 are untouched, the queued event
   is still there, ColangError and the two FlowFailed events follow, the activated flow is
   restarted (it had been STARTED) *)
Example ex_error_isolated :
  s_stop (slide 6 [EWaitInt true; EBlock BMatch; EStep; EStep; EBlock BMatch] ex_orc 2 []) = Raised 3 /\
  exists st', advance true ex_prog ex_state 1 0 ex_orc = Some st' /\
    option_map i_status (get st' 1) = Some Stopped /\ option_map i_status (get st' 3) = Some Stopped /\
    get st' 2 = get ex_state 2 /\ get st' 0 = get ex_state 0 /\
    queue st' = [EvStartFlow 1 1 true; EvOther 7; EvColangError; EvFlowFailed 3; EvFlowFailed 1].
Proof. split; [reflexivity|]. eexists. split; [vm_compute; reflexivity|]. repeat split. Qed.

(* with the repaired guard a flow that raises while still STARTING is not restarted *)
Example ex_guard_blocks_restart :
  let st0 := {| insts := [ mk_inst 0 Started [mk_head 3] None [1] 1;
                           mk_inst 1 Waiting [mk_head 0] (Some 0) [] 1 ]; queue := [] |} in
  (exists st', advance true ex_prog st0 1 0 (fun _ => ORaise) = Some st' /\
               queue st' = [EvColangError; EvFlowFailed 1]) /\
  (exists st', advance false ex_prog st0 1 0 (fun _ => ORaise) = Some st' /\
               queue st' = [EvStartFlow 1 1 true; EvColangError; EvFlowFailed 1]).
Proof. split; eexists; (split; [vm_compute; reflexivity|reflexivity]). Qed.

(* ------------------------------------------------------------------------------------------ *)
(* snapshot discipline of the matching phase *)

Lemma match_phase_deferred_safe : forall fuel raises cands st errs,
  Forall (cand_valid st) cands ->
  forall u h, match_phase false fuel cands raises st errs <> MLookupError u h.
Proof.
  intros fuel raises. induction cands as [|[u h] cs IH]; intros st errs Hv u0 h0; simpl.
  - destruct (abort_all fuel (rev errs) st); discriminate.
  - inversion Hv as [|x l [i [hd [Hg Hn]]] Hrest]; subst. simpl in Hg, Hn. rewrite Hg, Hn.
    destruct (raises u h).
    + apply IH. eapply Forall_impl; [|exact Hrest].
      intros c [i' [hd' [Hg' Hn']]]. exists i', hd'. split; assumption.
    + apply IH. assumption.
Qed.

Lemma match_phase_immediate_refuted :
  exists st cands raises, Forall (cand_valid st) cands /\
    match_phase true 10 cands raises st [] = MLookupError 1 1.
Proof.
  exists ex_two_heads, [(1, 0); (1, 1); (2, 0)], (fun u h => Nat.eqb u 1 && Nat.eqb h 0). split.
  - repeat (constructor; [unfold cand_valid; simpl; repeat eexists|]). constructor.
  - vm_compute. reflexivity.
Qed.

(* with the deferred abort the same state is handled: the faulty instance is stopped, the bystander
   instance 2 is untouched and ColangError is queued *)
Example ex_match_phase_deferred :
  exists st', match_phase false 10 [(1, 0); (1, 1); (2, 0)] (fun u h => Nat.eqb u 1 && Nat.eqb h 0) ex_two_heads [] = MOk st' /\
    option_map i_status (get st' 1) = Some Stopped /\ get st' 2 = get ex_two_heads 2 /\
    queue st' = [EvColangError; EvFlowFailed 1].
Proof. eexists. split; [vm_compute; reflexivity|]. repeat split. Qed.

(* ------------------------------------------------------------------------------------------ *)
(* the outer loop of process_events ends because of the max_events cap, whatever the flows send *)

Lemma pe_round_spec : forall St Ev (rtc : St -> Ev -> St * list Ev) max inp cnt st out st' cnt' out' stopped,
  pe_round St Ev rtc max cnt st inp out = (st', cnt', out', stopped) ->
  stopped = false -> cnt' = cnt + length inp /\ (inp <> [] -> cnt' <= max).
Proof.
  intros St Ev rtc max. induction inp as [|e inp IH]; intros cnt st out st' cnt' out' stopped H Hs; simpl in H.
  - inversion H; subst. split; [simpl; lia|]. intros Hn. congruence.
  - destruct (Nat.ltb max (S cnt)) eqn:Hlt.
    + inversion H; subst. discriminate.
    + apply Nat.ltb_ge in Hlt. destruct (rtc st e) as [st1 o].
      destruct (IH _ _ _ _ _ _ _ H Hs) as [A B]. split; [simpl; lia|].
      intros _. destruct inp as [|e2 inp2]; [simpl in A; lia|]. apply B. discriminate.
Qed.

Theorem process_events_terminates : forall St Ev (rtc : St -> Ev -> St * list Ev) max fuel cnt st inp,
  cnt <= max -> max - cnt < fuel -> pe St Ev rtc false fuel max cnt st inp <> None.
Proof.
  intros St Ev rtc max. induction fuel as [|fuel IH]; intros cnt st inp Hc Hf; [lia|].
  simpl. destruct inp as [|e inp]; [discriminate|].
  destruct (pe_round St Ev rtc max cnt st (e :: inp) []) as [[[st' cnt'] out] stopped] eqn:Hr.
  destruct stopped; [discriminate|].
  destruct (pe_round_spec _ _ _ _ _ _ _ _ _ _ _ _ Hr eq_refl) as [A B].
  specialize (B ltac:(discriminate)). simpl in A. apply IH; lia.
Qed.

(* with the counter reset in every round, two flows that answer each other never let it end *)
Theorem process_events_per_round_refuted : forall max, 1 <= max ->
  forall n cnt, pe unit nat (fun st e => (st, [e])) true n max cnt tt [0] = None.
Proof.
  intros max Hm. induction n as [|n IH]; intros cnt; [reflexivity|].
  simpl. destruct (Nat.ltb max 1) eqn:Hlt; [apply Nat.ltb_lt in Hlt; lia|]. simpl. apply IH.
Qed.
