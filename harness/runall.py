"""Run every claimed check (quick by default) and print a summary. Usage: harness/runall.py [quick|thorough] [ids...]"""
import json
import os
import subprocess
import sys
import time

VERIF = os.path.dirname(os.path.dirname(os.path.abspath(__file__)))


def main():
    tier = sys.argv[1] if len(sys.argv) > 1 and sys.argv[1] in ("quick", "thorough") else "quick"
    ids = [a.upper() for a in sys.argv[1:] if a not in ("quick", "thorough")]
    if not ids:
        ids = sorted(f[:-5] for f in os.listdir(os.path.join(VERIF, "manifest")) if f.startswith("C") and f.endswith(".json"))
    rows = []
    for pid in ids:
        t0 = time.time()
        p = subprocess.run(["./check", pid, "--tier", tier], cwd=VERIF, stdout=subprocess.PIPE, stderr=subprocess.STDOUT, text=True)
        dt = time.time() - t0
        lines = [l for l in p.stdout.splitlines() if l.startswith(("VIOLATION", "KNOWN-FINDING"))]
        rows.append((pid, p.returncode, round(dt), lines))
        print(pid, "rc=%d" % p.returncode, "%ds" % dt, *lines, sep="\n   " if lines else " ", flush=True)
        if p.returncode not in (0,):
            open(f"/tmp/runall_{pid}.log", "w").write(p.stdout)
    bad = [r for r in rows if r[1] != 0]
    print("SUMMARY:", len(rows), "checks,", len(bad), "failing:", [r[0] for r in bad])
    return 1 if bad else 0


if __name__ == "__main__":
    sys.exit(main())
