"""pytest plugin (outside the repo): replaces the FastEmbed model, which needs a download, by a
deterministic bag-of-characters embedding so that tests/test_streaming.py can run offline."""
import hashlib

from nemoguardrails.embeddings.providers import fastembed as _fe


def _vec(text):
    v = [0.0] * 64
    for w in text.lower().split():
        h = int(hashlib.sha1(w.encode()).hexdigest(), 16)
        v[h % 64] += 1.0
    n = sum(x * x for x in v) ** 0.5 or 1.0
    return [x / n for x in v]


def _init(self, embedding_model):
    self.model = embedding_model
    self.embedding_size = 64


def _encode(self, documents):
    return [_vec(d) for d in documents]


async def _encode_async(self, documents):
    return [_vec(d) for d in documents]


_fe.FastEmbedEmbeddingModel.__init__ = _init
_fe.FastEmbedEmbeddingModel.encode = _encode
_fe.FastEmbedEmbeddingModel.encode_async = _encode_async
