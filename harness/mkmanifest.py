"""Writes MANIFEST.json from the table below (kept valid at all times)."""
import json
import os
import sys

VERIF = os.path.dirname(os.path.dirname(os.path.abspath(__file__)))

CLAIMED = {
    "C04": dict(
        text="Machine-checked proof (Coq 8.16.1) over an executable Gallina model of _compute_arguments_dict_matching_score and _compute_event_comparison_score: soundness and completeness w.r.t. an independent inductive specification written from the documentation, for patterns and payloads of unbounded depth; no-smaller-container, unmentioned-parameter and score-range theorems; instance rules at event level. The model is tied to the source on every run by (T) constants and the presence of the three length guards translated from statemachine.py/flows.py with Python's ast (a missing guard breaks a proof obligation) and (X) a differential run of the real functions against the model evaluated inside Coq (vm_compute) on generated pattern/payload pairs, plus an independent re-statement of the documented rules used to search for a failing input.",
        design_ref="4/C04, 3.4",
        note="Trusted: Coq kernel incl. vm_compute; translator/consts.py; harness/c04.py generators and the Python printer of Coq terms; re.search and str() of scalars are arbitrary oracles in the theorems; scores are exact powers factor^k (float underflow not modelled); dict keys are strings. Print Assumptions: closed under the global context.",
        technique="Coq proof: structural induction on patterns + translated constants + in-Coq differential against the real matcher",
    ),
}

NOT_YET = {}

ALL = [f"C{i:02d}" for i in range(1, 21)]


def main():
    checks = []
    for pid in ALL:
        if pid not in CLAIMED:
            continue
        c = CLAIMED[pid]
        checks.append(
            {
                "property_id": pid,
                "quick_cmd": f"./check {pid} --tier quick",
                "thorough_cmd": f"./check {pid} --tier thorough",
                "evidence_file": f"/verif/evidence/{pid}.json",
                "replay_cmd_template": f"./check {pid} --replay {{path}}",
                "engine": "coq-proof+correspondence",
                "level_claimed": {"category": "proof", "text": c["text"], "design_ref": c["design_ref"]},
                "level_note": c["note"],
                "technique": c["technique"],
            }
        )
    na = []
    for pid in ALL:
        if pid not in CLAIMED:
            na.append({"property_id": pid, "reason": NOT_YET.get(pid, "check not built yet: the Coq model and correspondence for this property are still under construction (see DESIGN.md section 4); nothing is claimed until its check runs clean on the unchanged tree")})
    m = {
        "version": 1,
        "setup_cmd": "./setup.sh",
        "hooks": {
            "guard": "NEMO_GUARDRAILS_VERIF",
            "enable": "checks run /repo's working tree in-process with NEMO_GUARDRAILS_VERIF=1 (no build step; Python)",
            "baseline_off_cmd": "cd /repo && env -u NEMO_GUARDRAILS_VERIF /venv/bin/python -m pytest -ra -q -p no:cacheprovider --timeout=900 --continue-on-collection-errors",
            "source_commits": [],
            "add_only": True,
        },
        "engines": [
            {
                "name": "coq-proof+correspondence",
                "path": "/verif/coq, /verif/harness, /verif/translator",
                "serves_properties": sorted(CLAIMED),
                "kind_free_text": "Coq 8.16.1 development (models, theorems in coq/theories/Props), translators regenerating coq/theories/Gen from /repo on every run, and a correspondence harness evaluating the models inside Coq (vm_compute) against the real Python implementation",
            }
        ],
        "checks": checks,
        "not_applicable": na,
        "notes": "Single entry point ./check <id> [--tier quick|thorough] [--replay FILE]; evidence in evidence/<id>.json; known findings in KNOWN_FINDINGS.txt; design in DESIGN.md.",
    }
    with open(os.path.join(VERIF, "MANIFEST.json"), "w") as f:
        json.dump(m, f, indent=1)
    try:
        import jsonschema

        jsonschema.validate(m, json.load(open("/root/.vp/MANIFEST.schema.json")))
        print("MANIFEST valid;", len(checks), "checks")
    except ImportError:
        print("MANIFEST written (jsonschema not available to validate)")


if __name__ == "__main__":
    sys.exit(main())
