"""Drivers of the real LLMRails for C16 (generation options) and C03 (fault injection).

Owned by the C03/C16 builder.  Everything runs offline: a scripted LLM (subclass of
tests.utils.FakeLLM answering by task), scripted rail / dialog / retrieval actions registered
with `app.register_action`, and a harness-provided embedding search provider (LLMRails subclass
overriding `_get_embeddings_search_provider_instance`; no model download).

Used in two ways:
  * imported by harness/c16.py and harness/c03.py (case generation helpers, `run_shards`);
  * as a worker:  python -m harness.opt_driver <kind> <cases.json> <out.json>
    (kind = c16 | c03v1 | c03v2 | genlog), one process per shard, under a shell timeout.
"""
from __future__ import annotations

import json
import logging
import os
import sys

REFUSAL = "I'm sorry, I can't respond to that."
LLM_TEXT = "LLM-GEN-TEXT"
PREDEF_TEXT = "Hello predefined!"


# --------------------------------------------------------------------------------------
# real-system plumbing (imports are lazy: importing nemoguardrails costs ~4 s)

_CACHE = {}


def _impl():
    if "impl" in _CACHE:
        return _CACHE["impl"]
    repo = os.environ.get("VERIF_REPO", "/repo")
    if repo not in sys.path:
        sys.path.insert(0, repo)
    logging.disable(logging.CRITICAL)
    from nemoguardrails import LLMRails, RailsConfig
    from nemoguardrails.actions.actions import ActionResult
    from nemoguardrails.context import llm_call_info_var
    from nemoguardrails.embeddings.index import EmbeddingsIndex
    from tests.utils import FakeLLM
    import nemoguardrails.rails.llm.config as _cfgmod

    # Colang 2 `import nemoguardrails.library....` is resolved against COLANGPATH-like roots
    if repo not in _cfgmod.colang_path_dirs:
        _cfgmod.colang_path_dirs.append(repo)

    class ExactIndex(EmbeddingsIndex):
        """Deterministic search provider: returns the indexed items in insertion order."""

        def __init__(self, **kw):
            self.items = []

        @property
        def embedding_size(self):
            return 0

        async def add_item(self, item):
            self.items.append(item)

        async def add_items(self, items):
            self.items.extend(items)

        async def build(self):
            pass

        async def search(self, text, max_results=20, threshold=None):
            return self.items[:max_results]

    class Rails(LLMRails):
        def _get_embeddings_search_provider_instance(self, esp_config=None):
            return ExactIndex()

    class ScriptLLM(FakeLLM):
        """Answers by task: intent tasks get the scripted intent, everything else the marker text."""

        tasks: list = []
        gen_text: str = LLM_TEXT

        def _resp(self, prompt):
            info = llm_call_info_var.get()
            task = info.task if info else None
            self.i += 1
            self.tasks.append(task)
            if task == "generate_user_intent":
                return "  express greeting"
            if task == "generate_next_steps":
                return "  bot express greeting"
            return self.gen_text

        def _call(self, prompt, stop=None, run_manager=None, **kw):
            return self._resp(prompt)

        async def _acall(self, prompt, stop=None, run_manager=None, **kw):
            return self._resp(prompt)

    _CACHE["impl"] = (Rails, RailsConfig, ActionResult, ScriptLLM)
    return _CACHE["impl"]


# --------------------------------------------------------------------------------------
# Colang 1.0 configurations (rails mirror the shape of the shipped self-check flows)


def v1_colang(n_in, n_out, n_ret, dmode, dialog_action=False):
    co = ""
    if dmode in ("flows", "flows_predef"):
        co += 'define user express greeting\n  "hi"\n\n'
        co += "define flow greet\n  user express greeting\n"
        if dialog_action:
            co += "  $info = execute dialog_action\n"
        co += "  bot express greeting\n\n"
        if dmode == "flows_predef":
            co += f'define bot express greeting\n  "{PREDEF_TEXT}"\n\n'
    for k in range(n_in):
        co += (f"define subflow in{k}\n  $allowed = execute in_rail_{k}(text=$user_message)\n"
               "  if not $allowed\n    bot refuse to respond\n    stop\n\n")
    for k in range(n_out):
        co += (f"define subflow out{k}\n  $allowed = execute out_rail_{k}(text=$bot_message)\n"
               "  if not $allowed\n    bot refuse to respond\n    stop\n\n")
    for k in range(n_ret):
        co += f"define subflow ret{k}\n  execute ret_rail_{k}(text=$relevant_chunks)\n\n"
    y = ""
    for cat, n, p in (("input", n_in, "in"), ("output", n_out, "out"), ("retrieval", n_ret, "ret")):
        if n:
            y += f"  {cat}:\n    flows:\n" + "".join(f"      - {p}{k}\n" for k in range(n))
    if y:
        y = "rails:\n" + y
    return co, "models: []\n" + y


_CFG_CACHE = {}
_APP_CACHE = {}


def v1_config(n_in, n_out, n_ret, dmode, dialog_action=False):
    key = (n_in, n_out, n_ret, dmode, dialog_action)
    if key not in _CFG_CACHE:
        _, RailsConfig, _, _ = _impl()
        co, y = v1_colang(*key)
        _CFG_CACHE[key] = RailsConfig.from_content(colang_content=co, yaml_content=y)
    return _CFG_CACHE[key]


def abstract_plog(pl):
    """Canonical, timing-free rendering of a processing log: what compute_generation_log reads."""
    out = []
    for e in pl:
        if e["type"] == "step":
            items = []
            for s in e["next_steps"]:
                if s["type"] == "StartInternalSystemAction":
                    items.append(["A", s["action_name"]])
                elif s["type"] == "BotIntent":
                    items.append(["I", s["intent"]])
            out.append(["S", e["flow_id"], items])
        elif e["type"] == "event":
            d = e["data"]
            t = d["type"]
            if t == "ContextUpdate":
                continue
            if t in ("StartInputRail", "StartOutputRail", "InputRailFinished", "OutputRailFinished"):
                arg = d.get("flow_id") or ""
            elif t in ("StartInternalSystemAction", "InternalSystemActionFinished"):
                arg = d.get("action_name") or ""
            else:
                arg = ""
            out.append(["E", t, arg])
        elif e["type"] == "llm_call_info":
            out.append(["L", e["data"].task or ""])
        else:
            out.append(["?", e["type"]])
    return out


def rails_summary(activated_rails):
    out = []
    for r in activated_rails:
        out.append([r.type, r.name, bool(r.stop), list(r.decisions),
                    [[a.action_name, [c.task or "" for c in a.llm_calls]] for a in a_list(r)]])
    return out


def a_list(r):
    return list(r.executed_actions)


def rewrite_text(kind, k):
    return f"{kind}{k}-REWRITTEN"


def run_c16_case(case, history=None, state=None):
    """One fresh LLMRails, one generate call with generation options."""
    Rails, RailsConfig, ActionResult, ScriptLLM = _impl()
    key = (case["n_in"], case["n_out"], case["n_ret"], case["dmode"])
    # One LLMRails per configuration and worker process (construction costs ~0.3 s): the scripted
    # actions read the current case from `box`; the history cache is emptied between cases.  The
    # first case of every configuration in a worker runs on a fresh instance and is re-run on the
    # reused one by the next case, so reuse itself is exercised both ways.
    if key not in _APP_CACHE:
        cfg = v1_config(*key)
        llm = ScriptLLM(responses=[])
        llm.tasks = []
        app = Rails(cfg, llm=llm)
        box = {"case": None, "calls": [], "captured": []}

        def mk(name, which, k, var, kind):
            async def act(text=None):
                box["calls"].append([name, text])
                verdicts = box["case"][which] if which else []
                v = verdicts[k] if k < len(verdicts) else "A"
                if v == "A":
                    return True
                if v == "R":
                    return False
                if v == "W":
                    return ActionResult(return_value=True, context_updates={var: rewrite_text(kind, k)})
                if v == "E":        # rewrite to the empty string
                    return ActionResult(return_value=True, context_updates={var: ""})
                raise RuntimeError("scripted fault")
            return act

        for k in range(case["n_in"]):
            app.register_action(mk(f"in_rail_{k}", "iv", k, "user_message", "IN"), f"in_rail_{k}")
        for k in range(case["n_out"]):
            app.register_action(mk(f"out_rail_{k}", "ov", k, "bot_message", "OUT"), f"out_rail_{k}")
        for k in range(case["n_ret"]):
            app.register_action(mk(f"ret_rail_{k}", None, k, "relevant_chunks", "RET"), f"ret_rail_{k}")

        orig = app.runtime.generate_events

        async def wrapped(events, processing_log=None):
            box["captured"].append(processing_log)
            box["n_events"] = None
            new_events = await orig(events, processing_log=processing_log)
            box["n_events"] = len(new_events)      # the v1 runtime raises "Too many events." above 100
            return new_events

        app.runtime.generate_events = wrapped
        _APP_CACHE[key] = (app, llm, box)
    app, llm, box = _APP_CACHE[key]
    if history is None:
        app.events_history_cache.clear()
    llm.tasks = []
    llm.i = 0
    box["case"] = case
    box["calls"] = []
    box["captured"] = []
    box["n_events"] = None
    calls = box["calls"]
    captured = box["captured"]

    msgs = list(history or []) + [{"role": "user", "content": case["user"]}]
    if case.get("bot") is not None:
        msgs.append({"role": case.get("role", "assistant"), "content": case["bot"]})
    obs = {"reply": None, "exc": None, "rails": None}
    try:
        if case.get("with_options", True):
            o = {"log": {"activated_rails": True}}
            if case.get("opts") is not None:
                o["rails"] = case["opts"]
            if state is not None:
                res = app.generate(messages=msgs, options=o, state=state)
                box["last_state"] = res.state
            else:
                res = app.generate(messages=msgs, options=o)
            r = res.response
            obs["reply"] = r[0]["content"] if isinstance(r, list) else r
            obs["role"] = r[0]["role"] if isinstance(r, list) else "assistant"
            obs["rails"] = rails_summary(res.log.activated_rails)
        else:
            r = app.generate(messages=msgs)
            obs["reply"] = r["content"]
            obs["role"] = r["role"]
    except Exception as e:  # observed, classified by the harness
        obs["exc"] = type(e).__name__
        obs["exc_msg"] = str(e)[:200]
    obs["calls"] = [list(c) for c in calls]
    obs["llm"] = list(llm.tasks)
    obs["plog"] = abstract_plog(captured[-1]) if captured and captured[-1] is not None else None
    obs["n_events"] = box.get("n_events")
    return obs


def run_c16_conv(conv):
    """A conversation on ONE instance through the message-history API: every turn sends the whole
    history (previous user messages and the replies received) plus the new user message (and the
    supplied bot message), with ITS OWN options.  conv = {n_in, n_out, n_ret, dmode, turns: [...]}."""
    history = []
    out = []
    first = True
    use_state = conv.get("mode") == "state"      # explicit state object instead of the message history
    state = {}
    for turn in conv["turns"]:
        case = {**turn, "n_in": conv["n_in"], "n_out": conv["n_out"], "n_ret": conv["n_ret"], "dmode": conv["dmode"]}
        if use_state:
            obs = run_c16_case(case, history=None, state=state)
            state = _APP_CACHE[(conv["n_in"], conv["n_out"], conv["n_ret"], conv["dmode"])][2].get("last_state") or state
        else:
            obs = run_c16_case(case, history=None if first else history)
        first = False
        out.append(obs)
        if obs.get("exc") or obs.get("reply") is None:
            break
        history = history + [{"role": "user", "content": turn["user"]},
                             {"role": obs.get("role", "assistant"), "content": obs["reply"]}]
    return out


# --------------------------------------------------------------------------------------
# pure differential of compute_generation_log


def run_genlog_case(plog):
    """plog in the abstract form of `abstract_plog`; timestamps are synthesised."""
    _impl()
    from nemoguardrails.logging.explain import LLMCallInfo
    from nemoguardrails.logging.processing_log import compute_generation_log

    pl = []
    t = 100.0
    for e in plog:
        t += 1.0
        if e[0] == "S":
            steps = []
            for kind, name in e[2]:
                if kind == "A":
                    steps.append({"type": "StartInternalSystemAction", "action_name": name})
                elif kind == "I":
                    steps.append({"type": "BotIntent", "intent": name})
                else:
                    steps.append({"type": "ContextUpdate", "data": {}})
            pl.append({"type": "step", "timestamp": t, "flow_id": e[1], "next_steps": steps})
        elif e[0] == "E":
            d = {"type": e[1]}
            if e[1] in ("StartInputRail", "StartOutputRail", "InputRailFinished", "OutputRailFinished"):
                d["flow_id"] = e[2]
            if e[1] in ("StartInternalSystemAction", "InternalSystemActionFinished"):
                d["action_name"] = e[2]
                d["action_params"] = {}
                d["return_value"] = None
            pl.append({"type": "event", "timestamp": t, "data": d})
        else:
            pl.append({"type": "llm_call_info", "timestamp": t,
                       "data": LLMCallInfo(task=e[1], duration=0.5, prompt_tokens=1, completion_tokens=1, total_tokens=2)})
    try:
        g = compute_generation_log(pl)
    except (AttributeError, TypeError, IndexError, KeyError) as ex:
        return {"exc": type(ex).__name__}
    return {"exc": None, "rails": rails_summary(g.activated_rails)}


# --------------------------------------------------------------------------------------
# C03: multi-turn conversations with scripted verdicts and faults

V1_SITES = ["in_rail_0", "in_rail_1", "dialog_action", "ret_rail_0", "out_rail_0", "out_rail_1"]
V2_SITES = ["in_rail_0", "in_rail_1", "ret_action", "gen_action", "out_rail_0", "out_rail_1"]


def case_user_text(case, t):
    us = (case.get("texts") or {}).get("user") or []
    return us[t] if t < len(us) and us[t] is not None else f"USER-TEXT-{t}"


def case_gen_text(case, t):
    """Text of the LLM (v1: bot-message generation) / of the generation action (v2) in turn t."""
    gs = (case.get("texts") or {}).get("gen") or []
    if t < len(gs) and gs[t] is not None:
        return gs[t]
    return LLM_TEXT if case.get("version", "v1") == "v1" else f"{LLM_TEXT}-{t}"


class _StrRaises(Exception):
    """str(e) raises (e.g. `"retry after " + self.retry_after` with an int)."""

    def __init__(self):
        super().__init__("x")
        self.retry_after = 3

    def __str__(self):
        return "retry after " + self.retry_after


class _ReprRaises(Exception):
    def __repr__(self):
        raise ValueError("repr of the exception raises")

    def __str__(self):
        raise ValueError("str of the exception raises")


class _Unprintable:
    def __repr__(self):
        raise RuntimeError("unprintable argument")

    __str__ = __repr__


class _CustomActionError(Exception):
    pass


def _asyncio_timeout():
    import asyncio
    return asyncio.TimeoutError("scripted timeout")


# ordinary `Exception` subclasses an action may raise: all must be contained alike.  BaseException
# subclasses (asyncio.CancelledError, KeyboardInterrupt, SystemExit) legitimately propagate: not here.
EXC_FAMILY = {
    "XE": lambda: Exception("scripted fault"),
    "XV": lambda: ValueError("scripted fault"),
    "XK": lambda: KeyError("scripted fault"),
    "XY": lambda: TypeError("scripted fault"),
    "XO": lambda: OSError(5, "scripted I/O error"),
    "XT": lambda: TimeoutError("scripted timeout"),
    "XAT": _asyncio_timeout,
    "XC": lambda: ConnectionError("scripted connection error"),
    "XU": lambda: _CustomActionError("scripted fault"),
}


def make_exception(kind):
    """X: plain RuntimeError; XS: __str__ raises; XR: __repr__ and __str__ raise;
    XA: non-string / unprintable args.  (BaseException subclasses such as KeyboardInterrupt are
    not `exceptions raised by an action` in the sense of the property: `except Exception`.)"""
    if kind == "XS":
        return _StrRaises()
    if kind == "XR":
        return _ReprRaises()
    if kind == "XA":
        return KeyError(123, _Unprintable(), {"k": _Unprintable()})
    if kind in EXC_FAMILY:
        return EXC_FAMILY[kind]()
    return RuntimeError("scripted fault")


def _fault_kind(case, turn, site, occ):
    for f in case.get("faults", []):
        if f[0] == turn and f[1] == site and f[2] == occ:
            return f[3] if len(f) > 3 else "X"
    return "X"


def _decide(case, turn, site, occ):
    """'A' | 'R' | 'X' for the occ-th call of `site` in turn `turn`."""
    for f in case.get("faults", []):
        if f[0] == turn and f[1] == site and f[2] == occ:
            return "X"
    return case.get("verdicts", {}).get(f"{turn}:{site}", "A")


V1_C03_CO = '''
define user express greeting
  "hi"

define flow greet
  user express greeting
  $info = execute dialog_action
  bot express greeting

define subflow in1
  $allowed = execute in_rail_1(text=$user_message)
  if not $allowed
    bot refuse to respond
    stop

define subflow out1
  $allowed = execute out_rail_1(text=$bot_message)
  if not $allowed
    bot refuse to respond
    stop

define subflow ret0
  execute ret_rail_0(text=$relevant_chunks)
'''
# rail 0 of both categories is the SHIPPED self-check flow (library/self_check/*/flows.v1.co), its
# action replaced by the scripted one; rail 1 is a custom flow of the same shape
V1_C03_YAML = '''
models: []
rails:
  input:
    flows:
      - self check input
      - in1
  output:
    flows:
      - self check output
      - out1
  retrieval:
    flows:
      - ret0
prompts:
  - task: self_check_input
    content: "unused {{ user_input }}"
  - task: self_check_output
    content: "unused {{ bot_response }}"
'''
V1_ACTIONS = {"in_rail_0": "self_check_input", "in_rail_1": "in_rail_1", "out_rail_0": "self_check_output",
              "out_rail_1": "out_rail_1", "ret_rail_0": "ret_rail_0", "dialog_action": "dialog_action"}


def _c03_app(version):
    """One LLMRails per worker process and Colang version; scripted actions read the current
    conversation from `box`.  Conversations are separated by emptying the history cache (v1) /
    starting from an empty state object (v2)."""
    key = "c03" + version
    if key in _APP_CACHE:
        return _APP_CACHE[key]
    Rails, RailsConfig, ActionResult, ScriptLLM = _impl()
    # WARNING and above are really formatted and emitted (to a null stream), as in a deployment: the
    # containment code logs the exception object, and formatting it is part of what is under test
    if not _CACHE.get("logging_on"):
        h = logging.StreamHandler(open(os.devnull, "w"))
        h.setLevel(logging.WARNING)
        logging.getLogger().addHandler(h)
        logging.getLogger().setLevel(logging.WARNING)
        logging.disable(logging.INFO)
        _CACHE["logging_on"] = True
    if version == "v1":
        cfg = RailsConfig.from_content(colang_content=V1_C03_CO, yaml_content=V1_C03_YAML)
        names = V1_ACTIONS
    else:
        cfg = RailsConfig.from_content(V2_CO, V2_YAML)
        names = V2_ACTIONS
    llm = ScriptLLM(responses=[])
    llm.tasks = []
    app = Rails(cfg, llm=llm)
    box = {"case": None, "turn": 0, "occ": {}, "calls": []}

    def mk(name):
        async def act(text=None, context=None):
            k = box["occ"].get(name, 0)
            box["occ"][name] = k + 1
            if name == "in_rail_0" and context is not None:      # the shipped flows pass no parameter
                text = context.get("user_message")
            if name == "out_rail_0" and context is not None:
                text = context.get("bot_message")
            box["calls"].append([name, text if name.startswith(("in_", "out_")) else None])
            v = _decide(box["case"], box["turn"], name, k)
            if v == "X":
                raise make_exception(_fault_kind(box["case"], box["turn"], name, k))
            if name == "gen_action":
                return case_gen_text(box["case"], box["turn"])
            if name == "ret_action":
                return "chunks"
            return v != "R"
        return act

    for n, a in names.items():
        app.register_action(mk(n), a)
    _APP_CACHE[key] = (app, llm, box)
    return _APP_CACHE[key]


def run_c03_v1(case):
    app, llm, box = _c03_app("v1")
    app.events_history_cache.clear()
    llm.tasks = []
    box["case"] = case
    msgs = []
    out = []
    state = {}
    for t in range(case["turns"]):
        box["turn"] = t
        box["occ"] = {}
        box["calls"] = []
        n0 = len(llm.tasks)
        user = case_user_text(case, t)
        llm.gen_text = case_gen_text(case, t)
        msgs.append({"role": "user", "content": user})
        o = {"turn": t, "user": user, "exc": None, "reply": None}
        try:
            if case.get("api") == "state":
                # explicit state object instead of the message history (events carried by `state`)
                res = app.generate(messages=[{"role": "user", "content": user}], state=state)
                state = res.state
                r = res.response[0] if isinstance(res.response, list) else {"role": "assistant", "content": res.response}
            else:
                r = app.generate(messages=msgs)
            o["reply"] = r["content"]
            o["role"] = r["role"]
            msgs.append(r)
        except Exception as e:
            o["exc"] = type(e).__name__
            o["exc_msg"] = str(e)[:200]
        o["calls"] = [list(c) for c in box["calls"]]
        o["llm"] = len(llm.tasks) - n0
        out.append(o)
        if o["exc"]:
            break
    return out


V2_CO = '''
import core
import guardrails
import nemoguardrails.library.self_check.input_check
import nemoguardrails.library.self_check.output_check

flow main
  activate answering

flow answering
  user said something
  $c = await RetAction()
  $r = await GenAction()
  bot say $r

# rail a of both categories is the SHIPPED self-check flow (library/self_check/*/flows.co), its action
# replaced by the scripted one; rail b is a custom flow of the same shape
flow input rails $input_text
  self check input
  in rail b $input_text

flow in rail b $t
  $allowed = await InRail1Action(text=$t)
  if not $allowed
    bot refuse to respond
    abort

flow output rails $output_text
  self check output
  out rail b $output_text

flow out rail b $t
  $allowed = await OutRail1Action(text=$t)
  if not $allowed
    bot refuse to respond
    abort
'''
V2_YAML = '''
colang_version: "2.x"
models: []
prompts:
  - task: self_check_input
    content: "unused {{ user_input }}"
  - task: self_check_output
    content: "unused {{ bot_response }}"
'''
V2_ACTIONS = {"in_rail_0": "self_check_input", "in_rail_1": "InRail1Action", "out_rail_0": "self_check_output",
              "out_rail_1": "OutRail1Action", "ret_action": "RetAction", "gen_action": "GenAction"}


def run_c03_v2(case):
    app, llm, box = _c03_app("v2")
    box["case"] = case
    state = {}
    out = []
    for t in range(case["turns"]):
        box["turn"] = t
        box["occ"] = {}
        box["calls"] = []
        user = case_user_text(case, t)
        o = {"turn": t, "user": user, "exc": None, "reply": None}
        try:
            res = app.generate(messages=[{"role": "user", "content": user}], state=state)
            state = res.state
            r = res.response
            o["reply"] = r[0]["content"] if isinstance(r, list) else r
        except Exception as e:
            o["exc"] = type(e).__name__
            o["exc_msg"] = str(e)[:200]
        o["calls"] = [list(c) for c in box["calls"]]
        o["llm"] = 0
        out.append(o)
        if o["exc"]:
            break
    return out


# --------------------------------------------------------------------------------------
# sharded execution in child processes (shell timeout per shard)

KINDS = {"c16": run_c16_case, "c16conv": run_c16_conv, "genlog": run_genlog_case, "c03v1": run_c03_v1, "c03v2": run_c03_v2}


def run_shards(tag, kind, cases, nproc=16, timeout=900):
    """Runs `cases` through KINDS[kind] in `nproc` child processes; returns (results, errors)."""
    from concurrent.futures import ThreadPoolExecutor

    from harness import common as C

    d = os.path.join(C.BUILD, "cases", tag)
    os.makedirs(d, exist_ok=True)
    n = max(1, min(nproc, len(cases)))
    sz = (len(cases) + n - 1) // n
    shards = [cases[i * sz:(i + 1) * sz] for i in range(n)]
    jobs = []
    for i, sc in enumerate(shards):
        pin = os.path.join(d, f"in_{i}.json")
        pout = os.path.join(d, f"out_{i}.json")
        if os.path.exists(pout):
            os.remove(pout)
        with open(pin, "w") as f:
            json.dump(sc, f)
        jobs.append((i, pin, pout))

    def one(job):
        i, pin, pout = job
        rc, out = C.sh(["timeout", str(timeout), C.PY, "-m", "harness.opt_driver", kind, pin, pout],
                       cwd=C.VERIF, env=C.impl_env(), timeout=timeout + 30)
        return rc, out

    with ThreadPoolExecutor(max_workers=n) as ex:
        rcs = list(ex.map(one, jobs))
    results = [None] * len(cases)
    errors = []
    for (i, pin, pout), (rc, log) in zip(jobs, rcs):
        if rc != 0 or not os.path.exists(pout):
            errors.append(f"shard {i} rc={rc}: {log[-1500:]}")
            continue
        res = json.load(open(pout))
        for j, r in enumerate(res):
            results[i * sz + j] = r
    return results, errors


def main(argv):
    kind, pin, pout = argv[1], argv[2], argv[3]
    fn = KINDS[kind]
    cases = json.load(open(pin))
    res = []
    for c in cases:
        try:
            res.append(fn(c))
        except Exception as e:  # a driver failure is data, the harness reports it as broken
            import traceback

            res.append({"driver_error": f"{type(e).__name__}: {e}", "tb": traceback.format_exc()[-1500:]})
    with open(pout, "w") as f:
        json.dump(res, f)
    return 0


if __name__ == "__main__":
    sys.exit(main(sys.argv))
