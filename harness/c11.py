"""C11 - a saved or aged Colang 2 conversation state continues exactly like the live one.

Models: coq/theories/V2/Serial.v (object graph, encode_to_dict / decode_from_dict /
json_to_state), coq/theories/V2/Cleanup.v (_clean_up_state); theorems: Props/C11.v.
Tie: (T) Gen/C11Consts.v regenerated from serialization.py / statemachine.py / the imported
name_to_class; (X1) differential of the real encoder/decoder against the model evaluated inside
Coq on object graphs built from the real classes; (X2) behavioural oracle = the property text:
on generated programs, at every cut point, the restored (and the aged) state must produce the
same outgoing events as the live one for every continuation.
"""
from __future__ import annotations

import json
import os
import random
import re
import struct
import subprocess
import sys
import time

from harness import common as C

PID = "C11"
GEN = ["C11Consts"]

PREAMBLE = """From Coq Require Import ZArith List String.
From NG Require Import V2.Serial V2.SerialRun.
Import ListNotations.
Open Scope string_scope.
Open Scope Z_scope.
"""


# ---------------------------------------------------------------------------------------
# rendering of real object graphs as terms of V2/Serial.v


def _impl():
    sys.path.insert(1, C.REPO)
    from nemoguardrails.colang.v2_x.runtime import flows as fl
    from nemoguardrails.colang.v2_x.runtime import serialization as ser
    from nemoguardrails.colang.v2_x.lang import colang_ast as ca

    return fl, ser, ca


def cstr(s: str) -> str:
    return C.coq_string(s.encode("utf-8").decode("latin-1"))


def ftoken(x: float) -> int:
    return struct.unpack(">q", struct.pack(">d", x))[0]


class Unrenderable(Exception):
    pass


def coq_prim(x):
    if x is None:
        return "PNone"
    if isinstance(x, bool):
        return f"(PBool {C.coq_bool(x)})"
    if isinstance(x, int):
        return f"(PInt {C.coq_Z(x)})"
    if isinstance(x, float):
        return f"(PFloat {C.coq_Z(ftoken(x))})"
    if isinstance(x, str):
        return f"(PStr {cstr(x)})"
    raise Unrenderable(type(x).__name__)


def is_prim(x):
    return x is None or type(x) in (bool, int, float, str)


def coq_key(k):
    if type(k) is str:
        return f"(KS {cstr(k)})"
    if type(k) is bool:
        return f"(KB {C.coq_bool(k)})"
    if type(k) is int:
        return f"(KI {C.coq_Z(k)})"
    if k is None:
        return "KN"
    if type(k) is float:
        return f"(KF {C.coq_Z(ftoken(k))})"
    return "KObj"


def head_and_kids(obj):
    """(head term, list of child objects) following the isinstance order of encode_to_dict."""
    import dataclasses
    import functools
    from collections import deque
    from datetime import datetime
    from enum import Enum

    fl, ser, ca = _impl()
    from nemoguardrails.rails.llm.config import RailsConfig

    if isinstance(obj, list):
        return "HList", list(obj)
    if isinstance(obj, functools.partial):
        return f"(HPartial {cstr(getattr(obj.func, '__name__', '?'))})", list(obj.args)
    if isinstance(obj, dict):
        return "(HDict " + C.coq_list([coq_key(k) for k in obj]) + ")", list(obj.values())
    if dataclasses.is_dataclass(obj) and not isinstance(obj, type):
        fs = list(obj.__dataclass_fields__.keys())
        return f"(HData {cstr(type(obj).__name__)} " + C.coq_list([cstr(f) for f in fs]) + ")", [getattr(obj, f) for f in fs]
    if isinstance(obj, RailsConfig):
        return "(HRailsConfig 0)", []
    if isinstance(obj, ca.SpecType):
        return f"(HSpecType {cstr(obj.value)})", []
    if isinstance(obj, fl.Action):
        d = obj.to_dict()
        return "(HAction " + C.coq_list([cstr(k) for k in d]) + ")", list(d.values())
    if isinstance(obj, datetime):
        return f"(HDatetime {cstr(obj.isoformat())})", []
    if isinstance(obj, Enum):
        return f"(HEnum {cstr(type(obj).__name__)} {cstr(obj.name)})", []
    if isinstance(obj, deque):
        return "HDeque", list(obj)
    if isinstance(obj, tuple):
        return "HTuple", list(obj)
    if isinstance(obj, set):
        return "HSet", list(obj)
    if isinstance(obj, re.Pattern):
        return f"(HRegex {cstr(obj.pattern)} {C.coq_Z(obj.flags)})", []
    return f"(HOther {cstr(type(obj).__name__)})", []


def render_graph(root, max_nodes=6000):
    """-> (heap term, root term, {id(obj): n}, keepalive list)."""
    idmap = {}
    rows = []
    keep = []

    def val(x):
        if is_prim(x):
            return f"(VP {coq_prim(x)})"
        return f"(VO {ref(x)})"

    stack_guard = [0]

    def ref(obj):
        if id(obj) in idmap:
            return idmap[id(obj)]
        n = len(idmap)
        if n >= max_nodes:
            raise Unrenderable("graph too large")
        idmap[id(obj)] = n
        keep.append(obj)
        rows.append(None)
        stack_guard[0] += 1
        if stack_guard[0] > 400:
            raise Unrenderable("too deep")
        hd, kids = head_and_kids(obj)
        keep.append(kids)
        rows[n] = f"({n}, mk {hd} " + C.coq_list([val(k) for k in kids]) + ")"
        stack_guard[0] -= 1
        return n

    r = val(root)
    return C.coq_list(rows), r, idmap, keep


def coq_json(j, idmap):
    """Real JSON (after json.loads) -> json term; "__id" marks renumbered through idmap."""
    if j is None:
        return "JNull"
    if isinstance(j, bool):
        return f"(JBool {C.coq_bool(j)})"
    if isinstance(j, int):
        return f"(JInt {C.coq_Z(j)})"
    if isinstance(j, float):
        return f"(JFloat {C.coq_Z(ftoken(j))})"
    if isinstance(j, str):
        return f"(JStr {cstr(j)})"
    if isinstance(j, list):
        return "(JArr " + C.coq_list([coq_json(x, idmap) for x in j]) + ")"
    items = []
    wrapper = "__type" in j
    for k, v in j.items():
        if wrapper and k == "__id" and isinstance(v, int) and not isinstance(v, bool):
            if v not in idmap:
                raise Unrenderable("__id of an object outside the rendered graph (temporary object)")
            items.append(f'("__id", JInt {C.coq_Z(idmap[v])})')
        elif wrapper and j.get("__type") == "RailsConfig" and k == "value":
            items.append('("value", JInt 0)')
        else:
            items.append(f"({cstr(k)}, {coq_json(v, idmap)})")
    return "(JObj " + C.coq_list(items) + ")"


def canon_py(root, guide=None):
    """Canonical form (ctree term) of the graph reachable from root: objects numbered by first
    visit.  `guide` (the original graph) only fixes the order in which the members of a rebuilt
    set are listed (set iteration order is not part of the state)."""
    seen = {}
    keep = []

    def go(x, g):
        if is_prim(x):
            return f"(CP {coq_prim(x)})"
        if id(x) in seen:
            return f"(CBack {seen[id(x)]})"
        n = len(seen)
        seen[id(x)] = n
        keep.append(x)
        hd, kids = head_and_kids(x)
        gk = None
        if g is not None and not is_prim(g):
            try:
                ghd, gk = head_and_kids(g)
                if len(gk) != len(kids):
                    gk = None
            except Exception:
                gk = None
        if isinstance(x, set) and gk is not None:
            # list the members in the order of the guide's members (match by equality)
            rest = list(kids)
            ordered = []
            for ge in gk:
                for e in rest:
                    try:
                        same = (type(e) is type(ge)) and e == ge
                    except Exception:
                        same = False
                    if same:
                        ordered.append(e)
                        rest.remove(e)
                        break
            kids = ordered + rest
        keep.append(kids)
        cs = [go(k, gk[i] if gk is not None else None) for i, k in enumerate(kids)]
        return f"(CNew {n} {hd} " + C.coq_list(cs) + ")"

    return go(root, guide)
