(* Python-like values as the Colang 2 matcher sees them.
   Model of the value universe used by
   nemoguardrails/colang/v2_x/runtime/statemachine.py::_compute_arguments_dict_matching_score.

   Floats are the dyadic rationals q/4 (VFloat q): the only operations the matcher applies to
   floats are ==, ordering and str(), so an exact, injective carrier is enough.
   A compiled regular expression is its pattern source (two compiled patterns are equal in
   Python iff pattern and flags are equal; flags are never set by Colang's regex()).
   A set is the list of its members in Python iteration order; a dict is the list of its
   items in insertion order. *)
From Coq Require Import ZArith List String Bool.
Import ListNotations.
Open Scope Z_scope.

Inductive cmpop := OpLt | OpLe | OpGt | OpGe | OpNe.

(* the reference value of a ComparisonExpression: int, bool or float(q/4) *)
Inductive num := NInt (z : Z) | NBool (b : bool) | NFloat (q : Z).

Inductive value :=
| VNone
| VBool (b : bool)
| VInt (z : Z)
| VFloat (q : Z)
| VStr (s : string)
| VList (l : list value)
| VSet (l : list value)
| VDict (kvs : list (string * value))
| VRegex (r : string)
| VCmp (op : cmpop) (n : num).

(* Nested induction principle. *)
Section value_ind'.
  Variable P : value -> Prop.
  Hypothesis HNone : P VNone.
  Hypothesis HBool : forall b, P (VBool b).
  Hypothesis HInt : forall z, P (VInt z).
  Hypothesis HFloat : forall q, P (VFloat q).
  Hypothesis HStr : forall s, P (VStr s).
  Hypothesis HList : forall l, Forall P l -> P (VList l).
  Hypothesis HSet : forall l, Forall P l -> P (VSet l).
  Hypothesis HDict : forall kvs, Forall (fun kv => P (snd kv)) kvs -> P (VDict kvs).
  Hypothesis HRegex : forall r, P (VRegex r).
  Hypothesis HCmp : forall op n, P (VCmp op n).

  Fixpoint value_ind' (v : value) : P v :=
    match v with
    | VNone => HNone
    | VBool b => HBool b
    | VInt z => HInt z
    | VFloat q => HFloat q
    | VStr s => HStr s
    | VList l =>
        HList l ((fix go (l : list value) : Forall P l :=
                    match l with
                    | [] => Forall_nil _
                    | x :: xs => Forall_cons _ (value_ind' x) (go xs)
                    end) l)
    | VSet l =>
        HSet l ((fix go (l : list value) : Forall P l :=
                   match l with
                   | [] => Forall_nil _
                   | x :: xs => Forall_cons _ (value_ind' x) (go xs)
                   end) l)
    | VDict kvs =>
        HDict kvs ((fix go (l : list (string * value)) : Forall (fun kv => P (snd kv)) l :=
                      match l with
                      | [] => Forall_nil _
                      | (k, x) :: xs => Forall_cons (k, x) (value_ind' x) (go xs)
                      end) kvs)
    | VRegex r => HRegex r
    | VCmp op n => HCmp op n
    end.
End value_ind'.

(* association-list lookup: Python `key in d` / `d[key]` *)
Fixpoint lookup (k : string) (kvs : list (string * value)) : option value :=
  match kvs with
  | [] => None
  | (k', v) :: rest => if String.eqb k k' then Some v else lookup k rest
  end.

Definition mem_str (k : string) (l : list string) : bool :=
  existsb (String.eqb k) l.

(* numeric reading used by Python's == / < between bool and int *)
Definition Z_of_bool (b : bool) : Z := if b then 1 else 0.
