(* V1.Structured - the SPECIFICATION side of C14: structured Colang 1.0 dialog flows, their
   reference semantics as ordinary structured programs, and the compilation to flat elements.

   A program is one dialog flow (`define flow`) plus subflows (`define subflow`).  Statements:
     user I | bot I | execute A / $r = execute A | $x = e | if c / else | while c | break |
     continue | do S.
   Reference semantics (`exec`): an interpreter over the SOURCE with an explicit continuation
   (what remains of the enclosing blocks and loops) and a call stack of continuations for `do`.
   It runs set / if / while / break / continue / do silently in the context built by the
   `set`s executed so far until it blocks on a statement that needs an event (user, bot,
   execute) or the flow ends.  `next_steps` folds the events of a history over it:
     - an event that matches the statement the flow waits on advances the flow; the next step
       is the statement the flow then blocks on if it is a bot/execute statement;
     - an event that does not match: a flow waiting for the user keeps waiting (no step); a
       flow waiting on its own bot/execute step is abandoned (no step, and it may start again
       on a later event);
     - events of a type that never triggers flows leave the flow where it is and the pending
       bot/execute step is proposed again;
     - ContextUpdate events update the context; `bot stop` resets everything.
   Nothing here mentions heads, offsets or flow states.

   `compile` is this development's own compiler for the subset (position-passing style); the
   harness checks on every generated program that it produces exactly what the real parser
   (colang_parser + coyml_parser + RuntimeV1_0._load_flow_config) produces. *)
From Coq Require Import ZArith QArith List String Ascii Bool.
From NG Require Import V1.Expr V1.Elems V1.Interp.
Import ListNotations.
Open Scope string_scope.
Open Scope list_scope.
Open Scope Z_scope.

Inductive stmt :=
| SUser (intent : string)
| SBot (intent : string)
| SExec (action : string) (params : string) (key : option string)
| SSet (key : string) (e : expr)
| SIf (c : expr) (thn els : list stmt)
| SWhile (c : expr) (body : list stmt)
| SBreak
| SContinue
| SDo (subflow : string).

Record prog := {
  p_id : string;                              (* id of the dialog flow *)
  p_main : list stmt;
  p_subs : list (string * list stmt);         (* subflows *)
}.

(* ------------------------------------------------------------------ compilation *)

Fixpoint size (s : stmt) : Z :=
  match s with
  | SIf _ t e =>
      let st := (fix go (l : list stmt) : Z := match l with [] => 0 | x :: r => size x + go r end) t in
      let se := (fix go (l : list stmt) : Z := match l with [] => 0 | x :: r => size x + go r end) e in
      1 + st + (match e with [] => 0 | _ => 1 + se end)
  | SWhile _ b =>
      2 + (fix go (l : list stmt) : Z := match l with [] => 0 | x :: r => size x + go r end) b
  | _ => 1
  end.

Fixpoint bsize (l : list stmt) : Z := match l with [] => 0 | x :: r => size x + bsize r end.

(* loop context of a position: (distance to the loop exit, distance back to the `while`) *)
Definition lctx := option (Z * Z).
Definition shift (d : lctx) (n : Z) : lctx :=
  match d with Some (b, c) => Some (b - n, c - n) | None => None end.

Fixpoint compile (d : lctx) (s : stmt) : list elem :=
  match s with
  | SUser i => [LUser i]
  | SBot i => [LRun "utter" i "" None]
  | SExec a p k => [LRun a "" p k]
  | SSet k e => [LSet k e 1]
  | SBreak => [LBreak (match d with Some (b, _) => b | None => 1 end)]
  | SContinue => [LContinue (match d with Some (_, c) => c | None => 1 end)]
  | SDo f => [LFlow f]
  | SIf c t e =>
      let go := fix go (d : lctx) (l : list stmt) : list elem :=
                  match l with [] => [] | x :: r => compile d x ++ go (shift d (size x)) r end in
      let nt := bsize t in
      let ct := go (shift d 1) t in
      match e with
      | [] => LIf c (nt + 1) :: ct
      | _ => LIf c (nt + 2) :: ct ++ LJump (bsize e + 1) false None :: go (shift d (nt + 2)) e
      end
  | SWhile c b =>
      let go := fix go (d : lctx) (l : list stmt) : list elem :=
                  match l with [] => [] | x :: r => compile d x ++ go (shift d (size x)) r end in
      let n := bsize b in
      LWhile c 1 (n + 2) :: go (Some (n + 1, -1)) b ++ [LJump (- (n + 1)) false None]
  end.

Fixpoint compile_block (d : lctx) (l : list stmt) : list elem :=
  match l with [] => [] | x :: r => compile d x ++ compile_block (shift d (size x)) r end.

Definition mk_config (id : string) (els : list elem) (sub : bool) : flow_config :=
  {| fc_id := id; fc_elems := els; fc_priority := 1; fc_extension := false; fc_interruptible := true;
     fc_subflow := sub; fc_multiple := false; fc_triggers := default_triggers |}.

Definition compile_prog (p : prog) : configs :=
  mk_config (p_id p) (compile_block None (p_main p)) false
  :: map (fun nb => mk_config (fst nb) (compile_block None (snd nb)) true) (p_subs p).

(* ------------------------------------------------------------------ reference semantics *)

(* the statements a flow blocks on *)
Inductive wait :=
| WUser (intent : string)
| WBot (intent : string)
| WExec (action params : string) (key : option string).

(* what remains to be done inside the current flow body *)
Inductive kont :=
| KDone                                            (* end of the flow body *)
| KSeq (rest : list stmt) (k : kont)               (* the rest of the enclosing block *)
| KLoop (c : expr) (body : list stmt) (k : kont).  (* inside `while c: body`; then k *)

Inductive xres :=
| XWait (w : wait) (k : kont) (stk : list kont) (c u : ctx)   (* blocked; stk: callers, innermost first *)
| XEnd (c u : ctx)                                            (* the flow body ended *)
| XExc
| XFuel.

(* innermost enclosing loop *)
Fixpoint unwind (k : kont) : option (expr * list stmt * kont) :=
  match k with
  | KDone => None
  | KSeq _ k' => unwind k'
  | KLoop c b k' => Some (c, b, k')
  end.

Section Sem.
  Variable subs : list (string * list stmt).

  (* run block `blk` then continuation k, in context c, recording assignments in u *)
  Fixpoint exec (fuel : nat) (c u : ctx) (blk : list stmt) (k : kont) : xres :=
    match fuel with
    | O => XFuel
    | S f =>
        match blk with
        | [] =>
            match k with
            | KDone => XEnd c u
            | KSeq rest k' => exec f c u rest k'
            | KLoop cnd body k' => exec f c u [SWhile cnd body] k'
            end
        | s :: rest =>
            match s with
            | SUser i => XWait (WUser i) (KSeq rest k) [] c u
            | SBot i => XWait (WBot i) (KSeq rest k) [] c u
            | SExec a p key => XWait (WExec a p key) (KSeq rest k) [] c u
            | SSet x e =>
                match eval c e with
                | None => XExc
                | Some v => exec f (assoc_set x v c) (assoc_set x v u) rest k
                end
            | SIf cnd t e =>
                match eval c cnd with
                | None => XExc
                | Some v => exec f c u (if truthy v then t else e) (KSeq rest k)
                end
            | SWhile cnd b =>
                match eval c cnd with
                | None => XExc
                | Some v => if truthy v then exec f c u b (KLoop cnd b (KSeq rest k))
                            else exec f c u rest k
                end
            | SBreak =>
                match unwind k with
                | Some (_, _, k') => exec f c u [] k'
                | None => XExc                                   (* not inside a loop: excluded by wf *)
                end
            | SContinue =>
                match unwind k with
                | Some (cnd, b, k') => exec f c u [SWhile cnd b] k'
                | None => XExc
                end
            | SDo name =>
                match lookup name subs with
                | None => XExc                                   (* unknown subflow *)
                | Some body =>
                    match exec f c u body KDone with
                    | XEnd c' u' => exec f c' u' rest k          (* the subflow ran to its end *)
                    | XWait w kw stk c' u' => XWait w kw (stk ++ [KSeq rest k]) c' u'
                    | r => r
                    end
                end
            end
        end
    end.

  (* continue after the awaited event arrived: finish the current body, then return to callers *)
  Fixpoint resume (fuel : nat) (c u : ctx) (k : kont) (stk : list kont) : xres :=
    match fuel with
    | O => XFuel
    | S f =>
        match exec fuel c u [] k with
        | XEnd c' u' =>
            match stk with
            | [] => XEnd c' u'
            | k2 :: stk2 => resume f c' u' k2 stk2
            end
        | XWait w kw stk' c' u' => XWait w kw (stk' ++ stk) c' u'
        | r => r
        end
    end.
End Sem.

(* `do F` may name any flow of the program (the dialog flow included): _call_subflow does not
   check that F was declared as a subflow *)
Definition all_flows (p : prog) : list (string * list stmt) := (p_id p, p_main p) :: p_subs p.

Definition actionable (w : wait) : bool :=
  match w with
  | WUser _ => false
  | WBot v => negb (String.eqb v "...")
  | WExec a _ _ => true
  end.

(* does event ev satisfy the statement the flow waits on? *)
Definition wait_match (w : wait) (ev : event) : bool :=
  match w, ev with
  | WUser n, EvUser i => String.eqb n "..." || String.eqb n i
  | WBot v, EvBot i => String.eqb v "..." || String.eqb v i
  | WBot _, EvActFin a true => String.eqb a "utter"
  | WExec n _ _, EvActFin a true => String.eqb n a
  | _, _ => false
  end.

Definition step_of_wait (w : wait) : out_event :=
  match w with
  | WUser i => OBot i          (* never used: not actionable *)
  | WBot v => OBot v
  | WExec a p k => OAct a p k
  end.

Inductive sstate :=
| Idle
| Run (w : wait) (k : kont) (stk : list kont).

Record spec_state := {
  sp_st : sstate;
  sp_ctx : ctx;
  sp_upd : ctx;                (* assignments made while processing the last event *)
  sp_next : option wait;       (* the decided next statement *)
}.

Definition of_xres (r : xres) : res spec_state :=
  match r with
  | XWait w k stk c u =>
      Ok {| sp_st := Run w k stk; sp_ctx := c; sp_upd := u; sp_next := if actionable w then Some w else None |}
  | XEnd c u => Ok {| sp_st := Idle; sp_ctx := c; sp_upd := u; sp_next := None |}
  | XExc => Exc
  | XFuel => Fuel
  end.

Definition spec_event (fuel : nat) (p : prog) (s : spec_state) (ev : event) : res spec_state :=
  match ev with
  | EvStartAct => Ok s
  | EvCtx data => Ok {| sp_st := sp_st s; sp_ctx := assoc_update (sp_ctx s) data; sp_upd := []; sp_next := None |}
  | _ =>
      match sp_st s with
      | Idle =>
          match p_main p with
          | SUser i :: rest =>
              if wait_match (WUser i) ev
              then of_xres (exec (all_flows p) fuel (sp_ctx s) [] rest KDone)
              else Ok {| sp_st := Idle; sp_ctx := sp_ctx s; sp_upd := []; sp_next := None |}
          | _ => Exc                                             (* excluded by wf *)
          end
      | Run w k stk =>
          if negb (string_in (event_type ev) default_triggers) then
            Ok {| sp_st := sp_st s; sp_ctx := sp_ctx s; sp_upd := [];
                  sp_next := if actionable w then Some w else None |}
          else if wait_match w ev then of_xres (resume (all_flows p) fuel (sp_ctx s) [] k stk)
          else if actionable w then Ok {| sp_st := Idle; sp_ctx := sp_ctx s; sp_upd := []; sp_next := None |}
          else Ok {| sp_st := sp_st s; sp_ctx := sp_ctx s; sp_upd := []; sp_next := None |}
      end
  end.

Definition spec_init : spec_state := {| sp_st := Idle; sp_ctx := []; sp_upd := []; sp_next := None |}.

Fixpoint spec_run (fuel : nat) (p : prog) (s : spec_state) (l : list event) : res spec_state :=
  match l with
  | [] => Ok s
  | e :: rest =>
      do s1 <- spec_event fuel p s e;
      spec_run fuel p (if is_bot_stop e
                       then {| sp_st := Idle; sp_ctx := sp_ctx s1; sp_upd := sp_upd s1; sp_next := sp_next s1 |}
                       else s1) rest
  end.

Definition spec_steps (s : spec_state) (actual : list event) : list out_event :=
  if match actual with [] => false | _ => is_bot_stop (last actual EvHide) end then []
  else (match sp_upd s with [] => [] | u => [OCtx u] end ++
        match sp_next s with Some w => [step_of_wait w] | None => [] end)%list.

(* the specification of compute_next_steps on a structured program *)
Definition next_steps (fuel : nat) (p : prog) (hist : list event) : res (list out_event) :=
  do actual <- preprocess hist [];
  do s <- spec_run fuel p spec_init actual;
  Ok (spec_steps s actual).

(* ------------------------------------------------------------------ well-formedness *)

(* break / continue only inside a loop; no `execute utter`; the dialog flow starts with a user
   statement; subflow bodies are not empty (Colang cannot express an empty body); distinct names *)
Fixpoint wf_stmt (inloop : bool) (s : stmt) : bool :=
  match s with
  | SBreak | SContinue => inloop
  | SExec a _ _ => negb (String.eqb a "utter")
  | SIf _ t e =>
      (fix go (l : list stmt) : bool := match l with [] => true | x :: r => wf_stmt inloop x && go r end) t &&
      (fix go (l : list stmt) : bool := match l with [] => true | x :: r => wf_stmt inloop x && go r end) e
  | SWhile _ b =>
      (fix go (l : list stmt) : bool := match l with [] => true | x :: r => wf_stmt true x && go r end) b
  | _ => true
  end.

Fixpoint wf_block (inloop : bool) (l : list stmt) : bool :=
  match l with [] => true | x :: r => wf_stmt inloop x && wf_block inloop r end.

Fixpoint distinct (l : list string) : bool :=
  match l with [] => true | x :: r => negb (string_in x r) && distinct r end.

Definition wf_prog (p : prog) : bool :=
  match p_main p with SUser _ :: _ => true | _ => false end &&
  wf_block false (p_main p) &&
  forallb (fun nb => match snd nb with [] => false | _ => true end && wf_block false (snd nb)) (p_subs p) &&
  distinct (p_id p :: map fst (p_subs p)).

(* ------------------------------------------------------------------ sanity *)

Definition ex_prog : prog :=
  {| p_id := "main";
     p_main := [SUser "ask a"; SSet "i" (EInt 0); SBot "say b";
                SIf (ECmp CEq (EVar "i") (EInt 0))
                    [SBot "say c";
                     SWhile (ECmp CLt (EVar "i") (EInt 2))
                            [SUser "ask d"; SSet "i" (EAdd (EVar "i") (EInt 1));
                             SIf (ECmp CEq (EVar "i") (EInt 1)) [SContinue] [SBreak];
                             SBot "say never"];
                     SDo "sub one"]
                    [SBot "say e"];
                SExec "act_x" "{}" None; SBot "say f"];
     p_subs := [("sub one", [SBot "say s1"; SUser "ask s2"; SBot "say s3"])] |}.

Example ex_wf : wf_prog ex_prog = true.
Proof. reflexivity. Qed.

(* the offsets are the ones the real parser produced in the design probe *)
Example ex_compile :
  fc_elems (hd (mk_config "" [] false) (compile_prog ex_prog)) =
  [LUser "ask a"; LSet "i" (EInt 0) 1; LRun "utter" "say b" "" None;
   LIf (ECmp CEq (EVar "i") (EInt 0)) 13;
   LRun "utter" "say c" "" None;
   LWhile (ECmp CLt (EVar "i") (EInt 2)) 1 9;
   LUser "ask d"; LSet "i" (EAdd (EVar "i") (EInt 1)) 1;
   LIf (ECmp CEq (EVar "i") (EInt 1)) 3; LContinue (-4); LJump 2 false None; LBreak 3;
   LRun "utter" "say never" "" None; LJump (-8) false None;
   LFlow "sub one"; LJump 2 false None; LRun "utter" "say e" "" None;
   LRun "act_x" "" "{}" None; LRun "utter" "say f" "" None].
Proof. vm_compute. reflexivity. Qed.

Definition ex_hist : list event :=
  [EvUser "ask a"; EvBot "say b"; EvBot "say c"; EvUser "ask d"; EvUser "ask d"; EvBot "say s1"; EvUser "ask s2"].

Example ex_spec : next_steps 100 ex_prog ex_hist = Ok [OBot "say s3"].
Proof. vm_compute. reflexivity. Qed.

Example ex_spec_return : next_steps 100 ex_prog (ex_hist ++ [EvBot "say s3"]) = Ok [OAct "act_x" "{}" None].
Proof. vm_compute. reflexivity. Qed.
