(* C09 - the index-maintenance layer of the Colang 2 interpreter
   (nemoguardrails/colang/v2_x/runtime/statemachine.py, flows.py).

   A FOCUSED model: flow instances, their heads, the dispatch index
   `State.event_matching_heads` and its reverse map `event_matching_heads_reverse_map`,
   and exactly the mutations the real code performs on them.  Everything else of the
   interpreter (events, matching, contexts, actions) is outside; it is tied to this model by
   TRACE INCLUSION: harness/c09.py records every mutation of a real run as a list of `op`
   and replays it here (V2/IndexRun.v).

   Python dicts are association lists in insertion order with the dict update semantics
   (`aset`: replace in place or append; `adel`: delete), so a model state can be compared
   with a snapshot of the real State by plain equality.

   Identifiers (instance uids, head uids, event-name keys) are interned to `N` by the
   harness.  The program table `prog inst pos` says what stands at a position of the
   instance's flow: a match statement with its event-name key as computed by
   `get_event_name_from_element` (data), a match statement whose key cannot be computed
   (the call raises), WaitForHeads, MergeHeads, an action `send`, anything else; `None` =
   position outside the element list. *)
From Coq Require Import NArith List Bool.
Import ListNotations.
Open Scope N_scope.

(* ------------------------------------------------------------------ association lists *)

Section AList.
  Context {K V : Type}.
  Variable eqb : K -> K -> bool.

  Fixpoint aget (l : list (K * V)) (k : K) : option V :=
    match l with
    | [] => None
    | (k', v) :: t => if eqb k' k then Some v else aget t k
    end.

  Definition amem (l : list (K * V)) (k : K) : bool :=
    match aget l k with Some _ => true | None => false end.

  (* dict[k] = v : in place when the key exists, appended otherwise *)
  Definition aset (l : list (K * V)) (k : K) (v : V) : list (K * V) :=
    if amem l k
    then map (fun p => if eqb (fst p) k then (k, v) else p) l
    else l ++ [(k, v)].

  (* del dict[k] *)
  Definition adel (l : list (K * V)) (k : K) : list (K * V) :=
    filter (fun p => negb (eqb (fst p) k)) l.
End AList.

(* ------------------------------------------------------------------ data *)

Definition uid := N.
Definition name := N.
Definition key := (uid * uid)%type.           (* (flow_state.uid, head.uid) *)

Definition key_eqb (a b : key) : bool := N.eqb (fst a) (fst b) && N.eqb (snd a) (snd b).

Inductive hstatus := HActive | HInactive | HMerging.          (* FlowHeadStatus *)

Inductive fstatus := FWaiting | FStarting | FStarted | FStopping | FStopped | FFinished.   (* FlowStatus *)

Inductive icls := Listening | Stopping | Done.

(* is_listening_flow / STOPPING / _is_done_flow *)
Definition cls (st : fstatus) : icls :=
  match st with
  | FWaiting | FStarting | FStarted => Listening
  | FStopping => Stopping
  | FStopped | FFinished => Done
  end.

Definition is_listening (st : fstatus) : bool :=
  match cls st with Listening => true | _ => false end.

Definition is_done (st : fstatus) : bool :=
  match cls st with Done => true | _ => false end.

Inductive elem :=
| EMatch (n : name)      (* SpecOp op="match"; n = get_event_name_from_element *)
| EMatchBad              (* SpecOp op="match" whose event name cannot be computed (raises) *)
| EWait                  (* WaitForHeads *)
| EMerge                 (* MergeHeads *)
| EAction                (* is_action_op_element *)
| EOther.

Record head := mkH { h_pos : N; h_st : hstatus }.

Record inst := mkI { i_st : fstatus; i_heads : list (uid * head) }.

Record state := mkS {
  insts : list (uid * inst);                (* State.flow_states, dict order *)
  index : list (name * list key);           (* State.event_matching_heads *)
  rev   : list (key * name)                 (* State.event_matching_heads_reverse_map *)
}.

Definition empty_state : state := mkS [] [] [].

Definition hstatus_eqb (a b : hstatus) : bool :=
  match a, b with
  | HActive, HActive | HInactive, HInactive | HMerging, HMerging => true
  | _, _ => false
  end.

Definition fstatus_eqb (a b : fstatus) : bool :=
  match a, b with
  | FWaiting, FWaiting | FStarting, FStarting | FStarted, FStarted
  | FStopping, FStopping | FStopped, FStopped | FFinished, FFinished => true
  | _, _ => false
  end.

(* ------------------------------------------------------------------ lookups *)

Definition find_inst (s : state) (f : uid) : option inst := aget N.eqb (insts s) f.

Definition find_head (s : state) (f h : uid) : option head :=
  match find_inst s f with
  | Some i => aget N.eqb (i_heads i) h
  | None => None
  end.

Definition listening (s : state) (f : uid) : bool :=
  match find_inst s f with Some i => is_listening (i_st i) | None => false end.

Definition ix_get (s : state) (n : name) : list key :=
  match aget N.eqb (index s) n with Some l => l | None => [] end.

Definition rev_get (s : state) (k : key) : option name := aget key_eqb (rev s) k.

Section Model.
  Variable prog : uid -> N -> option elem.

  (* the event-name key under which a head record of instance f has to be registered,
     whatever the status of the instance: the head is not inactive and stands on a match *)
  Definition rel_of (f : uid) (hd : head) : option name :=
    match h_st hd with
    | HInactive => None
    | _ => match prog f (h_pos hd) with Some (EMatch n) => Some n | _ => None end
    end.

  (* ... the same, but the key cannot be computed *)
  Definition rel_bad (f : uid) (hd : head) : bool :=
    match h_st hd with
    | HInactive => false
    | _ => match prog f (h_pos hd) with Some EMatchBad => true | _ => false end
    end.

  Definition relevant (s : state) (k : key) : option name :=
    match find_head s (fst k) (snd k) with
    | Some hd => rel_of (fst k) hd
    | None => None
    end.

  (* what a from-scratch scan of all running flows finds: (f,h) under key n *)
  Definition scanb (s : state) (n : name) (k : key) : bool :=
    listening s (fst k) &&
    match relevant s k with Some n' => N.eqb n' n | None => false end.

  Definition scan_heads (f : uid) (n : name) (hs : list (uid * head)) : list key :=
    flat_map (fun p => match rel_of f (snd p) with
                       | Some n' => if N.eqb n' n then [(f, fst p)] else []
                       | None => []
                       end) hs.

  Definition scan (s : state) (n : name) : list key :=
    flat_map (fun p => if is_listening (i_st (snd p))
                       then scan_heads (fst p) n (i_heads (snd p)) else []) (insts s).

  (* ---------------------------------------------------------------- index primitives *)

  Inductive res := Ok (s : state) | Fail (why : N).

  (* failure codes (diagnostics only) *)
  Definition E_KEYERROR := 1.       (* Python KeyError / ValueError inside the primitive *)
  Definition E_NOT_ATTACHED := 2.   (* instance or head not present *)
  Definition E_NOT_FRESH := 3.      (* uid already present *)
  Definition E_NO_CALLBACK := 4.    (* head attached without both callbacks *)
  Definition E_FIRE := 5.           (* setter: callback invocation differs from `value changed` *)
  Definition E_STALE := 6.          (* heads/instances dropped while still in the index *)
  Definition E_UNSYNCED := 7.       (* a head that a scan would find was attached without registration *)
  Definition E_STATUS := 8.         (* instance status change outside the discipline *)
  Definition E_UNKNOWN := 9.        (* operation outside the model *)
  Definition E_RAISE := 10.         (* exception outcome differs *)
  Definition E_DETACHED_ADD := 11.  (* callback of a detached head would register it *)

  Fixpoint remove_first (k : key) (l : list key) : option (list key) :=
    match l with
    | [] => None
    | x :: t => if key_eqb x k then Some t
                else match remove_first k t with Some t' => Some (x :: t') | None => None end
    end.

  (* _remove_head_from_event_matching_structures *)
  Definition remove_entry (s : state) (k : key) : res :=
    match rev_get s k with
    | None => Ok s
    | Some n =>
        match aget N.eqb (index s) n with
        | None => Fail E_KEYERROR
        | Some l =>
            match remove_first k l with
            | None => Fail E_KEYERROR
            | Some l' => Ok (mkS (insts s) (aset N.eqb (index s) n l') (adel key_eqb (rev s) k))
            end
        end
    end.

  (* _add_head_to_event_matching_structures, with the key n already computed *)
  Definition add_entry (s : state) (k : key) (n : name) : state :=
    mkS (insts s)
        (match aget N.eqb (index s) n with
         | None => aset N.eqb (index s) n [k]
         | Some l => aset N.eqb (index s) n (l ++ [k])
         end)
        (aset key_eqb (rev s) k n).

  (* _flow_head_changed(state, flow_state, head) for a head record hd of instance f;
     second component: the computation of the event name raised *)
  Definition head_changed_with (s : state) (f h : uid) (hd : head) : res * bool :=
    match remove_entry s (f, h) with
    | Fail e => (Fail e, false)
    | Ok s1 =>
        if listening s1 f then
          match rel_of f hd with
          | Some n => (Ok (add_entry s1 (f, h) n), false)
          | None => (Ok s1, rel_bad f hd)
          end
        else (Ok s1, false)
    end.

  Definition head_changed (s : state) (f h : uid) : res * bool :=
    match find_head s f h with
    | Some hd => head_changed_with s f h hd
    | None => (Fail E_NOT_ATTACHED, false)
    end.

  (* ---------------------------------------------------------------- updates of `insts` *)

  Definition set_insts (s : state) (l : list (uid * inst)) : state := mkS l (index s) (rev s).

  Definition put_inst (s : state) (f : uid) (i : inst) : state :=
    set_insts s (aset N.eqb (insts s) f i).

  Definition put_head (s : state) (f h : uid) (hd : head) : state :=
    match find_inst s f with
    | Some i => put_inst s f (mkI (i_st i) (aset N.eqb (i_heads i) h hd))
    | None => s
    end.

  (* no (f,h) with h among hs is registered *)
  Definition none_registered (s : state) (f : uid) (hs : list (uid * head)) : bool :=
    forallb (fun p => match rev_get s (f, fst p) with None => true | Some _ => false end) hs.

  Fixpoint remove_entries (s : state) (f : uid) (hs : list uid) : res :=
    match hs with
    | [] => Ok s
    | h :: t => match remove_entry s (f, h) with
                | Ok s1 => remove_entries s1 f t
                | Fail e => Fail e
                end
    end.

  (* ---------------------------------------------------------------- operations *)

  Inductive fire := NoFire | Fire | FireRaise.
  (* what the wrapped setter did: no callback / `_flow_head_changed` called once /
     called once and it raised while computing the event name *)

  Inductive op :=
  | OResetInsts
      (* initialize_state: state.flow_states = dict() *)
  | ONewInst (f : uid) (st : fstatus) (h : uid) (hd : head) (cbp cbs : bool)
      (* add_new_flow_instance: flow_states[f] = instance with its single head;
         both callbacks registered; explicit _flow_head_changed *)
  | OSetPos (f h : uid) (p : N) (fr : fire)
      (* head.position = p through the setter *)
  | OSetStatus (f h : uid) (st : hstatus) (fr : fire)
      (* head.status = st through the setter *)
  | OHeadChanged (f h : uid) (raised : bool)
      (* explicit _flow_head_changed on an attached head *)
  | OAttachHead (f h : uid) (hd : head) (cbp cbs : bool)
      (* flow_state.heads[h] = FlowHead(...) with callbacks, no registration *)
  | OForkHead (f h : uid) (hd : head) (cbp cbs : bool) (p : N) (fr : fire)
      (* ForkHead in slide: heads[h] = new head (callbacks set); then new_head.position = p *)
  | ODelHead (f h : uid)
      (* del flow_state.heads[h] *)
  | OClearHeads (f : uid) (removed : list uid)
      (* _abort_flow/_finish_flow: explicit removal for the listed heads, then heads.clear() *)
  | OMainRestart (f h : uid) (hd : head) (cbp cbs : bool) (raised : bool)
      (* _finish_flow on main: new head with callbacks, explicit _flow_head_changed,
         flow_state.heads = {h: new_head} *)
  | OInstStatus (f : uid) (st : fstatus)
      (* flow_state.status = st (no callback exists) *)
  | ODelInst (f : uid)
      (* _clean_up_state: del state.flow_states[f] *)
  | ODetachedChanged (f h : uid) (hd : head) (raised : bool)
      (* a setter of a head that is no longer in flow_state.heads fired its callback *)
  | OUnknown (code : N).

  Definition expect_fire (changed raised : bool) : fire :=
    if changed then (if raised then FireRaise else Fire) else NoFire.

  Definition fire_eqb (a b : fire) : bool :=
    match a, b with
    | NoFire, NoFire | Fire, Fire | FireRaise, FireRaise => true
    | _, _ => false
    end.

  (* a setter on an attached head: nothing happens when the value is unchanged; otherwise the
     field is written and the callback runs.  The observed callback behaviour must be the
     one of the unchanged FlowHead setters. *)
  Definition do_set (s : state) (f h : uid) (hd' : head) (changed : bool) (fr : fire) : res :=
    if changed then
      match head_changed (put_head s f h hd') f h with
      | (Ok s', raised) => if fire_eqb fr (expect_fire true raised) then Ok s' else Fail E_FIRE
      | (Fail e, _) => Fail e
      end
    else if fire_eqb fr NoFire then Ok s else Fail E_FIRE.

  Definition step (s : state) (o : op) : res :=
    match o with
    | OResetInsts =>
        if forallb (fun p => match snd p with [] => true | _ => false end) (index s)
           && match rev s with [] => true | _ => false end
        then Ok (set_insts s [])
        else Fail E_STALE
    | ONewInst f st h hd cbp cbs =>
        match find_inst s f with
        | Some _ => Fail E_NOT_FRESH
        | None =>
            if is_done st then Fail E_STATUS else
            if cbp && cbs then
              match head_changed (put_inst s f (mkI st [(h, hd)])) f h with
              | (Ok s', false) => Ok s'
              | (Ok _, true) => Fail E_RAISE
              | (Fail e, _) => Fail e
              end
            else Fail E_NO_CALLBACK
        end
    | OSetPos f h p fr =>
        match find_head s f h with
        | None => Fail E_NOT_ATTACHED
        | Some hd => do_set s f h (mkH p (h_st hd)) (negb (N.eqb p (h_pos hd))) fr
        end
    | OSetStatus f h st fr =>
        match find_head s f h with
        | None => Fail E_NOT_ATTACHED
        | Some hd => do_set s f h (mkH (h_pos hd) st) (negb (hstatus_eqb st (h_st hd))) fr
        end
    | OHeadChanged f h raised =>
        match head_changed s f h with
        | (Ok s', r) => if Bool.eqb r raised then Ok s' else Fail E_RAISE
        | (Fail e, _) => Fail e
        end
    | OAttachHead f h hd cbp cbs =>
        match find_inst s f, find_head s f h with
        | None, _ => Fail E_NOT_ATTACHED
        | Some _, Some _ => Fail E_NOT_FRESH
        | Some i, None =>
            if is_done (i_st i) then Fail E_STATUS else
            if cbp && cbs then
              (* nobody registers this head: a scan must not find it *)
              if is_listening (i_st i) && (match rel_of f hd with Some _ => true | None => false end)
              then Fail E_UNSYNCED
              else match rev_get s (f, h) with
                   | Some _ => Fail E_STALE
                   | None => Ok (put_head s f h hd)
                   end
            else Fail E_NO_CALLBACK
        end
    | OForkHead f h hd cbp cbs p fr =>
        match find_inst s f, find_head s f h with
        | None, _ => Fail E_NOT_ATTACHED
        | Some _, Some _ => Fail E_NOT_FRESH
        | Some i, None =>
            if is_done (i_st i) then Fail E_STATUS else
            if cbp && cbs then
              if N.eqb p (h_pos hd) then
                (* the setter will not fire: the head stays unregistered where it was created *)
                if is_listening (i_st i) && (match rel_of f hd with Some _ => true | None => false end)
                then Fail E_UNSYNCED
                else match rev_get s (f, h) with
                     | Some _ => Fail E_STALE
                     | None => if fire_eqb fr NoFire then Ok (put_head s f h hd) else Fail E_FIRE
                     end
              else do_set (put_head s f h hd) f h (mkH p (h_st hd)) true fr
            else Fail E_NO_CALLBACK
        end
    | ODelHead f h =>
        match find_inst s f, find_head s f h with
        | Some i, Some _ =>
            match rev_get s (f, h) with
            | Some _ => Fail E_STALE
            | None => Ok (put_inst s f (mkI (i_st i) (adel N.eqb (i_heads i) h)))
            end
        | _, _ => Fail E_NOT_ATTACHED
        end
    | OClearHeads f removed =>
        match find_inst s f with
        | None => Fail E_NOT_ATTACHED
        | Some i =>
            if forallb (fun h => amem N.eqb (i_heads i) h) removed then
              match remove_entries s f removed with
              | Fail e => Fail e
              | Ok s1 =>
                  if none_registered s1 f (i_heads i)
                  then Ok (put_inst s1 f (mkI (i_st i) []))
                  else Fail E_STALE
              end
            else Fail E_NOT_ATTACHED
        end
    | OMainRestart f h hd cbp cbs raised =>
        match find_inst s f with
        | None => Fail E_NOT_ATTACHED
        | Some i =>
            if is_done (i_st i) then Fail E_STATUS else
            if cbp && cbs then
              if none_registered s f (i_heads i) then
                match head_changed (put_inst s f (mkI (i_st i) [(h, hd)])) f h with
                | (Ok s', r) => if Bool.eqb r raised then Ok s' else Fail E_RAISE
                | (Fail e, _) => Fail e
                end
              else Fail E_STALE
            else Fail E_NO_CALLBACK
        end
    | OInstStatus f st =>
        match find_inst s f with
        | None => Fail E_NOT_ATTACHED
        | Some i =>
            match cls st, cls (i_st i) with
            | Listening, Listening => Ok (put_inst s f (mkI st (i_heads i)))
            | Stopping, _ => Ok (put_inst s f (mkI st (i_heads i)))
            | _, _ =>
                (* into `done`, or back to `listening`: only without heads *)
                match i_heads i with
                | [] => Ok (put_inst s f (mkI st []))
                | _ => Fail E_STATUS
                end
            end
        end
    | ODelInst f =>
        match find_inst s f with
        | None => Fail E_NOT_ATTACHED
        | Some i => if is_done (i_st i) then Ok (set_insts s (adel N.eqb (insts s) f))
                    else Fail E_STATUS
        end
    | ODetachedChanged f h hd raised =>
        match find_head s f h with
        | Some _ => Fail E_NOT_FRESH
        | None =>
            if listening s f && (match rel_of f hd with Some _ => true | None => false end)
            then Fail E_DETACHED_ADD
            else match head_changed_with s f h hd with
                 | (Ok s', r) => if Bool.eqb r raised then Ok s' else Fail E_RAISE
                 | (Fail e, _) => Fail e
                 end
        end
    | OUnknown _ => Fail E_UNKNOWN
    end.

  Fixpoint run (s : state) (ops : list op) : res :=
    match ops with
    | [] => Ok s
    | o :: t => match step s o with Ok s' => run s' t | Fail e => Fail e end
    end.

  (* position (0-based) and code of the first failing operation *)
  Fixpoint run_diag (s : state) (ops : list op) (i : N) : option (N * N) :=
    match ops with
    | [] => None
    | o :: t => match step s o with Ok s' => run_diag s' t (i + 1) | Fail e => Some (i, e) end
    end.

  (* ---------------------------------------------------------------- quiescence *)

  (* what the index-layer state does not contain, per listening instance *)
  Record refs := mkR {
    r_children : list uid;       (* child_flow_uids *)
    r_actions : list uid;        (* action_uids *)
    r_scope_flows : list uid;    (* flow uids in scopes *)
    r_scope_actions : list uid;  (* action uids in scopes *)
    r_fork_heads : list uid      (* values of head_fork_uids *)
  }.

  Record snapshot := mkSnap {
    sn_queue : N;                         (* len(state.internal_events) *)
    sn_actions : list uid;                (* keys of state.actions *)
    sn_refs : list (uid * refs);          (* per instance *)
    sn_state : state
  }.

  Definition memN (x : N) (l : list N) : bool := existsb (N.eqb x) l.

  Definition parked (f : uid) (hd : head) : bool :=
    match h_st hd with
    | HInactive => true
    | HMerging => false
    | HActive => match prog f (h_pos hd) with
                 | Some (EMatch _) | Some EMatchBad | Some EWait => true
                 | _ => false
                 end
    end.

  Definition refs_exist (sn : snapshot) (i : inst) (r : refs) : bool :=
    forallb (fun c => amem N.eqb (insts (sn_state sn)) c) (r_children r)
    && forallb (fun a => memN a (sn_actions sn)) (r_actions r)
    && forallb (fun c => amem N.eqb (insts (sn_state sn)) c) (r_scope_flows r)
    && forallb (fun a => memN a (sn_actions sn)) (r_scope_actions r).

  (* not part of the property text (heads are neither actions nor flows); evaluated as an
     observation only: on the unchanged code nested forks leave entries of head_fork_uids that
     point to merged (deleted) heads *)
  Definition fork_refs_exist (i : inst) (r : refs) : bool :=
    forallb (fun h => amem N.eqb (i_heads i) h) (r_fork_heads r).

  Definition inst_quiescent (sn : snapshot) (p : uid * inst) : bool :=
    let (f, i) := p in
    match cls (i_st i) with
    | Listening =>
        forallb (fun q => parked f (snd q)) (i_heads i)
        && match aget N.eqb (sn_refs sn) f with
           | Some r => refs_exist sn i r
           | None => false
           end
    | Stopping => false
    | Done => match i_heads i with [] => true | _ => false end
    end.

  Definition quiescentb (sn : snapshot) : bool :=
    N.eqb (sn_queue sn) 0 && forallb (inst_quiescent sn) (insts (sn_state sn)).

  Definition no_stopping (s : state) : Prop :=
    forall f i, find_inst s f = Some i -> cls (i_st i) <> Stopping.
End Model.

Arguments step : simpl never.
