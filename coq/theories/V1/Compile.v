(* C12 (Colang 1.0) - Gallina transcription of
     coyml_parser._extract_elements / _resolve_gotos / _process_ellipsis / parse_flow_elements
   and of runtime/sliding.py `slide` (control skeleton: which index is read next).
   Definitions only; proofs are in Compile_proofs.v. *)
From Coq Require Import ZArith List String Bool.
From NG Require Import V1.CompileItems.
Import ListNotations.
Open Scope Z_scope.

Definition zlen {A} (l : list A) : Z := Z.of_nat (List.length l).

Definition leaf_elem (l : leaf) : elem :=
  match l with
  | LOther t => plain (TOther t)
  | LCheck => plain TCheck
  | LStop => plain TStop
  | LBreak => plain TBreak
  | LContinue => plain TContinue
  | LReturn => mkE TJump (Some (-1)) true None None None [] None
  | LSet b => plain (TSet b)
  | LLabel n => plain (TLabel n)
  | LGoto n => plain (TGoto n)
  end.

(* ---- `if` ---- *)
Definition if_block (th el : list elem) : list elem :=
  match el with
  | [] => mkE TIf None false (Some (zlen th + 1)) None None [] None :: th
  | _ => mkE TIf None false (Some (zlen th + 1 + 1)) None None [] None
         :: th ++ jump (zlen el + 1) :: el
  end.

(* ---- `while`: every do-element that has no `_next_on_break` yet gets both offsets ---- *)
Definition decorate (n j : Z) (e : elem) : elem :=
  match e_brk e with
  | Some _ => e
  | None => mkE (e_type e) (e_next e) (e_abs e) (e_else e)
                (Some (n + 1 - j)) (Some (-1 * j - 1)) (e_heads e) (e_label e)
  end.

Fixpoint decorate_from (n j : Z) (es : list elem) : list elem :=
  match es with
  | [] => []
  | e :: r => decorate n j e :: decorate_from n (j + 1) r
  end.

Definition while_block (body : list elem) : list elem :=
  let n := zlen body in
  mkE TWhile None false None (Some (n + 2)) None [] None
  :: decorate_from n 0 body ++ [jump (-1 * (n + 1))].

(* ---- branch group (a maximal run of consecutive python lists) ---- *)
Fixpoint rest_len (bs : list (list elem)) : Z :=
  match bs with
  | [] => 0
  | b :: r => zlen b + 1 + rest_len r
  end.

Fixpoint branch_heads (pos : Z) (bs : list (list elem)) : list Z :=
  match bs with
  | [] => []
  | b :: r => pos :: branch_heads (pos + zlen b + 1) r
  end.

Fixpoint branch_bodies (bs : list (list elem)) : list elem :=
  match bs with
  | [] => []
  | b :: r => b ++ jump (1 + rest_len r) :: branch_bodies r
  end.

Definition flush (pending : list (list elem)) : list elem :=
  match pending with
  | [] => []
  | _ => mkE TBranch None false None None None (branch_heads 1 pending) None
         :: branch_bodies pending
  end.

(* ---- _extract_elements.
   Each item yields either an ordinary block of elements or (python list) one branch;
   `assemble` is the outer `while i < len(items)` loop: `pending` = the already extracted
   branches of the run of consecutive lists being collected (the inner
   `while i < len(items)-1 and isinstance(items[i+1], list)`). *)
Inductive xres := XBlock (es : list elem) | XBranch (es : list elem).

Fixpoint assemble (xs : list xres) (pending : list (list elem)) : list elem :=
  match xs with
  | [] => flush pending
  | XBranch b :: rest => assemble rest (pending ++ [b])
  | XBlock es :: rest => flush pending ++ es ++ assemble rest []
  end.

Fixpoint xitem (it : item) : xres :=
  match it with
  | ILeaf l => XBlock [leaf_elem l]
  | IIf th el => XBlock (if_block (assemble (map xitem th) []) (assemble (map xitem el) []))
  | IWhile body => XBlock (while_block (assemble (map xitem body) []))
  | IAny ch => XBlock (plain TAny :: map leaf_elem ch)
  | IList b => XBranch (assemble (map xitem b) [])
  end.

Definition extract (items : list item) : list elem := assemble (map xitem items) [].

(* ---- _resolve_gotos ---- *)
Fixpoint label_pos (name : string) (es : list elem) : option nat :=
  match es with
  | [] => None
  | e :: r => match e_type e with
              | TLabel n => if String.eqb n name then Some O
                            else option_map S (label_pos name r)
              | _ => option_map S (label_pos name r)
              end
  end.

Fixpoint labels_of (es : list elem) : list string :=
  match es with
  | [] => []
  | e :: r => match e_type e with TLabel n => n :: labels_of r | _ => labels_of r end
  end.

Fixpoint has_dup (l : list string) : bool :=
  match l with
  | [] => false
  | x :: r => existsb (String.eqb x) r || has_dup r
  end.

Definition resolve_one (all : list elem) (i : Z) (e : elem) : res elem :=
  match e_type e with
  | TLabel n => Ok (mkE TJump (Some 1) (e_abs e) (e_else e) (e_brk e) (e_cont e) (e_heads e) (Some n))
  | TGoto n => match label_pos n all with
               | Some k => Ok (mkE TJump (Some (Z.of_nat k - i)) (e_abs e) (e_else e) (e_brk e)
                                   (e_cont e) (e_heads e) (e_label e))
               | None => Err UndefLabel
               end
  | _ => Ok e
  end.

Fixpoint resolve_from (all : list elem) (i : Z) (es : list elem) : res (list elem) :=
  match es with
  | [] => Ok []
  | e :: r => match resolve_one all i e with
              | Err x => Err x
              | Ok e' => match resolve_from all (i + 1) r with
                         | Err x => Err x
                         | Ok r' => Ok (e' :: r')
                         end
              end
  end.

Definition resolve_gotos (es : list elem) : res (list elem) :=
  if has_dup (labels_of es) then Err DupLabel else resolve_from es 0 es.

(* ---- _process_ellipsis: `$x = ...` becomes a fresh run_action dict (no offsets copied) ---- *)
Definition ellipsis_one (e : elem) : elem :=
  match e_type e with
  | TSet true => plain (TOther "run_action")
  | _ => e
  end.

Definition compile (items : list item) : res (list elem) :=
  match resolve_gotos (extract items) with
  | Err x => Err x
  | Ok es => Ok (map ellipsis_one es)
  end.

(* ---- sliding.py slide(): which element index is read; conditions are an arbitrary oracle ---- *)
Inductive slide_res :=
| SHead (h : Z)          (* stopped on a non-sliding element *)
| SFinished (r : Z)      (* -1 * (prev_head + 1) *)
| SNone                  (* stop / failed check *)
| SIndexError            (* flow_config.elements[head] with head > len *)
| SKeyError              (* a mandatory offset key is missing *)
| SFuel.

Definition or1 (o : option Z) : Z := match o with Some n => n | None => 1 end.

Section Slide.
  Variable cond : nat -> Z -> bool.   (* eval_expression: arbitrary function of (step, position) *)

  Fixpoint slide (fuel : nat) (es : list elem) (head prev : Z) : slide_res :=
    match fuel with
    | O => SFuel
    | S f =>
      if (head =? zlen es) || (head <? 0) then SFinished (-1 * (prev + 1))
      else match nth_error es (Z.to_nat head) with
           | None => SIndexError
           | Some e =>
             match e_type e with
             | TCheck => if cond f head then slide f es (head + or1 (e_next e)) head else SNone
             | TIf => if cond f head then slide f es (head + 1) head
                      else match e_else e with
                           | Some n => slide f es (head + n) head
                           | None => SKeyError
                           end
             | TJump => match e_next e with
                        | None => SKeyError
                        | Some n => if e_abs e then slide f es n head else slide f es (head + n) head
                        end
             | TWhile => if cond f head then slide f es (head + or1 (e_next e)) head
                         else match e_brk e with
                              | Some n => slide f es (head + n) head
                              | None => SKeyError
                              end
             | TContinue => slide f es (head + or1 (e_cont e)) head
             | TStop => SNone
             | TBreak => slide f es (head + or1 (e_brk e)) head
             | TSet _ => slide f es (head + or1 (e_next e)) head
             | _ => SHead head
             end
           end
    end.
End Slide.

(* every position slide() or compute_next_state() can move to from element i *)
Definition targets (i : Z) (e : elem) : list Z :=
  match e_type e with
  | TCheck | TSet _ => [i + or1 (e_next e)]
  | TIf => (i + 1) :: match e_else e with Some n => [i + n] | None => [] end
  | TJump => match e_next e with Some n => [if e_abs e then n else i + n] | None => [] end
  | TWhile => (i + or1 (e_next e)) :: match e_brk e with Some n => [i + n] | None => [] end
  | TContinue => [i + or1 (e_cont e)]
  | TBreak => [i + or1 (e_brk e)]
  | TBranch => map (fun h => i + h + 1) (e_heads e)
  | TStop => []
  | _ => [i + 1]
  end.

(* ---- the closedness predicate (C12, Colang 1.0) ----
   element e at index i of a flow of `len` elements: every offset field that is present lands in
   [0, len] (an absolute jump: in [-1, len]; -1 is `return`, which slide treats as "finished"),
   every branch head indexes an existing element, the offset slide() reads unconditionally is
   present, no unresolved label/goto is left, and `_absolute` is set on jumps only (slide()
   honours it only there). *)
Definition shape_ok (e : elem) : Prop :=
  (e_abs e = true -> e_type e = TJump) /\
  match e_type e with
  | TIf => e_else e <> None
  | TWhile => e_brk e <> None
  | TJump => e_next e <> None
  | TLabel _ | TGoto _ => False
  | _ => True
  end.

Definition in_range (len i : Z) (e : elem) : Prop :=
  (forall n, e_next e = Some n -> if e_abs e then -1 <= n <= len else 0 <= i + n <= len) /\
  (forall n, e_else e = Some n -> 0 <= i + n <= len) /\
  (forall n, e_brk e = Some n -> 0 <= i + n <= len) /\
  (forall n, e_cont e = Some n -> 0 <= i + n <= len) /\
  (forall h, In h (e_heads e) -> 0 <= i + h < len) /\
  shape_ok e.

Definition closed_v1 (es : list elem) : Prop :=
  forall i e, nth_error es i = Some e -> in_range (zlen es) (Z.of_nat i) e.

(* ---- sanity ---- *)
Open Scope string_scope.
Example ex_if_else :
  compile [IIf [ILeaf (LOther "a")] [ILeaf (LOther "b"); ILeaf (LOther "c")]]
  = Ok [mkE TIf None false (Some 3) None None [] None; plain (TOther "a"); jump 3;
        plain (TOther "b"); plain (TOther "c")].
Proof. reflexivity. Qed.

Example ex_while_break :
  compile [IWhile [ILeaf LBreak; ILeaf (LOther "a")]]
  = Ok [mkE TWhile None false None (Some 4) None [] None;
        mkE TBreak None false None (Some 3) (Some (-1)) [] None;
        mkE (TOther "a") None false None (Some 2) (Some (-2)) [] None;
        jump (-3)].
Proof. reflexivity. Qed.

Example ex_branches :
  compile [IList [ILeaf (LOther "a")]; IList []; ILeaf (LOther "z")]
  = Ok [mkE TBranch None false None None None [1; 3] None; plain (TOther "a"); jump 2; jump 1;
        plain (TOther "z")].
Proof. reflexivity. Qed.

Example ex_goto :
  compile [ILeaf (LLabel "l"); ILeaf (LGoto "l"); ILeaf (LGoto "m")] = Err UndefLabel.
Proof. reflexivity. Qed.
