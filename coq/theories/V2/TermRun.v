(* Executable checkers for the C10 correspondence (evaluated by coqc/vm_compute on cases printed
   by harness/c10.py).  Nothing here is used by the theorems. *)
From Coq Require Import List Arith Bool.
From NG Require Import V2.Term.
Import ListNotations.

Definition orc_of (l : list outcome) : nat -> outcome := fun k => nth k l OTrue.

(* slide with the list of visited positions (same recursion as Term.slide_fuel) *)
Fixpoint slide_path (fuel : nat) (es : list elem) (orc : nat -> outcome) (k pos : nat) (cs : list label)
  : list nat :=
  match fuel with
  | O => []
  | S fuel' =>
    match nth_error es pos with
    | None => []
    | Some e =>
      match exec_elem es (orc k) pos cs e with
      | Stop _ => [pos]
      | Cont pos' cs' _ _ => pos :: slide_path fuel' es orc (S k) pos' cs'
      end
    end
  end.

Fixpoint eqb_list (l1 l2 : list nat) : bool :=
  match l1, l2 with
  | [], [] => true
  | a :: l1', b :: l2' => Nat.eqb a b && eqb_list l1' l2'
  | _, _ => false
  end.

(* observed stop of the real slide: kind code 0 Blocked 1 Forked 2 Ended 3 Aborted 4 Raised *)
Definition stop_matches (s : stop) (kind pos : nat) (targets : list nat) : bool :=
  match s, kind with
  | Blocked p, 0 => Nat.eqb p pos
  | Forked p ts, 1 => Nat.eqb p pos && eqb_list ts targets
  | Ended, 2 => true
  | Aborted, 3 => true
  | Raised p, 4 => Nat.eqb p pos
  | _, _ => false
  end.

(* case = (elements, oracle, start position, start catch stack,
           (kind, end position, fork targets, steps, end catch stack, visited positions, starts)) *)
Definition check_slide
  (c : list elem * list outcome * nat * list label *
       (nat * nat * list nat * nat * list label * list nat * list (flowid * bool))) : bool :=
  let '(es, ol, start, cs, (kind, pos, targets, steps, cs_end, path, starts)) := c in
  let r := slide (length es + 1) es (orc_of ol) start cs in
  stop_matches (s_stop r) kind pos targets &&
  Nat.eqb (s_steps r) steps &&
  eqb_list (s_catch r) cs_end &&
  eqb_list (slide_path (length es + 1) es (orc_of ol) 0 start cs) path &&
  eqb_list (map fst (s_starts r)) (map fst starts) &&
  forallb (fun ab => Bool.eqb (snd (fst ab)) (snd (snd ab))) (combine (s_starts r) starts).

(* the start configuration of a real head is the one the verifier predicts (hypothesis of
   C10_slide_bound); only meaningful for flows accepted by guarded_flowb *)
Definition check_start (c : list elem * nat * list label) : bool :=
  let '(es, start, cs) := c in
  negb (guarded_flowb es) || Nat.leb (length es) start ||
  match stk_at (compute_stk es) start with Some s => eqb_labels s cs | None => false end.

(* case = (elements, expected verdict of the independent Python search) *)
Definition check_guarded (c : list elem * bool) : bool :=
  Bool.eqb (guarded_flowb (fst c)) (snd c).

(* unguarded flows must really be able to spin: the oracle found by the Python search makes the
   model run out of any fuel we try (here 4 * length + 8) *)
Definition check_spins (c : list elem * list outcome * nat * list label) : bool :=
  let '(es, ol, start, cs) := c in
  match s_stop (slide (4 * length es + 8) es (fun k => nth (k mod (length ol)) ol OTrue) start cs) with
  | OutOfFuel => true
  | _ => false
  end.
