(* placeholder while the proofs are being written *)
From Coq Require Import String List Bool.
From NG Require Import Gen.C03Consts Pipe.Faults.
Theorem C03_tmp : dispatch_reraises = false.
Proof. exact eq_refl. Qed.
Print Assumptions C03_tmp.
