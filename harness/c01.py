"""C01 - Input rails gate every user message before anything else sees it.

Models: coq/theories/Pipe/{Rails,TurnV1,TurnV2}.v; theorems: Props/C01.v (C01_order,
C01_before_dialog, C01_reject_stops, C01_rewrite_noninterference, C01_every_turn, their Colang 2
counterparts, and the (T) obligations about the flows as translated from the current source).
Ties: (T) translator/gen_c01.py -> Gen/C01Flows.v (llm_flows.co, self check flows, guardrails.co)
checked by the verified dominance checker / loop lemma of Pipe/FlowCheck*.v; (X) end-to-end
correspondence of the REAL `LLMRails.generate` (scripted rail actions, recording FakeLLM,
multi-turn on one instance, Colang 1.0 general / passthrough / dialog and Colang 2.x guardrails)
with the models evaluated inside Coq.  Search: the statements of the theorems re-stated in
plain Python on the observed traces (`oracle`).
"""
from __future__ import annotations

from harness import pipe_driver as D

PID = "C01"
GEN = ["C01Flows"]


def oracle(case, observed):
    """Property text on the implementation's observations.  Yields (signature, what, turn index)."""
    ver = case["ver"]
    out = []
    forbidden = {}   # text that was rewritten away -> turn; must never reach a prompt (Colang 1.0) ...
    legit = set()    # ... unless the same text legitimately belongs to the conversation (texts may repeat)
    for t, (turn, ob) in enumerate(zip(case["turns"], observed)):
        if "error" in ob:
            out.append((f"{ver}-generate-raised", f"turn {t}: generate raised {ob['error']}", t))
            break
        obs = ob["obs"]
        icalls = [(o[1], o[2]) for o in obs if o[0] == "I"]
        if (turn.get("opt") or {}).get("input", True):
            exp, final, rej = D.expected_rail_calls(turn["iv"], turn["user"], rewriting=(ver == "v1"))
        else:
            exp, final, rej = [], turn["user"], None     # the caller switched the input rails off for THIS call
        # order / prefix / what each rail was shown / nobody after a rejection / everybody otherwise
        if icalls != exp:
            if [k for k, _ in icalls] != [k for k, _ in exp]:
                if len(icalls) < len(exp) and icalls == exp[:len(icalls)]:
                    sig = f"{ver}-input-rail-not-called"
                elif len(icalls) > len(exp) and icalls[:len(exp)] == exp:
                    sig = f"{ver}-input-rail-called-after-reject"
                else:
                    sig = f"{ver}-input-rail-order"
            else:
                sig = f"{ver}-input-rail-shown-wrong-text"
            out.append((sig, f"turn {t}: input-rail calls {icalls}, required {exp}", t))
        # every input-rail call precedes every LLM call / output-rail call
        first_other = next((i for i, o in enumerate(obs) if o[0] != "I"), len(obs))
        if any(o[0] == "I" for o in obs[first_other:]) or (
                case["n_in"] > 0 and any(o[0] in ("L", "O") for o in obs[:len(icalls)])):
            out.append((f"{ver}-dialog-before-input-rails", f"turn {t}: observation order {[(o[0], o[1]) for o in obs]}", t))
        if case["n_in"] > 0 and not icalls and exp and any(o[0] == "L" for o in obs):
            out.append((f"{ver}-llm-call-without-input-rails", f"turn {t}: LLM called, no input rail ran", t))
        reply = ob["reply"]
        if rej is not None:
            # a rejection: no LLM call; reply = refusal or that rail's exception
            if any(o[0] == "L" for o in obs):
                out.append((f"{ver}-llm-call-after-input-reject", f"turn {t}: rail {rej} rejected, LLM calls {[o[1] for o in obs if o[0] == 'L']}", t))
            if case["exc"]:
                ok = reply[0] == "exc" and D.parse_exc(reply) == ("I", rej)
            elif ver == "v1":
                ok = reply == ["msg", D.REFUSAL]
            else:
                # Colang 2: the input refusal is a `bot say`, itself subject to the output rails
                ok = reply in (["msg", D.REFUSAL], ["msg", D.REFUSAL_OUT])
            if ver == "v2" and case["exc"] and not ok:
                ok = reply[0] == "exc" and (D.parse_exc(reply) or ("", -1))[0] == "O"
            if not ok:
                out.append((f"{ver}-reply-after-input-reject", f"turn {t}: rail {rej} rejected, reply {reply}", t))
        else:
            # accepted: in Colang 1.0 later stages see only the final text
            if ver == "v1":
                seen_texts = [x for _, x in exp] + [final]
                legit.add(final)
                for x in seen_texts:
                    if x != final:
                        forbidden.setdefault(x, t)
                for o in obs:
                    if o[0] == "L" and o[1] != "generate_next_steps" and final.strip() and final not in o[3]:
                        out.append((f"{ver}-rewritten-text-missing-in-prompt", f"turn {t}: prompt of {o[1]} lacks {final}: {o[3]}", t))
        if reply[0] == "msg" and reply[1]:
            legit.update(str(reply[1]).split("\n"))
        if ver == "v1" and case["mode"] == "passthrough":
            legit.add(turn["user"])      # the caller's message list is sent verbatim in later turns
        if ver == "v1":
            for o in obs:
                if o[0] == "L":
                    leaked = [x for x in o[3] if x in forbidden and x not in legit]
                    if leaked:
                        out.append((f"{ver}-original-text-in-prompt", f"turn {t}: prompt of {o[1]} contains {leaked} (rewritten away at turn {forbidden[leaked[0]]})", t))
    return out


def run(tier, seed, replay=None):
    return D.run_check(
        PID, GEN, "in", oracle, tier, seed, replay,
        "make theories/Props/C01.vo && coqc Props/C01.v (Print Assumptions); coqc build/cases/C01_*/Cases_*.v",
        "a conversation = configuration (Colang 1.0 general|passthrough|dialog x enable_rails_exceptions, Colang 2.x guardrails) x "
        "rail counts x per-turn verdict vectors over {accept,reject,rewrite} (2.x: {accept,reject}) x scripted LLM completions; "
        "every input verdict vector at every turn position (<=3 input rails, 3 turns), other turns seeded-random; thorough adds "
        "<=4 rails, 4-5 turns, salted texts. non-trivial = >=2 rails, >=2 turns and at least one reject/rewrite verdict; "
        "distinct by hash of the case",
        D.COMMON_ASSUMPTIONS, D.OBSERVATIONS, library=True)
