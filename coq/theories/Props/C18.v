(* C18 - Streaming output does not depend on how the LLM text is chunked.
   Property theorems only; every proof is `exact <lemma>`; Print Assumptions beneath each.

   `run eqb cfg chunks e` is the model (Svc/Stream.v) of StreamingHandler AFTER
   fixes/C18-streaming.patch: one push_chunk per chunk, then the end of the LLM output signalled by
   e = EndLLM (on_llm_end), EndEmpty (push_chunk of the empty string) or EndNone (push_chunk(None)).
   `delivered` is what the consumer of the async iterator receives, `s_completion` is `.completion`.
   `spec` = prefix removed if the text starts with it, cut at the leftmost occurrence of any stop
   sequence, suffix removed from the very end.  Alphabet, text length, number and size of the
   patterns, and the chunking are unbounded.
   `run_old` is the transcription of the pinned snapshot (before the patch); it refutes the
   statement (the `_refuted` theorems, kept as regression documentation). *)
From Coq Require Import List NArith.
From NG Require Import Gen.C18Consts Svc.Stream Svc.Stream_proofs Svc.Stream_gen.
Import ListNotations.

(* the property: for every chunking of a text the handler delivers spec(text), and its completion
   is that same string (end of output signalled by on_llm_end, as LangChain does) *)
Theorem C18_chunking_independent :
  forall (A : Type) (eqb : A -> A -> bool), (forall a b, eqb a b = true <-> a = b) ->
  forall (cfg : config A) (chunks : list (list A)),
    Forall (fun x => x <> []) chunks ->
    concat (delivered (s_queue (run eqb cfg chunks EndLLM))) = spec eqb cfg (concat chunks) /\
    s_completion (run eqb cfg chunks EndLLM) = spec eqb cfg (concat chunks).
Proof. exact chunking_independent. Qed.
Print Assumptions C18_chunking_independent.

(* the entry path LangChain uses - on_chat_model_start (chat models), on_llm_new_token per token,
   on_llm_end - with or without the empty first token some providers send (the one token
   on_llm_new_token drops): the same, for every chunking into non-empty tokens.  An empty token
   anywhere else is NOT covered: push_chunk reads it as the end-of-stream marker. *)
Theorem C18_chunking_independent_callback :
  forall (A : Type) (eqb : A -> A -> bool), (forall a b, eqb a b = true <-> a = b) ->
  forall (cfg : config A) (chat : bool) (lead chunks : list (list A)),
    (lead = [] \/ lead = [[]]) -> Forall (fun x => x <> []) chunks ->
    concat (delivered (s_queue (run_tokens eqb cfg chat (lead ++ chunks)))) = spec eqb cfg (concat chunks) /\
    s_completion (run_tokens eqb cfg chat (lead ++ chunks)) = spec eqb cfg (concat chunks).
Proof. exact chunking_independent_callback. Qed.
Print Assumptions C18_chunking_independent_callback.

(* the same when the end is signalled by push_chunk("") or push_chunk(None), for texts that start
   with the configured prefix (or when no prefix is configured) *)
Theorem C18_chunking_independent_push_end :
  forall (A : Type) (eqb : A -> A -> bool), (forall a b, eqb a b = true <-> a = b) ->
  forall (cfg : config A) (chunks : list (list A)) (e : end_mode),
    Forall (fun x => x <> []) chunks -> is_push_end e = true ->
    prefix_seen eqb cfg (concat chunks) = true ->
    concat (delivered (s_queue (run eqb cfg chunks e))) = spec eqb cfg (concat chunks) /\
    s_completion (run eqb cfg chunks e) = spec eqb cfg (concat chunks).
Proof. exact chunking_independent_push_end. Qed.
Print Assumptions C18_chunking_independent_push_end.

(* ... and while the configured prefix has not been seen those two end markers are ignored,
   whatever the chunking: nothing is delivered, the stream stays open, the text stays buffered *)
Theorem C18_prefix_pending_end_ignored :
  forall (A : Type) (eqb : A -> A -> bool), (forall a b, eqb a b = true <-> a = b) ->
  forall (cfg : config A) (chunks : list (list A)) (e : end_mode),
    Forall (fun x => x <> []) chunks -> is_push_end e = true ->
    prefix_seen eqb cfg (concat chunks) = false ->
    delivered (s_queue (run eqb cfg chunks e)) = [] /\ s_completion (run eqb cfg chunks e) = [] /\
    s_finished (run eqb cfg chunks e) = false /\ s_cur (run eqb cfg chunks e) = concat chunks.
Proof. exact prefix_pending_end_ignored. Qed.
Print Assumptions C18_prefix_pending_end_ignored.

(* in the words of the property: two chunkings of one text cannot be told apart at the output,
   for every way of signalling the end *)
Theorem C18_same_for_all_chunkings :
  forall (A : Type) (eqb : A -> A -> bool), (forall a b, eqb a b = true <-> a = b) ->
  forall (cfg : config A) (chunks1 chunks2 : list (list A)) (e : end_mode),
    Forall (fun x => x <> []) chunks1 -> Forall (fun x => x <> []) chunks2 ->
    concat chunks1 = concat chunks2 ->
    concat (delivered (s_queue (run eqb cfg chunks1 e))) = concat (delivered (s_queue (run eqb cfg chunks2 e))) /\
    s_completion (run eqb cfg chunks1 e) = s_completion (run eqb cfg chunks2 e).
Proof. exact same_for_all_chunkings. Qed.
Print Assumptions C18_same_for_all_chunkings.

(* stronger than the property: at every moment of the stream, what has been delivered so far is a
   beginning of the final answer, however the LLM text continues - nothing is ever retracted *)
Theorem C18_delivered_never_retracted :
  forall (A : Type) (eqb : A -> A -> bool), (forall a b, eqb a b = true <-> a = b) ->
  forall (cfg : config A) (chunks : list (list A)) (more : list A),
    Forall (fun x => x <> []) chunks ->
    exists rest,
      spec eqb cfg (concat chunks ++ more) = concat (delivered (s_queue (feed eqb (init cfg) chunks))) ++ rest.
Proof. exact delivered_never_retracted. Qed.
Print Assumptions C18_delivered_never_retracted.

(* the specification means what the property says: the cut keeps the text up to the leftmost
   position where a stop sequence occurs ... *)
Theorem C18_spec_cut_at_first_stop :
  forall (A : Type) (eqb : A -> A -> bool), (forall a b, eqb a b = true <-> a = b) ->
  forall (stops : list (list A)) (t : list A),
    (exists rest, t = cut_stop eqb stops t ++ rest) /\
    (forall s j, In s stops -> occ s t j -> length (cut_stop eqb stops t) <= j) /\
    (cut_stop eqb stops t = t \/ exists s, In s stops /\ occ s t (length (cut_stop eqb stops t))).
Proof. exact cut_stop_char. Qed.
Print Assumptions C18_spec_cut_at_first_stop.

(* ... the prefix is removed exactly when the text starts with it ... *)
Theorem C18_spec_prefix :
  forall (A : Type) (eqb : A -> A -> bool), (forall a b, eqb a b = true <-> a = b) ->
  forall (p : option (list A)) (t : list A),
    (truthy p = true /\ t = oget p ++ strip_prefix eqb p t) \/
    (strip_prefix eqb p t = t /\ (truthy p = true -> forall r, t <> oget p ++ r)).
Proof. exact strip_prefix_char. Qed.
Print Assumptions C18_spec_prefix.

(* ... and the suffix exactly when the (cut) text ends with it *)
Theorem C18_spec_suffix :
  forall (A : Type) (eqb : A -> A -> bool), (forall a b, eqb a b = true <-> a = b) ->
  forall (suf : option (list A)) (t : list A),
    (truthy suf = true /\ t = strip_suffix eqb suf t ++ oget suf) \/
    (strip_suffix eqb suf t = t /\ (truthy suf = true -> forall r, t <> r ++ oget suf)).
Proof. exact strip_suffix_char. Qed.
Print Assumptions C18_spec_suffix.

(* (T) the patterns generation.py configures today (Gen/C18Consts.v, re-read from the source on every
   run): a bot message  prefix ++ body ++ closing quote  whose body contains no quote is delivered
   as exactly  body, whatever the chunking and with or without the handler stop sequence *)
Theorem C18_generation_patterns :
  forall (cfg : config N) (body : list N) (chunks : list (list N)),
    In cfg gen_configs -> ~ In 34%N body ->
    Forall (fun x => x <> []) chunks ->
    concat chunks = oget (c_prefix cfg) ++ body ++ [34%N] ->
    concat (delivered (s_queue (run N.eqb cfg chunks EndLLM))) = body /\
    s_completion (run N.eqb cfg chunks EndLLM) = body.
Proof. exact generation_patterns. Qed.
Print Assumptions C18_generation_patterns.

(* regression documentation: the handler of the pinned snapshot (pre-fix transcription, validated
   against the unpatched code by the same correspondence) violates the property *)
Theorem C18_prefix_suffix_refuted :
  exists (cfg : config N) (chunks : list (list N)),
    Forall (fun x => x <> []) chunks /\
    concat (delivered (s_queue (run_old N.eqb cfg chunks EndLLM))) <> spec N.eqb cfg (concat chunks).
Proof. exact old_prefix_suffix_refuted. Qed.
Print Assumptions C18_prefix_suffix_refuted.

Theorem C18_stop_completion_refuted :
  exists (cfg : config N) (chunks : list (list N)),
    Forall (fun x => x <> []) chunks /\
    s_completion (run_old N.eqb cfg chunks EndLLM) <> spec N.eqb cfg (concat chunks) /\
    s_completion (run_old N.eqb cfg chunks EndLLM) = [97; 97]%N /\ spec N.eqb cfg (concat chunks) = [97%N].
Proof. exact old_stop_completion_refuted. Qed.
Print Assumptions C18_stop_completion_refuted.

Theorem C18_stop_after_suffix_refuted :
  exists (cfg : config N) (chunks : list (list N)),
    Forall (fun x => x <> []) chunks /\
    concat (delivered (s_queue (run_old N.eqb cfg chunks EndLLM))) <> spec N.eqb cfg (concat chunks).
Proof. exact old_stop_after_suffix_refuted. Qed.
Print Assumptions C18_stop_after_suffix_refuted.

Theorem C18_chunking_dependent_refuted :
  exists (cfg : config N) (chunks1 chunks2 : list (list N)),
    Forall (fun x => x <> []) chunks1 /\ Forall (fun x => x <> []) chunks2 /\
    concat chunks1 = concat chunks2 /\
    concat (delivered (s_queue (run_old N.eqb cfg chunks1 EndLLM))) <>
    concat (delivered (s_queue (run_old N.eqb cfg chunks2 EndLLM))).
Proof. exact old_chunking_dependent. Qed.
Print Assumptions C18_chunking_dependent_refuted.
