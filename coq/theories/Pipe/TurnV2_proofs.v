(* Pipe.TurnV2_proofs - the gates of the Colang 2.x guardrails model. *)
From Coq Require Import List String Bool Arith Lia.
From NG Require Import Pipe.Rails Pipe.Rails_proofs Pipe.TurnV1_proofs Pipe.TurnV2.
Import ListNotations.
Open Scope list_scope.

Section V2.
  Variable fixd : bool.
  Variable vf : nat -> nat -> rail -> text -> verdict.
  Variable llm : nat -> nat -> prompt -> text.
  Variable value_of : text -> text.
  Variable refusal_in refusal_out : text.

  Notation bot_say := (bot_say fixd vf refusal_out).
  Notation after_input2 := (after_input2 fixd vf llm value_of refusal_in refusal_out).
  Notation turn_v2 := (turn_v2 fixd vf llm value_of refusal_in refusal_out).
  Notation conv_v2 := (conv_v2 fixd vf llm value_of refusal_in refusal_out).

  Definition block_tail2 (cf : cfg2) (r : rail) : list tev :=
    if exceptions2 cf then [TExc SOut r] else [TBot Predefined refusal_out; TEmit refusal_out].
  Definition block_reply2 (cf : cfg2) (r : rail) : reply :=
    if exceptions2 cf then RExc SOut r else RMsg [refusal_out].

  (* with the flag set, `_bot_say` utters WITHOUT consulting the output rails *)
  Lemma bot_say_in_progress :
    forall cf st c pv m, orip st = true ->
      exists st', bot_say cf st c pv m = (st', [TBot pv m; TEmit m], c, RMsg [m]) /\ orip st' = true /\
                  tidx2 st' = tidx2 st.
  Proof.
    intros cf st c pv m Ho. unfold TurnV2.bot_say. simpl. rewrite Ho. eexists. split; [reflexivity|]. split; [exact Ho|reflexivity].
  Qed.

  (* with the flag clear, the message passes all output rails in order before it is uttered *)
  Lemma bot_say_checked :
    forall cf st c pv m st' tr c' rp,
      orip st = false -> bot_say cf st c pv m = (st', tr, c', rp) ->
      tidx2 st' = tidx2 st /\
      exists trO res,
        run_rails (no_rewrite (vf (tidx2 st))) SOut (orails2 cf) c m = (trO, c', res) /\
        match res with
        | Passed _ => tr = TBot pv m :: trO ++ [TEmit m] /\ rp = RMsg [m] /\ orip st' = false
        | Blocked r _ => tr = TBot pv m :: trO ++ block_tail2 cf r /\ rp = block_reply2 cf r /\
                         orip st' = negb fixd
        end.
  Proof.
    intros cf st c pv m st' tr c' rp Ho H. unfold TurnV2.bot_say in H. simpl in H. rewrite Ho in H.
    destruct (orails2 cf) as [|r0 rs] eqn:Hrs.
    - inversion H; subst; clear H. split; [reflexivity|]. exists [], (Passed m). simpl. auto.
    - destruct (run_rails (no_rewrite (vf (tidx2 st))) SOut (r0 :: rs) c m) as [[trO cO] res] eqn:Hr.
      destruct res as [m'|r x].
      + inversion H; subst; clear H. split; [reflexivity|]. exists trO, (Passed m'). simpl. auto.
      + unfold block_tail2, block_reply2. destruct (exceptions2 cf).
        * inversion H; subst; clear H. split; [reflexivity|]. exists trO, (Blocked r x). simpl. auto.
        * inversion H; subst; clear H. split; [reflexivity|]. exists trO, (Blocked r x). simpl. auto.
  Qed.

  Lemma turn_v2_unfold :
    forall cf st u,
      turn_v2 cf st u =
      let '(trI, c, res) := run_rails (no_rewrite (vf (tidx2 st))) SIn (irails2 cf) 0 u in
      let '(st', tr, rp) := after_input2 cf (set_um2 st u) c u res in
      (st', trI ++ tr, rp).
  Proof. reflexivity. Qed.

  Lemma bot_say_no_in_rail :
    forall cf st c pv m st' tr c' rp,
      bot_say cf st c pv m = (st', tr, c', rp) -> Forall (fun e => is_in_rail e = false) tr.
  Proof.
    intros cf st c pv m st' tr c' rp H. destruct (orip st) eqn:Ho.
    - destruct (bot_say_in_progress cf st c pv m Ho) as (st1 & H1 & _). rewrite H1 in H.
      inversion H; subst. repeat constructor.
    - apply bot_say_checked in H; [|exact Ho]. destruct H as (_ & trO & res & Hr & Hres).
      apply run_rails_shape in Hr. destruct Hr as (calls & -> & _).
      destruct res as [m'|r x]; destruct Hres as (-> & _).
      + constructor; [reflexivity|]. apply Forall_app. split; [apply forall_map_mk_out_not_in|repeat constructor].
      + constructor; [reflexivity|]. apply Forall_app. split; [apply forall_map_mk_out_not_in|].
        unfold block_tail2. destruct (exceptions2 cf); repeat constructor.
  Qed.

  Lemma after_input2_no_in_rail :
    forall cf st1 c u res st' tr rp,
      after_input2 cf st1 c u res = (st', tr, rp) -> Forall (fun e => is_in_rail e = false) tr.
  Proof.
    intros cf st1 c u res st' tr rp H. unfold TurnV2.after_input2 in H. destruct res as [t|r x].
    - match type of H with context[TurnV2.bot_say _ _ _ ?a ?b ?c ?d ?e] =>
        destruct (TurnV2.bot_say fixd vf refusal_out a b c d e) as [[[st3 tr3] c3] rp3] eqn:Hb end.
      inversion H; subst; clear H. constructor; [reflexivity|]. constructor; [reflexivity|].
      eapply bot_say_no_in_rail; eauto.
    - destruct (exceptions2 cf).
      + inversion H; subst. repeat constructor.
      + match type of H with context[TurnV2.bot_say _ _ _ ?a ?b ?c ?d ?e] =>
          destruct (TurnV2.bot_say fixd vf refusal_out a b c d e) as [[[st3 tr3] c3] rp3] eqn:Hb end.
        inversion H; subst; clear H. eapply bot_say_no_in_rail; eauto.
  Qed.

  (* a rejected input never reaches the LLM *)
  Lemma bot_say_no_llm :
    forall cf st c pv m st' tr c' rp,
      bot_say cf st c pv m = (st', tr, c', rp) -> llm_calls tr = [].
  Proof.
    intros cf st c pv m st' tr c' rp H. destruct (orip st) eqn:Ho.
    - destruct (bot_say_in_progress cf st c pv m Ho) as (st1 & H1 & _). rewrite H1 in H.
      inversion H; subst. reflexivity.
    - apply bot_say_checked in H; [|exact Ho]. destruct H as (_ & trO & res & Hr & Hres).
      apply run_rails_shape in Hr. destruct Hr as (calls & -> & _).
      destruct res as [m'|r x]; destruct Hres as (-> & _); simpl;
        rewrite llm_calls_app, llm_calls_map_mk; [reflexivity|].
      unfold block_tail2. destruct (exceptions2 cf); reflexivity.
  Qed.

  Lemma turn_v2_tidx : forall cf st u, tidx2 (fst (fst (turn_v2 cf st u))) = S (tidx2 st).
  Proof.
    intros cf st u. rewrite turn_v2_unfold.
    destruct (run_rails (no_rewrite (vf (tidx2 st))) SIn (irails2 cf) 0 u) as [[trI c] res].
    unfold TurnV2.after_input2. destruct res as [t|r x].
    - match goal with |- context[TurnV2.bot_say _ _ _ ?a ?b ?c ?d ?e] =>
        destruct (TurnV2.bot_say fixd vf refusal_out a b c d e) as [[[st3 tr3] c3] rp3] eqn:Hb end.
      simpl. f_equal.
      destruct (orip (push_hist2 (set_um2 st u) (HUser u))) eqn:Ho.
      + destruct (bot_say_in_progress cf _ c FromLLM (value_of (llm (tidx2 (set_um2 st u)) 0
              (mkPrompt KValue (hist2 (push_hist2 (set_um2 st u) (HUser u))) u))) Ho) as (st1 & H1 & _ & Ht).
        rewrite H1 in Hb. inversion Hb; subst. exact Ht.
      + apply bot_say_checked in Hb; [|exact Ho]. destruct Hb as (Ht & _). exact Ht.
    - destruct (exceptions2 cf); [reflexivity|].
      match goal with |- context[TurnV2.bot_say _ _ _ ?a ?b ?c ?d ?e] =>
        destruct (TurnV2.bot_say fixd vf refusal_out a b c d e) as [[[st3 tr3] c3] rp3] eqn:Hb end.
      simpl. f_equal.
      destruct (orip (set_um2 st u)) eqn:Ho.
      + destruct (bot_say_in_progress cf _ c Predefined refusal_in Ho) as (st1 & H1 & _ & Ht).
        rewrite H1 in Hb. inversion Hb; subst. exact Ht.
      + apply bot_say_checked in Hb; [|exact Ho]. destruct Hb as (Ht & _). exact Ht.
  Qed.
End V2.

(* ---- the flag invariant holds for the REPAIRED file ---- *)
Section V2fixed.
  Variable vf : nat -> nat -> rail -> text -> verdict.
  Variable llm : nat -> nat -> prompt -> text.
  Variable value_of : text -> text.
  Variable refusal_in refusal_out : text.

  Notation bot_say := (bot_say true vf refusal_out).
  Notation turn_v2 := (turn_v2 true vf llm value_of refusal_in refusal_out).
  Notation conv_v2 := (conv_v2 true vf llm value_of refusal_in refusal_out).

  Lemma bot_say_fixed_flag :
    forall cf st c pv m, orip st = false -> orip (fst (fst (fst (bot_say cf st c pv m)))) = false.
  Proof.
    intros cf st c pv m Ho.
    destruct (bot_say cf st c pv m) as [[[st' tr] c'] rp] eqn:Hb.
    apply bot_say_checked in Hb; [|exact Ho]. destruct Hb as (_ & trO & res & _ & Hres).
    destruct res; simpl; tauto.
  Qed.

  Lemma turn_v2_fixed_flag :
    forall cf st u, orip st = false -> orip (fst (fst (turn_v2 cf st u))) = false.
  Proof.
    intros cf st u Ho. rewrite turn_v2_unfold.
    destruct (run_rails (no_rewrite (vf (tidx2 st))) SIn (irails2 cf) 0 u) as [[trI c] res].
    unfold TurnV2.after_input2. destruct res as [t|r x].
    - match goal with |- context[TurnV2.bot_say _ _ _ ?a ?b ?c ?d ?e] =>
        pose proof (bot_say_fixed_flag a b c d e) as Hf;
        destruct (TurnV2.bot_say true vf refusal_out a b c d e) as [[[st3 tr3] c3] rp3] end.
      simpl in *. apply Hf. exact Ho.
    - destruct (exceptions2 cf); [simpl; exact Ho|].
      match goal with |- context[TurnV2.bot_say _ _ _ ?a ?b ?c ?d ?e] =>
        pose proof (bot_say_fixed_flag a b c d e) as Hf;
        destruct (TurnV2.bot_say true vf refusal_out a b c d e) as [[[st3 tr3] c3] rp3] end.
      simpl in *. apply Hf. exact Ho.
  Qed.

  Lemma conv_v2_fixed_flag :
    forall cf us st, orip st = false -> Forall (fun r => orip (fst (fst r)) = false) (conv_v2 cf st us).
  Proof.
    intros cf us. induction us as [|u us IH]; intros st Ho; simpl; constructor.
    - apply turn_v2_fixed_flag. exact Ho.
    - apply IH. apply turn_v2_fixed_flag. exact Ho.
  Qed.

  Inductive reachable2 (cf : cfg2) : pstate2 -> Prop :=
  | reach2_init : reachable2 cf init_state2
  | reach2_turn : forall st u, reachable2 cf st -> reachable2 cf (fst (fst (turn_v2 cf st u))).

  Lemma reachable2_flag : forall cf st, reachable2 cf st -> orip st = false.
  Proof. intros cf st H. induction H; [reflexivity|apply turn_v2_fixed_flag; assumption]. Qed.
End V2fixed.

(* ---- the SHIPPED file (fixd = false) does not keep the invariant: after one blocked bot message
   the flag stays set and the next LLM-generated message is uttered without any output-rail call
   (DESIGN section 5, F3; the same conversation is replayed on the implementation by harness/c02.py) *)
Definition f3_vf (t c : nat) (r : rail) (x : text) : verdict := if Nat.eqb t 1 then Reject else Accept.

Lemma v2_flag_refuted_witness :
  map (fun r => (orip (fst (fst r)), n_rail_calls (snd (fst r)), snd r))
      (conv_v2 false f3_vf (fun _ _ _ => "m"%string) (fun o => o) "ri"%string "ro"%string
               (mkCfg2 [] [7] false) init_state2 ["a"%string; "b"%string; "c"%string])
  = [(false, 1, RMsg ["m"%string]); (true, 1, RMsg ["ro"%string]); (true, 0, RMsg ["m"%string])].
Proof. vm_compute. reflexivity. Qed.

(* same conversation on the repaired model *)
Lemma v2_flag_repaired_witness :
  map (fun r => (orip (fst (fst r)), n_rail_calls (snd (fst r)), snd r))
      (conv_v2 true f3_vf (fun _ _ _ => "m"%string) (fun o => o) "ri"%string "ro"%string
               (mkCfg2 [] [7] false) init_state2 ["a"%string; "b"%string; "c"%string])
  = [(false, 1, RMsg ["m"%string]); (false, 1, RMsg ["ro"%string]); (false, 1, RMsg ["m"%string])].
Proof. vm_compute. reflexivity. Qed.

Lemma v2_flag_refuted :
  exists vf llm value_of refusal_in refusal_out cf us,
    map (fun r => (orip (fst (fst r)), n_rail_calls (snd (fst r)), snd r))
        (conv_v2 false vf llm value_of refusal_in refusal_out cf init_state2 us)
    = [(false, 1, RMsg ["m"%string]); (true, 1, RMsg [refusal_out]); (true, 0, RMsg ["m"%string])] /\
    orails2 cf <> [].
Proof.
  exists f3_vf, (fun _ _ _ => "m"%string), (fun o => o), "ri"%string, "ro"%string, (mkCfg2 [] [7] false),
         ["a"%string; "b"%string; "c"%string].
  split; [exact v2_flag_refuted_witness|discriminate].
Qed.
