(* Pipe.Rails_proofs - facts about the rails loop, for rail lists of any List.length and arbitrary
   verdict functions. *)
From Coq Require Import List String Bool Arith Lia.
From NG Require Import Pipe.Rails.
Import ListNotations.
Open Scope list_scope.

Definition mk (s : side) (c : rail * text) : tev := TRail s (fst c) (snd c).

Lemma is_rail_mk : forall s c, is_rail s (mk s c) = true.
Proof. intros [] [r x]; reflexivity. Qed.

Lemma rail_calls_app : forall s a b, rail_calls s (a ++ b) = rail_calls s a ++ rail_calls s b.
Proof. intros s a b. unfold rail_calls. apply flat_map_app. Qed.

Lemma rail_calls_map_mk : forall s calls, rail_calls s (map (mk s) calls) = calls.
Proof.
  intros s calls. induction calls as [|[r x] rest IH]; [reflexivity|].
  simpl. destruct s; simpl; f_equal; exact IH.
Qed.

Lemma rail_calls_other_side : forall s s' calls, s <> s' -> rail_calls s (map (mk s') calls) = [].
Proof.
  intros s s' calls Hne. induction calls as [|[r x] rest IH]; [reflexivity|].
  simpl. destruct s, s'; try congruence; simpl; exact IH.
Qed.

Lemma llm_calls_app : forall a b, llm_calls (a ++ b) = llm_calls a ++ llm_calls b.
Proof. intros. unfold llm_calls. apply flat_map_app. Qed.

Lemma llm_calls_map_mk : forall s calls, llm_calls (map (mk s) calls) = [].
Proof. intros s calls. induction calls as [|c rest IH]; [reflexivity|exact IH]. Qed.

Lemma emitted_app : forall a b, emitted (a ++ b) = emitted a ++ emitted b.
Proof. intros. unfold emitted. apply flat_map_app. Qed.

Lemma emitted_map_mk : forall s calls, emitted (map (mk s) calls) = [].
Proof. intros s calls. induction calls as [|c rest IH]; [reflexivity|exact IH]. Qed.

Lemma n_rail_calls_app : forall a b, n_rail_calls (a ++ b) = n_rail_calls a + n_rail_calls b.
Proof. intros. unfold n_rail_calls. rewrite filter_app, app_length. reflexivity. Qed.

Lemma n_rail_calls_map_mk : forall s calls, n_rail_calls (map (mk s) calls) = List.length calls.
Proof.
  intros s calls. induction calls as [|c rest IH]; [reflexivity|].
  unfold n_rail_calls in *. simpl. rewrite IH. reflexivity.
Qed.

(* the result of run_rails, described declaratively *)
Definition rres_ok (v : nat -> rail -> text -> verdict) (c : nat) (t : text) (rs : list rail)
           (calls : list (rail * text)) (res : rres) : Prop :=
  match res with
  | Passed t' => t' = final_text v c t rs /\ map fst calls = rs /\
                 (forall j r x, nth_error calls j = Some (r, x) -> v (c + j) r x <> Reject)
  | Blocked r x => exists pre, calls = pre ++ [(r, x)] /\ v (c + List.length pre) r x = Reject /\
                              (forall j r' x', nth_error pre j = Some (r', x') -> v (c + j) r' x' <> Reject)
  end.

Lemma run_rails_cons :
  forall v s r rs c t,
    run_rails v s (r :: rs) c t =
    if is_reject (v c r t) then ([TRail s r t], S c, Blocked r t)
    else let '(tr, c', res) := run_rails v s rs (S c) (apply_verdict (v c r t) t) in
         (TRail s r t :: tr, c', res).
Proof. intros. simpl. destruct (v c r t); reflexivity. Qed.

Lemma is_reject_true : forall w, is_reject w = true <-> w = Reject.
Proof. intros []; simpl; split; congruence. Qed.

Lemma is_reject_false : forall w, is_reject w = false <-> w <> Reject.
Proof. intros []; simpl; split; congruence. Qed.

Lemma run_rails_shape :
  forall v s rs c t tr c' res,
    run_rails v s rs c t = (tr, c', res) ->
    exists calls, tr = map (mk s) calls /\ chain v c t rs calls /\ c' = c + List.length calls /\
                  rres_ok v c t rs calls res.
Proof.
  intros v s rs. induction rs as [|r rs IH]; intros c t tr c' res H.
  - simpl in H. inversion H; subst. exists []. simpl. repeat split; try lia.
    intros j r x Hn. destruct j; discriminate.
  - rewrite run_rails_cons in H. destruct (is_reject (v c r t)) eqn:Hv.
    + inversion H; subst; clear H. exists [(r, t)]. simpl. rewrite Hv.
      repeat split; try lia. exists []. simpl. rewrite Nat.add_0_r. repeat split; auto.
      * apply is_reject_true; exact Hv.
      * intros j r' x' Hj. destruct j; discriminate.
    + destruct (run_rails v s rs (S c) (apply_verdict (v c r t) t)) as [[tr1 c1] res1] eqn:Hr.
      inversion H; subst; clear H.
      destruct (IH _ _ _ _ _ Hr) as (calls & Htr & Hch & Hc & Hres).
      assert (Hnr : v c r t <> Reject) by (apply is_reject_false; exact Hv).
      exists ((r, t) :: calls). simpl. rewrite Hv.
      split; [unfold mk at 1; simpl; f_equal; exact Htr|].
      split; [auto|]. split; [lia|].
      destruct res as [t'|r' x']; simpl in *.
      * destruct Hres as (Hf & Hm & Hn). repeat split; auto.
        { f_equal; exact Hm. }
        intros j r0 x0 Hj. destruct j as [|j]; simpl in Hj.
        { inversion Hj; subst. rewrite Nat.add_0_r. exact Hnr. }
        { replace (c + S j) with (S c + j) by lia. eapply Hn; eauto. }
      * destruct Hres as (pre & Hcalls & Hrej & Hn). exists ((r, t) :: pre). simpl.
        split; [f_equal; exact Hcalls|]. split.
        { replace (c + S (List.length pre)) with (S c + List.length pre) by lia. exact Hrej. }
        intros j r0 x0 Hj. destruct j as [|j]; simpl in Hj.
        { inversion Hj; subst. rewrite Nat.add_0_r. exact Hnr. }
        { replace (c + S j) with (S c + j) by lia. eapply Hn; eauto. }
Qed.

(* chain: the calls are a prefix of the configured list, in order *)
Lemma chain_prefix :
  forall v rs c t calls, chain v c t rs calls -> map fst calls = firstn (List.length calls) rs.
Proof.
  intros v rs. induction rs as [|r0 rs IH]; intros c t calls H.
  - destruct calls as [|[r x] rest]; simpl in *; [reflexivity|contradiction].
  - destruct calls as [|[r x] rest]; simpl in *; [reflexivity|].
    destruct H as (Hr & Hx & Hrest). subst. f_equal.
    destruct (is_reject (v c r0 t)).
    + subst. reflexivity.
    + eapply IH; eauto.
Qed.

Lemma chain_length : forall v rs c t calls, chain v c t rs calls -> List.length calls <= List.length rs.
Proof.
  intros v rs. induction rs as [|r0 rs IH]; intros c t calls H.
  - destruct calls as [|[r x] rest]; simpl in *; [lia|contradiction].
  - destruct calls as [|[r x] rest]; simpl in *; [lia|].
    destruct H as (-> & _ & Hrest). destruct (is_reject (v c r0 t)).
    + subst. simpl. lia.
    + apply IH in Hrest. lia.
Qed.

(* chain: first call sees the input; call j+1 sees the rewrite of call j; nobody before the last rejected *)
Lemma chain_first : forall v rs c t r x rest, chain v c t rs ((r, x) :: rest) -> x = t.
Proof. intros v rs c t r x rest H. destruct rs; simpl in H; [contradiction|]. tauto. Qed.

Lemma chain_step :
  forall v rs c t calls j r x r' x',
    chain v c t rs calls ->
    nth_error calls j = Some (r, x) -> nth_error calls (S j) = Some (r', x') ->
    v (c + j) r x <> Reject /\ x' = apply_verdict (v (c + j) r x) x.
Proof.
  intros v rs. induction rs as [|r0 rs IH]; intros c t calls j r x r' x' H Hj Hj'.
  - destruct calls as [|[a b] rest]; simpl in H; [destruct j; discriminate|contradiction].
  - destruct calls as [|[a b] rest]; [destruct j; discriminate|]. simpl in H.
    destruct H as (Ha & Hb & Hrest). subst a b.
    destruct j as [|j]; simpl in Hj, Hj'.
    + inversion Hj; subst r x. rewrite Nat.add_0_r.
      destruct (is_reject (v c r0 t)) eqn:Hrej.
      * subst rest. discriminate.
      * split; [destruct (v c r0 t); simpl in Hrej; congruence|].
        destruct rest as [|[a b] rest']; [discriminate|]. inversion Hj'; subst a b.
        eapply chain_first; eauto.
    + destruct (is_reject (v c r0 t)) eqn:Hrej.
      * subst rest. destruct j; discriminate.
      * replace (c + S j) with (S c + j) by lia. eapply IH; eauto.
Qed.

(* chain: a rejection is the last call *)
Lemma chain_reject_last :
  forall v rs c t calls j r x,
    chain v c t rs calls -> nth_error calls j = Some (r, x) -> v (c + j) r x = Reject ->
    List.length calls = S j.
Proof.
  intros v rs. induction rs as [|r0 rs IH]; intros c t calls j r x H Hj Hrej.
  - destruct calls as [|[a b] rest]; simpl in H; [destruct j; discriminate|contradiction].
  - destruct calls as [|[a b] rest]; [destruct j; discriminate|]. simpl in H.
    destruct H as (Ha & Hb & Hrest). subst a b.
    destruct j as [|j]; simpl in Hj.
    + inversion Hj; subst r x. rewrite Nat.add_0_r in Hrej. rewrite Hrej in Hrest. simpl in Hrest.
      subst. reflexivity.
    + destruct (is_reject (v c r0 t)) eqn:Hr0.
      * subst rest. destruct j; discriminate.
      * simpl. f_equal. replace (c + S j) with (S c + j) in Hrej by lia. eapply IH; eauto.
Qed.

(* chain: if nobody rejected, every configured rail was called *)
Lemma chain_complete :
  forall v rs c t calls,
    chain v c t rs calls ->
    (forall j r x, nth_error calls j = Some (r, x) -> v (c + j) r x <> Reject) ->
    map fst calls = rs.
Proof.
  intros v rs. induction rs as [|r0 rs IH]; intros c t calls H Hn.
  - destruct calls as [|[a b] rest]; simpl in H; [reflexivity|contradiction].
  - destruct calls as [|[a b] rest]; simpl in H; [discriminate|].
    destruct H as (Ha & Hb & Hrest). subst a b. simpl. f_equal.
    destruct (is_reject (v c r0 t)) eqn:Hr0.
    + exfalso. apply (Hn 0 r0 t eq_refl). rewrite Nat.add_0_r.
      destruct (v c r0 t); simpl in Hr0; congruence.
    + eapply IH; eauto. intros j r x Hj. replace (S c + j) with (c + S j) by lia. apply Hn. exact Hj.
Qed.

(* chain is functional: the calls are determined by v, c, t, rs *)
Lemma chain_functional :
  forall v rs c t calls1 calls2, chain v c t rs calls1 -> chain v c t rs calls2 -> calls1 = calls2.
Proof.
  intros v rs. induction rs as [|r0 rs IH]; intros c t c1 c2 H1 H2.
  - destruct c1 as [|[a b] ?], c2 as [|[a' b'] ?]; simpl in *; try contradiction; reflexivity.
  - destruct c1 as [|[a b] r1], c2 as [|[a' b'] r2]; simpl in *; try discriminate; try reflexivity.
    destruct H1 as (-> & -> & H1). destruct H2 as (-> & -> & H2). f_equal.
    destruct (is_reject (v c r0 t)); [congruence|]. eapply IH; eauto.
Qed.

(* two runs of the rails whose calls see pairwise equal verdict functions agree; used for
   "checking identical to a fresh conversation's" *)
Lemma run_rails_ext :
  forall v1 v2 s rs c t,
    (forall c' r x, v1 c' r x = v2 c' r x) -> run_rails v1 s rs c t = run_rails v2 s rs c t.
Proof.
  intros v1 v2 s rs. induction rs as [|r rs IH]; intros c t He; [reflexivity|].
  simpl. rewrite He. destruct (v2 c r t); try reflexivity; rewrite (IH _ _ He); reflexivity.
Qed.

Lemma run_rails_nil : forall v s c t, run_rails v s [] c t = ([], c, Passed t).
Proof. reflexivity. Qed.

(* no rewrite verdicts: the text is unchanged *)
Lemma final_text_no_rewrite :
  forall v rs c t, (forall c' r x t', v c' r x <> Rewrite t') -> final_text v c t rs = t.
Proof.
  intros v rs. induction rs as [|r rs IH]; intros c t Hn; [reflexivity|].
  simpl. destruct (v c r t) eqn:Hv; simpl; try apply IH; auto. exfalso. eapply Hn; eauto.
Qed.
