(* C19 - proofs about the cache_embeddings model (Svc/EmbCache.v).
   P is the set of "texts in play" (every text ever passed through this store); the one
   hypothesis about the key generator is injectivity on P. *)
From Coq Require Import List Bool Arith Lia.
From NG Require Import Svc.EmbCache.
Import ListNotations.

Section Proofs.
  Variables text key vec : Type.
  Variable text_eq_dec : forall a b : text, {a = b} + {a <> b}.
  Variable key_eq_dec : forall a b : key, {a = b} + {a <> b}.
  Variable kg : text -> key.
  Variable emb : text -> vec.
  Variable P : text -> Prop.

  Definition inj_on : Prop := forall a b, P a -> P b -> kg a = kg b -> a = b.

  (* what any sequence of earlier calls leaves behind: every binding under the key of a text
     in play is that text's embedding *)
  Definition consistent (s : store key vec) : Prop :=
    forall t v, P t -> store_get key_eq_dec s (kg t) = Some v -> v = emb t.

  Notation sget := (store_get key_eq_dec).
  Notation tget := (td_get text_eq_dec).
  Notation cgl := (cache_get_list key_eq_dec kg).
  Notation csl := (cache_set_list kg).

  Lemma consistent_nil : consistent [].
  Proof. intros t v _ H. discriminate H. Qed.

  Lemma td_get_app : forall (a b : tdict text vec) t,
    tget (a ++ b) t = match tget a t with Some v => Some v | None => tget b t end.
  Proof.
    induction a as [|[t' v] a IH]; intros b t; simpl.
    - reflexivity.
    - destruct (text_eq_dec t t'); [reflexivity | apply IH].
  Qed.

  Notation f s := (fun (d : tdict text vec) (t : text) =>
    match sget s (kg t) with Some v => td_set text vec d t v | None => d end).

  Lemma fold_get_notin : forall (s : store key vec) l d0 t, ~ In t l -> tget (fold_left (f s) l d0) t = tget d0 t.
  Proof.
    induction l as [|a l IH]; intros d0 t Hn; simpl.
    - reflexivity.
    - rewrite IH by (intro; apply Hn; right; assumption).
      destruct (sget s (kg a)); [|reflexivity].
      simpl. destruct (text_eq_dec t a) as [e|_]; [|reflexivity].
      exfalso. apply Hn. left. symmetry. exact e.
  Qed.

  Lemma fold_get_in : forall (s : store key vec) l d0 t, In t l ->
    tget (fold_left (f s) l d0) t = match sget s (kg t) with Some v => Some v | None => tget d0 t end.
  Proof.
    induction l as [|a l IH]; intros d0 t Hin; simpl.
    - destruct Hin.
    - destruct (in_dec text_eq_dec t l) as [Hl|Hl].
      + rewrite IH by assumption.
        destruct (sget s (kg t)) eqn:Hg; [reflexivity|].
        destruct (sget s (kg a)) eqn:Ha; [|reflexivity].
        simpl. destruct (text_eq_dec t a) as [e|_]; [|reflexivity].
        subst a. rewrite Hg in Ha. discriminate Ha.
      + destruct Hin as [e|Hin]; [subst a|contradiction].
        rewrite fold_get_notin by assumption.
        destruct (sget s (kg t)); [|reflexivity].
        simpl. destruct (text_eq_dec t t); [reflexivity|congruence].
  Qed.

  Lemma cgl_in : forall (s : store key vec) l t, In t l -> tget (cgl s l) t = sget s (kg t).
  Proof.
    intros s l t Hin. unfold cache_get_list.
    rewrite fold_get_in by assumption. destruct (sget s (kg t)); reflexivity.
  Qed.

  Lemma cgl_notin : forall (s : store key vec) l t, ~ In t l -> tget (cgl s l) t = None.
  Proof.
    intros s l t Hn. unfold cache_get_list.
    rewrite fold_get_notin by assumption. reflexivity.
  Qed.

  (* ---- EmbeddingsCache.set(texts, map emb texts) ------------------------------------ *)
  Lemma csl_cons : forall (s : store key vec) a u v vs, csl s (a :: u) (v :: vs) = csl (store_set s (kg a) v) u vs.
  Proof. reflexivity. Qed.

  Lemma csl_notin : inj_on -> forall u s t, Forall P u -> P t -> ~ In t u ->
    sget (csl s u (map emb u)) (kg t) = sget s (kg t).
  Proof.
    intros Hinj. induction u as [|a u IH]; intros s t HP Pt Hn.
    - reflexivity.
    - simpl map. rewrite csl_cons. inversion HP; subst.
      rewrite IH; [|assumption|assumption|intro; apply Hn; right; assumption].
      unfold store_set. simpl. destruct (key_eq_dec (kg t) (kg a)) as [e|_]; [|reflexivity].
      exfalso. apply Hn. left. symmetry. apply Hinj; assumption.
  Qed.

  Lemma csl_in : inj_on -> forall u s t, Forall P u -> In t u ->
    sget (csl s u (map emb u)) (kg t) = Some (emb t).
  Proof.
    intros Hinj. induction u as [|a u IH]; intros s t HP Hin.
    - destruct Hin.
    - simpl map. rewrite csl_cons. inversion HP; subst.
      destruct (in_dec text_eq_dec t u) as [Hl|Hl].
      + apply IH; assumption.
      + destruct Hin as [e|Hin]; [subst a|contradiction].
        rewrite csl_notin; try assumption.
        unfold store_set. simpl. destruct (key_eq_dec (kg t) (kg t)); [reflexivity|congruence].
  Qed.

  Lemma csl_consistent : inj_on -> forall u s, Forall P u -> consistent s ->
    consistent (csl s u (map emb u)).
  Proof.
    intros Hinj u s HP Hc t v Pt Hg.
    destruct (in_dec text_eq_dec t u) as [Hl|Hl].
    - rewrite csl_in in Hg by assumption. congruence.
    - rewrite csl_notin in Hg by assumption. apply Hc; assumption.
  Qed.

  (* ---- what the first half hands to the second -------------------------------------- *)
  Definition begin_ok (texts : list text) (c : tdict text vec) (u : list text) : Prop :=
    (forall t, In t u -> In t texts) /\
    (forall t, In t texts -> ~ In t u -> exists v, tget c t = Some v) /\
    (forall t v, P t -> tget c t = Some v -> v = emb t).

  Lemma wrap_begin_unc : forall (s : store key vec) texts t,
    In t (snd (wrap_begin text_eq_dec key_eq_dec kg s texts)) <->
    In t texts /\ sget s (kg t) = None.
  Proof.
    intros s texts t. unfold wrap_begin. simpl. rewrite filter_In. unfold td_mem.
    split; intros [Hin H]; split; try assumption.
    - rewrite cgl_in in H by assumption. destruct (sget s (kg t)); [discriminate H|reflexivity].
    - rewrite cgl_in by assumption. rewrite H. reflexivity.
  Qed.

  Lemma wrap_begin_ok : forall s texts, consistent s ->
    begin_ok texts (fst (wrap_begin text_eq_dec key_eq_dec kg s texts))
                   (snd (wrap_begin text_eq_dec key_eq_dec kg s texts)).
  Proof.
    intros s texts Hc. split; [|split].
    - intros t H. apply wrap_begin_unc in H. tauto.
    - intros t Hin Hn. unfold wrap_begin. simpl fst. rewrite cgl_in by assumption.
      destruct (sget s (kg t)) eqn:Hg; [eauto|].
      exfalso. apply Hn. apply wrap_begin_unc. tauto.
    - intros t v Pt Hg. unfold wrap_begin in Hg. simpl fst in Hg.
      destruct (in_dec text_eq_dec t texts) as [Hl|Hl].
      + rewrite cgl_in in Hg by assumption. apply Hc; assumption.
      + rewrite cgl_notin in Hg by assumption. discriminate Hg.
  Qed.

  (* the second half, run on ANY consistent store (the store may have been written by other
     tasks while the model call was awaited) *)
  Lemma wrap_end_ok : inj_on -> forall s2 texts c u, Forall P texts -> begin_ok texts c u ->
    consistent s2 ->
    fst (wrap_end text_eq_dec key_eq_dec kg s2 texts c u (map emb u)) = map (fun t => Some (emb t)) texts /\
    consistent (snd (wrap_end text_eq_dec key_eq_dec kg s2 texts c u (map emb u))).
  Proof.
    intros Hinj s2 texts c u HP [Hsub [Hhit Hval]] Hc2.
    assert (HPu : Forall P u).
    { rewrite Forall_forall in *. intros t Ht. apply HP. apply Hsub. exact Ht. }
    unfold wrap_end.
    set (s' := match u with [] => s2 | _ :: _ => csl s2 u (map emb u) end).
    assert (Hc' : consistent s').
    { subst s'. destruct u; [assumption|]. apply csl_consistent; assumption. }
    assert (Hu : forall t, In t u -> sget s' (kg t) = Some (emb t)).
    { subst s'. destruct u as [|a u']; [intros t []|]. intros t Ht. apply csl_in; assumption. }
    simpl. split; [|exact Hc'].
    apply map_ext_in. intros t Ht. unfold td_update. rewrite td_get_app.
    destruct (in_dec text_eq_dec t u) as [Hl|Hl].
    - rewrite cgl_in by assumption. rewrite Hu by assumption. reflexivity.
    - rewrite cgl_notin by assumption.
      destruct (Hhit t Ht Hl) as [v Hv]. rewrite Hv. f_equal.
      apply Hval; [|assumption]. rewrite Forall_forall in HP. apply HP. exact Ht.
  Qed.

  (* one complete call *)
  Lemma wrapper_ok : inj_on -> forall enabled s texts, Forall P texts -> consistent s ->
    w_results (wrapper text_eq_dec key_eq_dec kg enabled (map emb) s texts) = map (fun t => Some (emb t)) texts /\
    consistent (w_store (wrapper text_eq_dec key_eq_dec kg enabled (map emb) s texts)).
  Proof.
    intros Hinj enabled s texts HP Hc. unfold wrapper. destruct enabled.
    - pose proof (wrap_begin_ok s texts Hc) as Hb.
      destruct (wrap_begin text_eq_dec key_eq_dec kg s texts) as [c u]. simpl fst in Hb. simpl snd in Hb.
      pose proof (wrap_end_ok Hinj s texts c u HP Hb Hc) as [He1 He2].
      destruct (wrap_end text_eq_dec key_eq_dec kg s texts c u (map emb u)) as [res s'].
      unfold w_results, w_store. simpl in *. split; assumption.
    - unfold w_results, w_store. simpl. split; [apply map_map | assumption].
  Qed.

  Lemma store_after_consistent : inj_on -> forall history s, Forall (Forall P) history ->
    consistent s -> consistent (store_after text_eq_dec key_eq_dec kg (map emb) s history).
  Proof.
    intros Hinj. induction history as [|h history IH]; intros s HP Hc.
    - exact Hc.
    - inversion HP; subst. simpl. apply IH; [assumption|].
      apply (wrapper_ok Hinj true s h); assumption.
  Qed.

  (* C19_cache_correct *)
  Theorem cache_correct : inj_on -> forall enabled history texts,
    Forall (Forall P) history -> Forall P texts ->
    w_results (wrapper text_eq_dec key_eq_dec kg enabled (map emb)
                 (store_after text_eq_dec key_eq_dec kg (map emb) [] history) texts)
    = map (fun t => Some (emb t)) texts.
  Proof.
    intros Hinj enabled history texts HPh HP.
    apply wrapper_ok; try assumption.
    apply store_after_consistent; try assumption. apply consistent_nil.
  Qed.

  (* the model is asked only for texts of this call *)
  Theorem cache_calls_sub : forall enabled model (s : store key vec) texts c t,
    In c (w_calls (wrapper text_eq_dec key_eq_dec kg enabled model s texts)) -> In t c -> In t texts.
  Proof.
    intros enabled model s texts c t Hc Ht. unfold wrapper in Hc. destruct enabled.
    - pose proof (wrap_begin_unc s texts t) as Hu.
      destruct (wrap_begin text_eq_dec key_eq_dec kg s texts) as [cd u]. simpl snd in Hu.
      destruct (wrap_end text_eq_dec key_eq_dec kg s texts cd u (model u)) as [res s'].
      unfold w_calls in Hc. simpl in Hc. destruct u as [|a u]; [destruct Hc|].
      destruct Hc as [e|[]]. subst c. apply Hu. exact Ht.
    - unfold w_calls in Hc. simpl in Hc. destruct Hc as [e|[]]. subst c. exact Ht.
  Qed.

  (* C19_cache_collision_refuted, general form: two texts with one key and different
     embeddings are enough, on an empty store *)
  Theorem cache_collision : forall t1 t2, kg t1 = kg t2 -> emb t1 <> emb t2 ->
    w_results (wrapper text_eq_dec key_eq_dec kg true (map emb) [] [t1; t2])
    <> map (fun t => Some (emb t)) [t1; t2].
  Proof.
    intros t1 t2 Hk Hne. unfold wrapper, wrap_begin, wrap_end, w_results, cache_get_list, cache_set_list,
      td_mem, td_update, store_set, td_set. simpl.
    rewrite Hk.
    destruct (key_eq_dec (kg t2) (kg t2)) as [_|n]; [|congruence]. simpl.
    destruct (text_eq_dec t1 t2) as [e|n1]; simpl.
    - subst t2. congruence.
    - destruct (text_eq_dec t1 t1) as [_|n2]; [|congruence]. intro H. inversion H. congruence.
  Qed.

  (* where a binding of the store after a call comes from (no hypothesis on kg) *)
  Lemma csl_origin : forall u (s : store key vec) k v,
    sget (csl s u (map emb u)) k = Some v ->
    sget s k = Some v \/ exists t, In t u /\ k = kg t /\ v = emb t.
  Proof.
    induction u as [|a u IH]; intros s k v H.
    - left. exact H.
    - simpl map in H. rewrite csl_cons in H. apply IH in H. destruct H as [H|[t [Hin [Hk Hv]]]].
      + unfold store_set in H. simpl in H. destruct (key_eq_dec k (kg a)) as [e|_].
        * right. exists a. inversion H. split; [left; reflexivity|split; [exact e|reflexivity]].
        * left. exact H.
      + right. exists t. split; [right; exact Hin|split; assumption].
  Qed.

  Lemma wrapper_store_origin : forall (s : store key vec) texts k v,
    sget (w_store (wrapper text_eq_dec key_eq_dec kg true (map emb) s texts)) k = Some v ->
    sget s k = Some v \/ exists t, In t texts /\ k = kg t /\ v = emb t.
  Proof.
    intros s texts k v H. unfold wrapper in H.
    pose proof (wrap_begin_unc s texts) as Hu.
    destruct (wrap_begin text_eq_dec key_eq_dec kg s texts) as [c u]. simpl snd in Hu.
    unfold wrap_end, w_store in H. simpl in H.
    destruct u as [|a u]; [left; exact H|].
    apply csl_origin in H. destruct H as [H|[t [Hin [Hk Hv]]]]; [left; exact H|].
    right. exists t. split; [apply Hu; exact Hin|split; assumption].
  Qed.

  (* the two halves of one call run on DIFFERENT consistent stores: whatever other tasks
     wrote into the (shared) store while the model call was awaited *)
  Theorem wrapper_interleaved : inj_on -> forall s1 s2 texts, Forall P texts ->
    consistent s1 -> consistent s2 ->
    let b := wrap_begin text_eq_dec key_eq_dec kg s1 texts in
    let e := wrap_end text_eq_dec key_eq_dec kg s2 texts (fst b) (snd b) (map emb (snd b)) in
    fst e = map (fun t => Some (emb t)) texts /\ consistent (snd e).
  Proof.
    intros Hinj s1 s2 texts HP H1 H2. simpl.
    apply wrap_end_ok; try assumption. apply wrap_begin_ok. assumption.
  Qed.

End Proofs.

(* ---- several indexes: isolation ---------------------------------------------------------- *)
Section MultiProofs.
  Variables text key vec : Type.
  Variable text_eq_dec : forall a b : text, {a = b} + {a <> b}.
  Variable key_eq_dec : forall a b : key, {a = b} + {a <> b}.
  Variable P : text -> Prop.
  Variable indexes : list (index text key vec).

  (* the assumption: indexes whose configurations name the same store agree on key generator
     and embedding model (distinct models => distinct stores) *)
  Definition compatible : Prop :=
    forall a b, In a indexes -> In b indexes -> ix_sid a = ix_sid b ->
      forall t, ix_kg a t = ix_kg b t /\ ix_emb a t = ix_emb b t.

  Definition all_inj : Prop := forall a, In a indexes -> inj_on text key (ix_kg a) P.

  Definition stores_ok (S : stores key vec) : Prop :=
    forall a, In a indexes -> consistent text key vec key_eq_dec (ix_kg a) (ix_emb a) P (S (ix_sid a)).

  Lemma consistent_ext : forall kg kg' (emb emb' : text -> vec) s,
    (forall t, kg t = kg' t /\ emb t = emb' t) ->
    consistent text key vec key_eq_dec kg emb P s -> consistent text key vec key_eq_dec kg' emb' P s.
  Proof.
    intros kg kg' emb emb' s He Hc t v Pt Hg. destruct (He t) as [Hk Hemb].
    rewrite <- Hk in Hg. rewrite <- Hemb. apply Hc; assumption.
  Qed.

  Lemma mcall_ok : all_inj -> compatible -> forall S a texts,
    stores_ok S -> In a indexes -> Forall P texts ->
    fst (mcall text_eq_dec key_eq_dec S a texts) = map (fun t => Some (ix_emb a t)) texts /\
    stores_ok (snd (mcall text_eq_dec key_eq_dec S a texts)).
  Proof.
    intros Hinj Hcomp S a texts HS Ha HP. unfold mcall. simpl.
    destruct (wrapper_ok text key vec text_eq_dec key_eq_dec (ix_kg a) (ix_emb a) P (Hinj a Ha) true
                (S (ix_sid a)) texts HP (HS a Ha)) as [Hr Hc].
    split; [exact Hr|].
    intros b Hb. unfold sset. destruct (ix_sid b =? ix_sid a) eqn:E.
    - apply Nat.eqb_eq in E. eapply consistent_ext; [|exact Hc].
      intro t. apply Hcomp; auto.
    - apply HS. exact Hb.
  Qed.

  Lemma mrun_ok : all_inj -> compatible -> forall calls S,
    stores_ok S -> Forall (fun c => In (fst c) indexes /\ Forall P (snd c)) calls ->
    stores_ok (mrun text_eq_dec key_eq_dec S calls).
  Proof.
    intros Hinj Hcomp. induction calls as [|[a texts] calls IH]; intros S HS Hall; simpl.
    - exact HS.
    - inversion Hall as [|x l [Ha HP] Hrest]; subst. simpl in Ha, HP.
      apply IH; [|exact Hrest]. apply mcall_ok; assumption.
  Qed.

  (* C19_cache_isolation *)
  Theorem multi_correct : all_inj -> compatible -> forall history a texts,
    Forall (fun c => In (fst c) indexes /\ Forall P (snd c)) history -> In a indexes -> Forall P texts ->
    fst (mcall text_eq_dec key_eq_dec (mrun text_eq_dec key_eq_dec no_stores history) a texts)
    = map (fun t => Some (ix_emb a t)) texts.
  Proof.
    intros Hinj Hcomp history a texts Hh Ha HP.
    apply mcall_ok; try assumption. apply mrun_ok; try assumption.
    intros b _. apply consistent_nil.
  Qed.
End MultiProofs.

(* ---- isolation from the KEYS alone ---------------------------------------------------------
   No assumption on which configurations share a store: it is enough that, inside one store,
   equal keys imply equal vectors. *)
Section MultiSound.
  Variables text key vec : Type.
  Variable text_eq_dec : forall a b : text, {a = b} + {a <> b}.
  Variable key_eq_dec : forall a b : key, {a = b} + {a <> b}.
  Variable P : text -> Prop.
  Variable indexes : list (index text key vec).

  Definition key_sound : Prop :=
    forall a b, In a indexes -> In b indexes -> ix_sid a = ix_sid b ->
      forall t t', P t -> P t' -> ix_kg a t = ix_kg b t' -> ix_emb a t = ix_emb b t'.

  Lemma mcall_ok_sound : all_inj text key vec P indexes -> key_sound -> forall S a texts,
    stores_ok text key vec key_eq_dec P indexes S -> In a indexes -> Forall P texts ->
    fst (mcall text_eq_dec key_eq_dec S a texts) = map (fun t => Some (ix_emb a t)) texts /\
    stores_ok text key vec key_eq_dec P indexes (snd (mcall text_eq_dec key_eq_dec S a texts)).
  Proof.
    intros Hinj Hks S a texts HS Ha HP. unfold mcall. simpl.
    destruct (wrapper_ok text key vec text_eq_dec key_eq_dec (ix_kg a) (ix_emb a) P (Hinj a Ha) true
                (S (ix_sid a)) texts HP (HS a Ha)) as [Hr _].
    split; [exact Hr|].
    intros b Hb. unfold sset. destruct (ix_sid b =? ix_sid a) eqn:E; [|apply HS; exact Hb].
    apply Nat.eqb_eq in E. intros t v Pt Hg.
    apply wrapper_store_origin in Hg. destruct Hg as [Hg|[t' [Hin [Hk Hv]]]].
    - rewrite <- E in Hg. apply (HS b Hb t v Pt Hg).
    - subst v. symmetry. apply (Hks b a Hb Ha E t t' Pt); [|exact Hk].
      rewrite Forall_forall in HP. apply HP. exact Hin.
  Qed.

  Theorem multi_correct_sound : all_inj text key vec P indexes -> key_sound -> forall history a texts,
    Forall (fun c => In (fst c) indexes /\ Forall P (snd c)) history -> In a indexes -> Forall P texts ->
    fst (mcall text_eq_dec key_eq_dec (mrun text_eq_dec key_eq_dec no_stores history) a texts)
    = map (fun t => Some (ix_emb a t)) texts.
  Proof.
    intros Hinj Hks history a texts Hh Ha HP.
    assert (Hrun : forall calls S, stores_ok text key vec key_eq_dec P indexes S ->
              Forall (fun c => In (fst c) indexes /\ Forall P (snd c)) calls ->
              stores_ok text key vec key_eq_dec P indexes (mrun text_eq_dec key_eq_dec S calls)).
    { induction calls as [|[x tx] calls IH]; intros S HS Hall; simpl; [exact HS|].
      inversion Hall as [|y l [Hx HPx] Hrest]; subst. simpl in Hx, HPx.
      apply IH; [|exact Hrest]. apply mcall_ok_sound; assumption. }
    apply mcall_ok_sound; try assumption. apply Hrun; [|exact Hh].
    intros b _. apply consistent_nil.
  Qed.
End MultiSound.

(* ---- keys made of (model identity, text) ------------------------------------------------------
   The key generator is applied to the text together with the identity of the index's embedding
   model (`incl = true`: the current source) or to the text alone (`incl = false`: before the
   fix).  kx_gen is the generator on that composite. *)
Section Keyed.
  Variables mid text key vec : Type.
  Variable text_eq_dec : forall a b : text, {a = b} + {a <> b}.
  Variable key_eq_dec : forall a b : key, {a = b} + {a <> b}.
  Variable P : text -> Prop.

  Record kindex := mkKIndex {
    kx_mid : mid;                              (* (embedding_engine, embedding_model) *)
    kx_gen : option mid * text -> key;         (* key generator on what the cache hands it *)
    kx_emb : text -> vec;
    kx_sid : nat
  }.

  Definition kx_index (incl : bool) (k : kindex) : index text key vec :=
    mkIndex (fun t => kx_gen k (if incl then Some (kx_mid k) else None, t)) (kx_emb k) (kx_sid k).

  Variable ks : list kindex.

  (* the key generators in play are injective on (model identity, text), jointly inside a store *)
  Definition pair_inj : Prop :=
    forall a b, In a ks -> In b ks -> kx_sid a = kx_sid b ->
      forall t t', P t -> P t' -> kx_gen a (Some (kx_mid a), t) = kx_gen b (Some (kx_mid b), t') ->
      kx_mid a = kx_mid b /\ t = t'.

  (* the model identity determines the model *)
  Definition mid_model : Prop :=
    forall a b, In a ks -> In b ks -> kx_mid a = kx_mid b -> forall t, kx_emb a t = kx_emb b t.

  Theorem keyed_correct : pair_inj -> mid_model -> forall history a texts,
    Forall (fun c => In (fst c) ks /\ Forall P (snd c)) history -> In a ks -> Forall P texts ->
    fst (mcall text_eq_dec key_eq_dec
           (mrun text_eq_dec key_eq_dec no_stores (map (fun c => (kx_index true (fst c), snd c)) history))
           (kx_index true a) texts)
    = map (fun t => Some (kx_emb a t)) texts.
  Proof.
    intros Hpi Hmm history a texts Hh Ha HP.
    apply (multi_correct_sound text key vec text_eq_dec key_eq_dec P (map (kx_index true) ks)).
    - intros x Hx. apply in_map_iff in Hx. destruct Hx as [k [<- Hk]].
      intros t t' Pt Pt' E. simpl in E. destruct (Hpi k k Hk Hk eq_refl t t' Pt Pt' E). assumption.
    - intros x y Hx Hy Hs t t' Pt Pt' E.
      apply in_map_iff in Hx. destruct Hx as [k [<- Hk]].
      apply in_map_iff in Hy. destruct Hy as [k' [<- Hk']]. simpl in *.
      destruct (Hpi k k' Hk Hk' Hs t t' Pt Pt' E) as [Hm ->]. apply Hmm; assumption.
    - rewrite Forall_forall in *. intros [x tx] Hin. apply in_map_iff in Hin.
      destruct Hin as [[k tk] [E Hin]]. inversion E; subst. simpl.
      destruct (Hh _ Hin) as [H1 H2]. simpl in *. split; [apply in_map; exact H1|exact H2].
    - apply in_map. exact Ha.
    - exact HP.
  Qed.
End Keyed.

(* without the assumption: two indexes with one store, one key for the text and different
   models - the second gets the first model's vector *)
Theorem multi_shared_store_refuted : forall (text key vec : Type)
    (text_eq_dec : forall a b : text, {a = b} + {a <> b})
    (key_eq_dec : forall a b : key, {a = b} + {a <> b})
    (a b : index text key vec) (t : text),
  ix_sid a = ix_sid b -> ix_kg a t = ix_kg b t -> ix_emb a t <> ix_emb b t ->
  fst (mcall text_eq_dec key_eq_dec (mrun text_eq_dec key_eq_dec no_stores [(a, [t])]) b [t])
  = [Some (ix_emb a t)] /\
  fst (mcall text_eq_dec key_eq_dec (mrun text_eq_dec key_eq_dec no_stores [(a, [t])]) b [t])
  <> map (fun t => Some (ix_emb b t)) [t].
Proof.
  intros text key vec ted ked a b t Hs Hk Hne.
  assert (H : fst (mcall ted ked (mrun ted ked no_stores [(a, [t])]) b [t]) = [Some (ix_emb a t)]).
  { unfold mrun, mcall, sset, no_stores, wrapper, wrap_begin, wrap_end, w_results, w_store, cache_get_list,
      cache_set_list, td_mem, td_update, store_set, td_set. simpl.
    rewrite <- Hs. rewrite Nat.eqb_refl. simpl. rewrite <- Hk.
    destruct (ked (ix_kg a t) (ix_kg a t)) as [_|n]; [|congruence]. simpl.
    destruct (ted t t) as [_|n]; [|congruence]. simpl.
    destruct (ted t t) as [_|n]; [|congruence]. reflexivity. }
  split; [exact H|]. rewrite H. simpl. intro E. inversion E. congruence.
Qed.

(* the keying BEFORE the fix (text alone): two indexes that share a store and a key generator and
   use different models - the second index is served the first model's vector *)
Theorem keyed_text_only_refuted : forall (mid text key vec : Type)
    (text_eq_dec : forall a b : text, {a = b} + {a <> b})
    (key_eq_dec : forall a b : key, {a = b} + {a <> b})
    (a b : kindex mid text key vec) (t : text),
  kx_sid mid text key vec a = kx_sid mid text key vec b ->
  kx_gen mid text key vec a (None, t) = kx_gen mid text key vec b (None, t) ->
  kx_emb mid text key vec a t <> kx_emb mid text key vec b t ->
  fst (mcall text_eq_dec key_eq_dec
         (mrun text_eq_dec key_eq_dec no_stores [(kx_index mid text key vec false a, [t])])
         (kx_index mid text key vec false b) [t])
  <> map (fun t => Some (kx_emb mid text key vec b t)) [t].
Proof.
  intros mid text key vec ted ked a b t Hs Hk Hne.
  apply (multi_shared_store_refuted text key vec ted ked
           (kx_index mid text key vec false a) (kx_index mid text key vec false b) t); assumption.
Qed.

Arguments inj_on {text key} kg P.
Arguments consistent {text key vec} key_eq_dec kg emb P s.
Arguments begin_ok {text vec} text_eq_dec emb P texts c u.
