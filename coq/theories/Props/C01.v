(* C01 - Input rails gate every user message before anything else sees it.
   Property theorems only; every proof is `exact <lemma>`; Print Assumptions beneath each.

   Models: Pipe/Rails.v (the rails loop), Pipe/TurnV1.v (one Colang 1.0 `generate` turn),
   Pipe/TurnV2.v (one Colang 2.x turn with the guardrails library).  All external behaviour is
   universally quantified: the rail actions `vf : turn -> call index -> rail -> text -> verdict`,
   the LLM, the parsers of LLM output, the dialog policy, the predefined messages.  Rail lists
   have any length; `st` is ANY conversation state (not only reachable ones), so nothing a
   previous turn leaves behind can disable the gate.
   (T) `*_T_*` theorems are about the flows AS READ FROM THE CURRENT SOURCE by
   translator/gen_c01.py (Gen/C01Flows.v): an edit of llm_flows.co / guardrails.co that lets a
   path bypass the rails makes them fail to check. *)
From Coq Require Import List String Bool Arith ZArith.
From NG Require Import Pipe.Rails Pipe.Rails_proofs Pipe.TurnV1 Pipe.TurnV1_proofs Pipe.TurnV2 Pipe.TurnV2_proofs
                       Pipe.Gates_proofs Pipe.FlowCheck Pipe.FlowCheck_proofs Gen.C01Flows Pipe.Flows_proofs
                       Pipe.Gates_examples.
Import ListNotations.
Open Scope string_scope.
Open Scope list_scope.

(* ------------------------------------------------------------------ Colang 1.0 *)

(* the input-rail calls of a turn are a prefix of the configured list, in order; the first is
   shown the user's text, each later one the text as rewritten by its predecessors; a rejection
   is the last call; if nobody rejects, every configured rail was called *)
Theorem C01_order :
  forall vf llm post_general intent_step next_of predefined msg_of refusal cf st u,
    ordered_calls (vf (tidx st)) u (irails cf)
      (rail_calls SIn (snd (fst (turn_v1 vf llm post_general intent_step next_of predefined msg_of refusal cf st u)))).
Proof. exact v1_order. Qed.
Print Assumptions C01_order.

(* the trace of a turn is: input-rail calls, then everything else (release of the user message
   to the dialog, LLM calls, bot messages, output rails) - no input-rail call comes later *)
Theorem C01_before_dialog :
  forall vf llm post_general intent_step next_of predefined msg_of refusal cf st u,
    gate_first (snd (fst (turn_v1 vf llm post_general intent_step next_of predefined msg_of refusal cf st u))).
Proof. exact v1_before_dialog. Qed.
Print Assumptions C01_before_dialog.

(* ... hence every input-rail call precedes every LLM call and every dialog step *)
Theorem C01_before_dialog_order :
  forall tr, gate_first tr ->
  forall i j e1 e2, nth_error tr i = Some e1 -> nth_error tr j = Some e2 ->
                    is_in_rail e1 = true -> is_in_rail e2 = false -> i < j.
Proof. exact gate_first_order. Qed.
Print Assumptions C01_before_dialog_order.

(* if rail call j rejects: it is the last input-rail call, there is no LLM call and no output-rail
   call in the turn, the reply is the refusal - or the rail's exception when
   enable_rails_exceptions - and nothing else is uttered *)
Theorem C01_reject_stops :
  forall vf llm post_general intent_step next_of predefined msg_of refusal cf st u j r x,
    let tr := snd (fst (turn_v1 vf llm post_general intent_step next_of predefined msg_of refusal cf st u)) in
    nth_error (rail_calls SIn tr) j = Some (r, x) -> vf (tidx st) j r x = Reject ->
    List.length (rail_calls SIn tr) = S j /\ llm_calls tr = [] /\ rail_calls SOut tr = [] /\
    snd (turn_v1 vf llm post_general intent_step next_of predefined msg_of refusal cf st u)
    = (if exceptions cf then RExc SIn r else RMsg [refusal]) /\
    emitted tr = (if exceptions cf then [] else [refusal]).
Proof. exact v1_reject_stops. Qed.
Print Assumptions C01_reject_stops.

(* two inputs that leave the input rails as the same text: everything after the input rails
   (prompts of all LLM calls, output-rail calls, emitted utterances), the reply and the next
   conversation state are identical - the original text is not an input of any later stage *)
Theorem C01_rewrite_noninterference :
  forall vf llm post_general intent_step next_of predefined msg_of refusal cf st u1 u2 um tr1 c1 tr2 c2,
    run_rails (vf (tidx st)) SIn (irails cf) 0 u1 = (tr1, c1, Passed um) ->
    run_rails (vf (tidx st)) SIn (irails cf) 0 u2 = (tr2, c2, Passed um) ->
    let T := turn_v1 vf llm post_general intent_step next_of predefined msg_of refusal cf st in
    rest_of_turn vf llm post_general intent_step next_of predefined msg_of refusal cf st u1
    = rest_of_turn vf llm post_general intent_step next_of predefined msg_of refusal cf st u2 /\
    llm_calls (snd (fst (T u1))) = llm_calls (snd (fst (T u2))) /\
    snd (T u1) = snd (T u2) /\ fst (fst (T u1)) = fst (fst (T u2)).
Proof. exact v1_rewrite_noninterference. Qed.
Print Assumptions C01_rewrite_noninterference.

(* at every turn position of every conversation, from any initial state *)
Theorem C01_every_turn :
  forall vf llm post_general intent_step next_of predefined msg_of refusal cf us st,
    Forall (fun su => gate_ok vf llm post_general intent_step next_of predefined msg_of refusal cf (fst su) (snd su))
           (states_before vf llm post_general intent_step next_of predefined msg_of refusal cf st us).
Proof. exact v1_every_turn. Qed.
Print Assumptions C01_every_turn.

(* ------------------------------------------------------------------ Colang 2.x (guardrails library) *)

Theorem C01_v2_order :
  forall fixd vf llm value_of refusal_in refusal_out cf st u,
    ordered_calls (no_rewrite (vf (tidx2 st))) u (irails2 cf)
      (rail_calls SIn (snd (fst (turn_v2 fixd vf llm value_of refusal_in refusal_out cf st u)))).
Proof. exact v2_order. Qed.
Print Assumptions C01_v2_order.

Theorem C01_v2_before_dialog :
  forall fixd vf llm value_of refusal_in refusal_out cf st u,
    gate_first (snd (fst (turn_v2 fixd vf llm value_of refusal_in refusal_out cf st u))).
Proof. exact v2_before_dialog. Qed.
Print Assumptions C01_v2_before_dialog.

(* in Colang 2 the input refusal is a `bot say`: it passes the output rails like any bot message,
   so the reply is the rail exception, the input refusal, or what the output rails make of it *)
Theorem C01_v2_reject_stops :
  forall fixd vf llm value_of refusal_in refusal_out cf st u j r x,
    let tr := snd (fst (turn_v2 fixd vf llm value_of refusal_in refusal_out cf st u)) in
    nth_error (rail_calls SIn tr) j = Some (r, x) -> vf (tidx2 st) j r x = Reject ->
    List.length (rail_calls SIn tr) = S j /\ llm_calls tr = [] /\
    (snd (turn_v2 fixd vf llm value_of refusal_in refusal_out cf st u) = RExc SIn r \/
     snd (turn_v2 fixd vf llm value_of refusal_in refusal_out cf st u) = RMsg [refusal_in] \/
     exists r', snd (turn_v2 fixd vf llm value_of refusal_in refusal_out cf st u) = block_reply2 refusal_out cf r').
Proof. exact v2_reject_stops. Qed.
Print Assumptions C01_v2_reject_stops.

Theorem C01_v2_every_turn :
  forall fixd vf llm value_of refusal_in refusal_out cf us st,
    Forall (fun su => gate_ok2 fixd vf llm value_of refusal_in refusal_out cf (fst su) (snd su))
           (states_before2 fixd vf llm value_of refusal_in refusal_out cf st us).
Proof. exact v2_every_turn. Qed.
Print Assumptions C01_v2_every_turn.

(* ------------------------------------------------------------------ (T) the shipped flows *)

(* the dominance checker is sound w.r.t. the control paths `slide` follows *)
Theorem C01_T_checker_sound :
  forall es gate target excused entry,
    gatedb es gate target excused entry = true ->
    forall p k, path es entry p k -> target (elem_at es k) = true ->
                passes es gate excused p \/ (exists e, elem_at es k = Some e /\ gate e = true).
Proof. exact gatedb_sound. Qed.
Print Assumptions C01_T_checker_sound.

(* llm_flows.co `process user input`, as compiled from the current source: every path to the
   creation of UserMessage passes `do run input rails`, unless no input rails are configured or
   the generation options disable them; the message carries $user_message *)
Theorem C01_T_input_gate :
  input_gate_ok v1_process_user_input = true /\
  forall p k, path v1_process_user_input 0 p k ->
              is_create "UserMessage" (elem_at v1_process_user_input k) = true ->
              passes v1_process_user_input (is_flow "run input rails") in_excused p.
Proof. exact (conj input_gate_checked input_gate_dominates). Qed.
Print Assumptions C01_T_input_gate.

(* llm_flows.co `run input rails`, as compiled from the current source: for EVERY length n of
   config.rails.input.flows the loop calls the rails 0, 1, ..., n-1 in this order *)
Theorem C01_T_input_loop :
  forall (n : nat) i0, exists fuel,
    lrun in_loop v1_run_input_rails (Z.of_nat n) fuel 0 i0 [] = Some (zseq 0 n).
Proof. exact in_loop_visits. Qed.
Print Assumptions C01_T_input_loop.

(* the dialog / generation flows are triggered only by the events the gate releases; the
   input-side flows call no LLM action *)
Theorem C01_T_dialog_triggers :
  first_match v1_run_dialog_rails = Some "UserMessage" /\
  first_match v1_generate_next_step = Some "UserIntent" /\
  first_match v1_process_user_input = Some "UtteranceUserActionFinished" /\
  first_match v1_process_bot_message = Some "BotMessage" /\
  no_llm_action v1_process_user_input = true /\ no_llm_action v1_run_input_rails = true /\
  has_action "generate_user_intent" v1_generate_user_intent = true /\
  has_action "generate_bot_message" v1_generate_bot_message = true.
Proof. exact dialog_triggers. Qed.
Print Assumptions C01_T_dialog_triggers.

(* library rail `self check input` (1.0 and 2.x): a rejection reaches `stop` / `abort` on every path *)
Theorem C01_T_self_check_input_stops :
  reject_stops_ok v1_self_check_input [] = true /\
  v2_reject_aborts v2lib_self_check_input "not $allowed" = true.
Proof. exact (conj self_check_input_stops v2_self_check_input_aborts). Qed.
Print Assumptions C01_T_self_check_input_stops.

(* guardrails.co: `_user_said` finishes only after `await run input rails $user_message`;
   `run input rails` awaits `input rails $input_text` when that flow is defined *)
Theorem C01_T_v2_gates :
  v2_user_said_ok v2_user_said = true /\
  v2_run_rails_ok v2_run_input_rails "$input_rails_exist" "input rails" "$input_text" = true.
Proof. exact (conj (proj1 v2_gates_checked) (proj1 (proj2 (proj2 v2_gates_checked)))). Qed.
Print Assumptions C01_T_v2_gates.

(* ------------------------------------------------------------------ non-vacuity *)

(* a 3-rail turn: rail 1 rewrites, rail 2 sees the rewrite, the prompt carries only the rewrite *)
Theorem C01_example_rewrite : ex_rewrite_statement.
Proof. exact ex_rewrite. Qed.
Print Assumptions C01_example_rewrite.

(* a turn in which rail 1 of 3 rejects: hypotheses of C01_reject_stops are inhabited *)
Theorem C01_example_reject : ex_reject_statement.
Proof. exact ex_reject. Qed.
Print Assumptions C01_example_reject.

(* two different inputs rewritten to the same text: hypotheses of C01_rewrite_noninterference are inhabited *)
Theorem C01_example_noninterference : ex_nonint_statement.
Proof. exact ex_nonint. Qed.
Print Assumptions C01_example_noninterference.
