(* V1.Stack_proofs - the simulation for programs WITH subflow calls: `do` pushes an interrupted
   caller, the resume loop of compute_next_state unwinds the stack of flow states in whatever
   order they sit in State.flow_states. *)
From Coq Require Import ZArith QArith List String Bool Lia.
From NG Require Import V1.Expr V1.Elems V1.Slide V1.Interp V1.Structured V1.Interp_proofs
                       V1.Code_proofs V1.Slide_proofs V1.Sim_proofs.
Import ListNotations.
Open Scope list_scope.
Open Scope Z_scope.

(* ------------------------------------------------------------------ exec = lexec + calls *)

Section Decomp.
  Variable subs : list (string * list stmt).

  (* what exec does with the result of the frame-local run *)
  Definition after_local (m : nat) (lr : lres) (r : xres) : Prop :=
    match lr with
    | LWait w k c u => r = XWait w k [] c u
    | LEnd c u => r = XEnd c u
    | LExc => r = XExc
    | LFuel => False
    | LCallR name k c u =>
        exists rest k', k = KSeq rest k' /\
          r = match lookup name subs with
              | None => XExc
              | Some body =>
                  match exec subs m c u body KDone with
                  | XEnd c' u' => exec subs m c' u' rest k'
                  | XWait w kw stk c' u' => XWait w kw (stk ++ [KSeq rest k']) c' u'
                  | r' => r'
                  end
              end
    end.

  Lemma exec_decomp : forall n c u blk k r,
    exec subs n c u blk k = r -> r <> XFuel ->
    exists m, (m < n)%nat /\ after_local m (lexec n c u blk k) r.
  Proof.
    induction n as [|n IH]; intros c u blk k r Hr Hnf; [simpl in Hr; congruence|].
    assert (Hlift : forall c' u' blk' k', exec subs n c' u' blk' k' = r ->
              exists m, (m < S n)%nat /\ after_local m (lexec n c' u' blk' k') r).
    { intros c' u' blk' k' H. destruct (IH _ _ _ _ _ H Hnf) as (m & Hm & Ha). exists m. split; [lia|exact Ha]. }
    destruct blk as [|s rest].
    - simpl in Hr |- *. destruct k; [exists n; split; [lia|exact (eq_sym Hr)]| |]; apply Hlift; exact Hr.
    - destruct s; simpl in Hr |- *.
      + exists n. split; [lia|exact (eq_sym Hr)].
      + exists n. split; [lia|exact (eq_sym Hr)].
      + exists n. split; [lia|exact (eq_sym Hr)].
      + destruct (eval c e); [apply Hlift; exact Hr|exists n; split; [lia|exact (eq_sym Hr)]].
      + destruct (eval c c0) as [v|]; [apply Hlift; exact Hr|exists n; split; [lia|exact (eq_sym Hr)]].
      + destruct (eval c c0) as [v|]; [|exists n; split; [lia|exact (eq_sym Hr)]].
        destruct (truthy v); apply Hlift; exact Hr.
      + destruct (unwind k) as [[[cnd b] k']|]; [apply Hlift; exact Hr|exists n; split; [lia|exact (eq_sym Hr)]].
      + destruct (unwind k) as [[[cnd b] k']|]; [apply Hlift; exact Hr|exists n; split; [lia|exact (eq_sym Hr)]].
      + exists n. split; [lia|]. exists rest, k. split; [reflexivity|exact (eq_sym Hr)].
  Qed.
End Decomp.

(* ------------------------------------------------------------------ lists of flow states *)

Lemma list_set_length : forall {A} (l : list A) i a, List.length (list_set l i a) = List.length l.
Proof. induction l; intros [|i] x; simpl; auto. Qed.

Lemma list_set_nth_same : forall {A} (l : list A) i a, (i < List.length l)%nat ->
  nth_error (list_set l i a) i = Some a.
Proof. induction l; intros [|i] x H; simpl in *; try lia; [reflexivity|apply IHl; lia]. Qed.

Lemma list_set_nth_other : forall {A} (l : list A) i j a, i <> j ->
  nth_error (list_set l i a) j = nth_error l j.
Proof. induction l; intros [|i] [|j] x H; simpl; auto; try congruence. Qed.

Lemma list_set_app_l : forall {A} (l m : list A) i a, (i < List.length l)%nat ->
  list_set (l ++ m) i a = list_set l i a ++ m.
Proof. induction l; intros m [|i] x H; simpl in *; try lia; [reflexivity|f_equal; apply IHl; lia]. Qed.

Lemma list_set_map : forall {A B} (g : A -> B) (l : list A) i a, (i < List.length l)%nat ->
  (forall x, nth_error l i = Some x -> g a = g x) ->
  map g (list_set l i a) = map g l.
Proof.
  induction l; intros [|i] x H Hg; simpl in *; try lia.
  - f_equal. apply Hg. reflexivity.
  - f_equal. apply IHl; [lia|exact Hg].
Qed.

Lemma list_set_in : forall {A} (l : list A) i a x, In x (list_set l i a) ->
  x = a \/ exists j, j <> i /\ nth_error l j = Some x.
Proof.
  induction l; intros [|i] y x H; simpl in H; try contradiction.
  - destruct H as [H|H]; [left; auto|].
    right. destruct (In_nth_error _ _ H) as (j & Hj). exists (S j). split; [lia|exact Hj].
  - destruct H as [H|H].
    + right. exists 0%nat. split; [lia|subst; reflexivity].
    + destruct (IHl _ _ _ H) as [E|(j & Hj & Hn)]; [left; exact E|].
      right. exists (S j). split; [lia|exact Hn].
Qed.

Lemma find_uid_in : forall l g, NoDup (map f_uid l) -> In g l -> find_uid l (f_uid g) = Some g.
Proof.
  induction l as [|x l IH]; intros g Hnd Hin; [contradiction|].
  inversion Hnd as [|? ? Hnotin Hnd']; subst. simpl. destruct Hin as [E|Hin].
  - subst. rewrite N.eqb_refl. reflexivity.
  - destruct (N.eqb (f_uid x) (f_uid g)) eqn:E.
    + apply N.eqb_eq in E. exfalso. apply Hnotin. rewrite E. apply in_map. exact Hin.
    + apply IH; assumption.
Qed.

Lemma find_uid_none : forall l u, ~ In u (map f_uid l) -> find_uid l u = None.
Proof.
  induction l as [|x l IH]; intros u H; [reflexivity|]. simpl in *.
  destruct (N.eqb (f_uid x) u) eqn:E; [apply N.eqb_eq in E; exfalso; apply H; left; exact E|].
  apply IH. intros Hin. apply H. right. exact Hin.
Qed.

(* "eventually": for all sufficiently large fuel *)
Definition evl {A} (g : nat -> res A) (r : res A) : Prop := exists F, forall f, (F <= f)%nat -> g f = r.

Lemma evl_const : forall {A} (r : res A), evl (fun _ => r) r.
Proof. intros. exists 0%nat. intros; reflexivity. Qed.

Lemma evl_bind : forall {A B} (g : nat -> res A) (h : A -> nat -> res B) a r,
  evl g (Ok a) -> evl (h a) r -> evl (fun f => bind (g f) (fun x => h x f)) r.
Proof.
  intros A B g h a r (F1 & H1) (F2 & H2). exists (Nat.max F1 F2). intros f Hf.
  rewrite H1 by lia. simpl. apply H2. lia.
Qed.

Lemma evl_bind_exc : forall {A B} (g : nat -> res A) (h : A -> nat -> res B),
  evl g Exc -> evl (fun f => bind (g f) (fun x => h x f)) Exc.
Proof. intros A B g h (F1 & H1). exists F1. intros f Hf. rewrite H1 by lia. reflexivity. Qed.

Lemma evl_ext : forall {A} (g g' : nat -> res A) r F0,
  (forall f, (F0 <= f)%nat -> g f = g' f) -> evl g' r -> evl g r.
Proof.
  intros A g g' r F0 He (F & H). exists (Nat.max F0 F). intros f Hf. rewrite He by lia. apply H. lia.
Qed.

Lemma evl_S : forall {A} (g : nat -> res A) r, evl g r -> evl (fun f => g (S f)) r.
Proof. intros A g r (F & H). exists F. intros f Hf. apply H. lia. Qed.

Lemma evl_pred : forall {A} (g : nat -> res A) r, evl (fun f => g (S f)) r -> evl g r.
Proof.
  intros A g r (F & H). exists (S F). intros f Hf. destruct f as [|f]; [lia|]. apply H. lia.
Qed.

(* ------------------------------------------------------------------ one program *)

Section ProgS.
  Variable p : prog.
  Variable o : opts.
  Hypothesis Hwf : wf_prog p = true.
  Hypothesis Hmark : o_mark o = true.
  Hypothesis Hguard : o_guard o = true.

  Let cs : configs := compile_prog p.

  (* the body of a flow of the program *)
  Definition flow_body (fl : string) : option (list stmt) := lookup fl (all_flows p).

  Definition code (b : list stmt) : list elem := compile_block None b.

  Definition cfg_of (fl : string) (b : list stmt) : flow_config :=
    mk_config fl (code b) (negb (String.eqb fl (p_id p))).

  Lemma wf_parts :
    (exists i0 rest0, p_main p = SUser i0 :: rest0 /\ wf_block false rest0 = true) /\
    Forall (fun nb => snd nb <> [] /\ wf_block false (snd nb) = true) (p_subs p) /\
    ~ In (p_id p) (map fst (p_subs p)).
  Proof.
    pose proof Hwf as W. unfold wf_prog in W.
    apply andb_true_iff in W. destruct W as [W W4].
    apply andb_true_iff in W. destruct W as [W W3].
    apply andb_true_iff in W. destruct W as [W1 W2].
    split; [|split].
    - destruct (p_main p) as [|s rest0]; [discriminate|]. destruct s; try discriminate.
      exists intent, rest0. split; [reflexivity|]. simpl in W2. exact W2.
    - apply Forall_forall. intros nb Hin. rewrite forallb_forall in W3. specialize (W3 _ Hin).
      apply andb_true_iff in W3. destruct W3 as [Wa Wb]. split; [|exact Wb].
      destruct (snd nb); [discriminate|congruence].
    - simpl in W4. apply andb_true_iff in W4. destruct W4 as [W4 _]. apply negb_true_iff in W4.
      intros Hin. unfold string_in in W4.
      assert (existsb (String.eqb (p_id p)) (map fst (p_subs p)) = true).
      { apply existsb_exists. exists (p_id p). split; [exact Hin|apply String.eqb_refl]. }
      congruence.
  Qed.

  Lemma lookup_in : forall {A} k (l : list (string * A)) v, lookup k l = Some v -> In (k, v) l.
  Proof.
    induction l as [|[k' v'] l IH]; intros v H; simpl in *; [discriminate|].
    destruct (String.eqb k k') eqn:E.
    - inversion H; subst. apply String.eqb_eq in E. subst. left; reflexivity.
    - right. apply IH. exact H.
  Qed.

  Lemma flow_body_wf : forall fl b, flow_body fl = Some b -> wf_block false b = true /\ 0 < zlen (code b).
  Proof.
    intros fl b H. unfold flow_body, all_flows in H. simpl in H.
    destruct wf_parts as ((i0 & rest0 & Em & Hr) & Hs & _).
    destruct (String.eqb fl (p_id p)).
    - inversion H; subst b. rewrite Em. split; [simpl; exact Hr|].
      unfold code. simpl compile_block. rewrite zlen_cons.
      pose proof (zlen_nonneg (compile_block None rest0)). lia.
    - apply lookup_in in H. rewrite Forall_forall in Hs. destruct (Hs _ H) as [Hne Hb]. simpl in *.
      split; [exact Hb|]. unfold code. rewrite compile_block_length.
      destruct b as [|s r]; [congruence|]. rewrite bsize_cons.
      pose proof (size_pos s). pose proof (bsize_nonneg r). lia.
  Qed.

  Lemma find_cfg : forall fl b, flow_body fl = Some b -> find_config cs fl = Some (cfg_of fl b).
  Proof.
    intros fl b H. unfold flow_body, all_flows in H. simpl in H. unfold cs, compile_prog, cfg_of. simpl.
    rewrite (String.eqb_sym (p_id p) fl). destruct (String.eqb fl (p_id p)) eqn:E.
    - inversion H; subst. apply String.eqb_eq in E. subst fl. reflexivity.
    - simpl. clear - H. induction (p_subs p) as [|[k v] l IH]; simpl in *; [discriminate|].
      rewrite (String.eqb_sym k fl). destruct (String.eqb fl k) eqn:E2.
      + inversion H; subst. apply String.eqb_eq in E2. subst. reflexivity.
      + apply IH. exact H.
  Qed.

  Lemma find_cfg_none : forall fl, flow_body fl = None -> find_config cs fl = None.
  Proof.
    intros fl H. unfold flow_body, all_flows in H. simpl in H. unfold cs, compile_prog. simpl.
    rewrite (String.eqb_sym (p_id p) fl). destruct (String.eqb fl (p_id p)); [discriminate|].
    clear - H. induction (p_subs p) as [|[k v] l IH]; simpl in *; [reflexivity|].
    rewrite (String.eqb_sym k fl). destruct (String.eqb fl k); [discriminate|]. apply IH. exact H.
  Qed.

  Lemma main_body : flow_body (p_id p) = Some (p_main p).
  Proof. unfold flow_body, all_flows. simpl. rewrite String.eqb_refl. reflexivity. Qed.

  (* ---------------------------------------------------------------- frames and chains *)

  Definition active_at (fs : fstate) (w : wait) (kw : kont) : Prop :=
    f_status fs = Active /\ f_intby fs = None /\
    exists b lp, flow_body (f_flow fs) = Some b /\ instr (code b) (f_head fs) = Some (elem_of_wait w) /\
                 wf_wait w /\ kmatch (code b) kw (f_head fs + 1) lp.

  Definition interrupted_at (fs : fstate) (k : kont) (u : N) : Prop :=
    f_status fs = Interrupted /\ f_intby fs = Some u /\
    exists b lp, flow_body (f_flow fs) = Some b /\ kmatch (code b) k (f_head fs) lp.

  (* chain l w kw stk top: l = [f0; f1; ...; fm], f0 waits on w with continuation kw, f(i+1) is
     interrupted by fi with continuation stk[i]; top = uid of fm *)
  Inductive chain : list fstate -> wait -> kont -> list kont -> N -> Prop :=
  | chain_one : forall f0 w kw, active_at f0 w kw -> chain [f0] w kw [] (f_uid f0)
  | chain_snoc : forall l fi w kw stk ki top,
      chain l w kw stk top -> interrupted_at fi ki top ->
      chain (l ++ [fi]) w kw (stk ++ [ki]) (f_uid fi).

  Lemma chain_nonempty : forall l w kw stk top, chain l w kw stk top -> l <> [].
  Proof. induction 1; [discriminate|]. destruct l; discriminate. Qed.

  Lemma chain_last : forall l x w kw stk top,
    chain (l ++ [x]) w kw stk top ->
    top = f_uid x /\
    ((l = [] /\ stk = [] /\ active_at x w kw) \/
     (exists stk0 ki top0, stk = stk0 ++ [ki] /\ chain l w kw stk0 top0 /\ interrupted_at x ki top0)).
  Proof.
    intros l x w kw stk top H. inversion H; subst.
    - destruct l; [|destruct l; discriminate]. simpl in *. inversion H0; subst. split; [reflexivity|].
      left. auto.
    - apply app_inj_tail in H0. destruct H0; subst. split; [reflexivity|].
      right. eauto.
  Qed.

  Lemma chain_last_head : forall l x w kw stk top, chain (l ++ [x]) w kw stk top -> 0 <= f_head x.
  Proof.
    intros l x w kw stk top H. destruct (chain_last _ _ _ _ _ _ H) as (_ & [(_ & _ & Ha)|(stk0 & ki & top0 & _ & _ & Hi)]).
    - destruct Ha as (_ & _ & b & lp & _ & Hi & _). apply instr_lt in Hi. lia.
    - destruct Hi as (_ & _ & b & lp & _ & Hk). apply kmatch_range in Hk. lia.
  Qed.

  Lemma chain_last_flow : forall l x w kw stk top, chain (l ++ [x]) w kw stk top ->
    exists b, flow_body (f_flow x) = Some b.
  Proof.
    intros l x w kw stk top H. destruct (chain_last _ _ _ _ _ _ H) as (_ & [(_ & _ & Ha)|(stk0 & ki & top0 & _ & _ & Hi)]).
    - destruct Ha as (_ & _ & b & lp & Hb & _). eauto.
    - destruct Hi as (_ & _ & b & lp & Hb & _). eauto.
  Qed.

  (* ---------------------------------------------------------------- states *)

  Definition end_state (s : state) (c u : ctx) (n : N) : state :=
    {| st_ctx := c; st_fss := st_fss s; st_next := st_next s; st_by := st_by s; st_prio := st_prio s;
       st_upd := u; st_uid := n |}.

  Definition wait_state (s : state) (c u : ctx) (n : N) (pushed : list fstate) (w : wait) (u0 : N) : state :=
    if actionable w
    then {| st_ctx := c; st_fss := st_fss s ++ pushed; st_next := Some (elem_of_wait w); st_by := Some u0;
            st_prio := Qred (1 * 1); st_upd := u; st_uid := n |}
    else {| st_ctx := c; st_fss := st_fss s ++ pushed; st_next := st_next s; st_by := st_by s;
            st_prio := st_prio s; st_upd := u; st_uid := n |}.

  Definition first_uid (l : list fstate) (d : N) : N := match l with x :: _ => f_uid x | [] => d end.

  Definition post_g (r : xres) (s : state) (fs : fstate) (res : res (state * fstate)) : Prop :=
    match r with
    | XEnd c' u' => exists h n', res = Ok (end_state s c' u' n', fs_head fs h) /\ h < 0 /\ (st_uid s <= n')%N
    | XWait w kw stk c' u' =>
        exists pushed fs' n',
          res = Ok (wait_state s c' u' n' pushed w (first_uid (pushed ++ [fs']) 0%N), fs') /\
          chain (pushed ++ [fs']) w kw stk (f_uid fs) /\
          f_uid fs' = f_uid fs /\ f_flow fs' = f_flow fs /\
          (st_uid s <= n')%N /\
          Forall (fun f => (st_uid s <= f_uid f < n')%N) pushed /\ NoDup (map f_uid pushed)
    | XExc => res = Exc
    | XFuel => False
    end.
End ProgS.
