(* C05 - Competing flows: exactly one most-specific action wins per interaction loop.
   Property theorems only; every proof is `exact <lemma>`; Print Assumptions beneath each.

   `resolve args args_eqb pick cands` is the model of
   statemachine.py::_resolve_action_conflicts(state, actionable_heads) (V2/Conflict.v): cands =
   the actionable heads in list order, the result = one decision per head
   (Win | CoWin | Caught label | Lose).  args_eqb (Python == on event argument dicts) and
   pick (random.choice) are arbitrary.  loop_cands cands l = the candidates of interaction
   loop l; loop_decisions pick cands l = the decisions about them.
   pad_value / sort_reverse / shortcut_len / multi_min are read from the CURRENT source by
   translator/gen_c05.py (Gen/C05Consts.v): C05_winner_maximal needs sort_reverse = true,
   C05_shorter_chain_not_penalised needs pad_value = 1. *)
From Coq Require Import List String Bool QArith Qpower ZArith Arith Permutation.
From NG Require Import Gen.C05Consts Gen.MatchConsts V2.Conflict V2.Conflict_proofs.
Import ListNotations.
Open Scope list_scope.
Open Scope nat_scope.

(* (T) the constants of the current source *)
Theorem C05_source_constants :
  sort_reverse = true /\ (pad_value == 1)%Q /\ shortcut_len = 1 /\ multi_min = 1.
Proof. exact (conj eq_refl (conj eq_refl (conj eq_refl eq_refl))). Qed.
Print Assumptions C05_source_constants.

(* In a loop whose >= 2 candidates all want different actions: exactly one event is generated,
   exactly one candidate proceeds with its action, every other candidate is aborted (or moved
   to its failure label), and the decisions concern exactly the candidates of that loop. *)
Theorem C05_exactly_one :
  forall args args_eqb pick (cands : list (cand args)) l,
    NoDup (map c_head cands) ->
    2 <= List.length (loop_cands args cands l) ->
    (forall x y, In x (loop_cands args cands l) -> In y (loop_cands args cands l) -> c_head x <> c_head y ->
                 is_equal args args_eqb (c_event x) (c_event y) = false) ->
    exists w, In w (loop_cands args cands l)
      /\ emitted (loop_decisions args args_eqb pick cands l) = [c_event w]
      /\ map fst (filter (fun d => proceeds (snd d)) (loop_decisions args args_eqb pick cands l)) = [w]
      /\ (forall c, In c (loop_cands args cands l) -> c_head c <> c_head w ->
            In (c, loser_outcome args c) (resolve args args_eqb pick cands))
      /\ Permutation (map fst (loop_decisions args args_eqb pick cands l)) (loop_cands args cands l).
Proof. exact exactly_one. Qed.
Print Assumptions C05_exactly_one.

(* The picked head's score list, padded for comparison, is >= every other's of its loop in
   the order the code sorts by (Python list comparison). *)
Theorem C05_winner_maximal :
  forall args args_eqb pick (cands : list (cand args)) l w,
    picks_ok pick ->
    In (w, Win) (loop_decisions args args_eqb pick cands l) ->
    forall c, In c (loop_cands args cands l) ->
      lex_cmp (key_of (loop_cands args cands l) w) (key_of (loop_cands args cands l) c) <> Lt.
Proof. exact (fun args args_eqb pick cands l w => winner_is_maximal args args_eqb pick cands l w eq_refl). Qed.
Print Assumptions C05_winner_maximal.

(* "Most specific" for the match on the triggering event: a candidate whose first score is
   strictly below another candidate's of the same loop is never picked ... *)
Theorem C05_less_specific_never_wins :
  forall args args_eqb pick (cands : list (cand args)) l c c' x a y b,
    picks_ok pick ->
    In c (loop_cands args cands l) -> In c' (loop_cands args cands l) ->
    c_scores c = x :: a -> c_scores c' = y :: b -> (x < y)%Q ->
    ~ In (c, Win) (loop_decisions args args_eqb pick cands l).
Proof. exact (fun args args_eqb pick cands l c c' x a y b => less_specific_never_wins args args_eqb pick cands l c c' x a y b eq_refl). Qed.
Print Assumptions C05_less_specific_never_wins.

(* ... in particular, scores being priority * factor^(number of unmentioned parameters) (C04,
   factor read from the source): with equal priority, more unmentioned parameters never win *)
Theorem C05_more_unmentioned_never_wins :
  forall args args_eqb pick (cands : list (cand args)) l c c' p k k' a b,
    picks_ok pick ->
    In c (loop_cands args cands l) -> In c' (loop_cands args cands l) ->
    (0 < p)%Q -> (0 <= k' < k)%Z ->
    c_scores c = (p * factor ^ k)%Q :: a -> c_scores c' = (p * factor ^ k')%Q :: b ->
    ~ In (c, Win) (loop_decisions args args_eqb pick cands l).
Proof. exact (fun args args_eqb pick cands l c c' p k k' a b => more_unmentioned_never_wins args args_eqb pick cands l c c' p k k' a b eq_refl). Qed.
Print Assumptions C05_more_unmentioned_never_wins.

(* ... and padding with 1.0 means: a chain that is a prefix of a longer chain is never ranked
   below it, as long as the further scores are <= 1 (C04_score_range: every score is). *)
Theorem C05_shorter_chain_not_penalised :
  forall n a ext,
    Forall (fun x => (x <= 1)%Q) ext -> List.length (a ++ ext) <= n ->
    lex_cmp (pad n a) (pad n (a ++ ext)) <> Lt.
Proof. exact prefix_chain_not_below. Qed.
Print Assumptions C05_shorter_chain_not_penalised.

(* The picked head always lies in the tie set; every member of the tie set is picked for some
   outcome of random.choice; the members carry exactly the first sorted head's score list. *)
Theorem C05_any_tie :
  forall args args_eqb (cands : list (cand args)) l,
    (forall pick w, In (w, Win) (loop_decisions args args_eqb pick cands l) ->
                    In w (tie_set (loop_cands args cands l)))
    /\ (forall t, In t (tie_set (loop_cands args cands l)) ->
          exists pick, picks_ok pick /\ In (t, Win) (loop_decisions args args_eqb pick cands l))
    /\ (forall t h0, In t (tie_set (loop_cands args cands l)) ->
          hd_error (ordered (loop_cands args cands l)) = Some h0 ->
          In t (loop_cands args cands l) /\ scores_eqb (c_scores t) (c_scores h0) = true).
Proof. exact any_tie. Qed.
Print Assumptions C05_any_tie.

(* A candidate whose event equals the picked head's advances too, is never aborted, and the
   loop still generates that event once. *)
Theorem C05_same_action_all_advance :
  forall args args_eqb pick (cands : list (cand args)) l w c,
    NoDup (map c_head cands) ->
    In (w, Win) (loop_decisions args args_eqb pick cands l) -> In c (loop_cands args cands l) ->
    c_head c <> c_head w ->
    is_equal args args_eqb (c_event w) (c_event c) = true ->
    (exists m, In (c, CoWin m) (resolve args args_eqb pick cands))
    /\ In (c_head c) (advancing (resolve args args_eqb pick cands))
    /\ emitted (loop_decisions args args_eqb pick cands l) = [c_event w]
    /\ (forall o, In (c, o) (resolve args args_eqb pick cands) -> exists m, o = CoWin m).
Proof. exact same_action_all_advance. Qed.
Print Assumptions C05_same_action_all_advance.

(* Every other candidate of the loop: its flow is aborted with its score list and it does not
   advance - or, inside an or-group / when scope, it is moved to the innermost failure label. *)
Theorem C05_losers_fail :
  forall args args_eqb pick (cands : list (cand args)) l w c,
    NoDup (map c_head cands) ->
    In (w, Win) (loop_decisions args args_eqb pick cands l) -> In c (loop_cands args cands l) ->
    c_head c <> c_head w ->
    is_equal args args_eqb (c_event w) (c_event c) = false ->
    In (c, loser_outcome args c) (resolve args args_eqb pick cands)
    /\ (forall o, In (c, o) (resolve args args_eqb pick cands) -> o = loser_outcome args c)
    /\ match c_catch c with
       | [] => In (c_flow c, c_scores c) (aborted (resolve args args_eqb pick cands))
               /\ ~ In (c_head c) (advancing (resolve args args_eqb pick cands))
       | _ :: _ => In (c_head c, last (c_catch c) EmptyString) (jumped (resolve args args_eqb pick cands))
                   /\ In (c_head c) (advancing (resolve args args_eqb pick cands))
       end.
Proof. exact losers_fail. Qed.
Print Assumptions C05_losers_fail.

(* resolve distributes over the partition of the candidates by interaction loop (loops in
   order of first occurrence, candidates in their original order) ... *)
Theorem C05_loops_distribute :
  forall args args_eqb pick (cands : list (cand args)),
    2 <= List.length cands ->
    resolve args args_eqb pick cands
    = resolve_groups args args_eqb pick 0
        (map (fun l => (l, loop_cands args cands l)) (loop_order args cands)).
Proof. exact loops_distribute. Qed.
Print Assumptions C05_loops_distribute.

(* ... so the decisions about one loop do not depend on the candidates of other loops *)
Theorem C05_loops_independent :
  forall args args_eqb pk (cands cands' : list (cand args)) l,
    loop_cands args cands l = loop_cands args cands' l ->
    loop_decisions args args_eqb (fun _ => pk) cands l = loop_decisions args args_eqb (fun _ => pk) cands' l.
Proof. exact loops_independent. Qed.
Print Assumptions C05_loops_independent.

(* ... and flows in pairwise different loops never compete: all of them win *)
Theorem C05_different_loops_all_win :
  forall args args_eqb pick (cands : list (cand args)),
    NoDup (map c_loop cands) ->
    (forall c, In c cands -> In (c, Win) (resolve args args_eqb pick cands))
    /\ (forall d, In d (resolve args args_eqb pick cands) -> snd d = Win).
Proof. exact different_loops_all_win. Qed.
Print Assumptions C05_different_loops_all_win.

(* Heads that are not in the candidate list never appear in the result; every candidate gets
   exactly one decision. *)
Theorem C05_nonmatching_untouched :
  forall args args_eqb pick (cands : list (cand args)),
    (forall d, In d (resolve args args_eqb pick cands) -> In (fst d) cands)
    /\ (NoDup (map c_head cands) -> Permutation (map fst (resolve args args_eqb pick cands)) cands).
Proof. exact (fun args args_eqb pick cands => conj (resolve_fst_in args args_eqb pick cands) (resolve_perm args args_eqb pick cands)). Qed.
Print Assumptions C05_nonmatching_untouched.

(* the single-candidate shortcut is the general rule applied to one candidate *)
Theorem C05_shortcut_consistent :
  forall args args_eqb pick (c : cand args),
    resolve args args_eqb pick [c] = resolve_groups args args_eqb pick 0 (group_by_loop [c]).
Proof. exact shortcut_consistent. Qed.
Print Assumptions C05_shortcut_consistent.

(* Observation kept as a checked fact (not a violation of the property text): "exact tie" in the
   code means the maximal PREFIX of the sorted heads with the first head's UNPADDED score list.
   A head with exactly that list which is sorted behind a head with an equal padded key
   ([0.81; 1.0] vs [0.81]) is never picked, whatever random.choice returns. *)
Theorem C05_every_equal_score_head_can_win_refuted :
  exists (cands : list (cand string)) t1 t3,
    In t1 cands /\ In t3 cands
    /\ scores_eqb (c_scores t3) (c_scores t1) = true
    /\ lex_cmp (key_of cands t3) (key_of cands t1) = Eq
    /\ forall pick, In (t1, Win) (resolve string String.eqb pick cands)
                    /\ ~ In (t3, Win) (resolve string String.eqb pick cands).
Proof. exact Examples.every_equal_score_head_can_win_refuted. Qed.
Print Assumptions C05_every_equal_score_head_can_win_refuted.
