(* Executable instance of V2/Bind.v for the C08 correspondence check:
   a concrete expression language (literals, variables, list/dict displays, `e - 1`),
   structural equality on values, and a big-step interpreter of the generated call programs
   built on Bind.step, so that whole programs run on the real interpreter can be compared with
   the model.  Nothing here is used by the theorems (they hold for every [eval]). *)
From Coq Require Import ZArith List String Ascii Bool.
From NG Require Import Gen.C08Consts Val.Value Val.Match Val.MatchRun V2.Bind.
Import ListNotations.
Open Scope string_scope.

Inductive cexpr :=
| CLit (v : value)
| CVar (x : string)
| CList (l : list cexpr)
| CDict (kvs : list (string * cexpr))
| CSub1 (e : cexpr).

(* eval_expression: `$x` reads context["_global_x"] when that key exists, else context.get(x) *)
Fixpoint ceval (c : ctx) (e : cexpr) : value :=
  match e with
  | CLit v => v
  | CVar x => if ahas (global_key x) c then getN (global_key x) c else getN x c
  | CList l => VList (map (ceval c) l)
  | CDict kvs => VDict (map (fun kv => (fst kv, ceval c (snd kv))) kvs)
  | CSub1 e => match ceval c e with VInt z => VInt (z - 1) | v => v end
  end.

Definition num_eqb (a b : num) : bool :=
  match a, b with
  | NInt x, NInt y => Z.eqb x y
  | NBool x, NBool y => Bool.eqb x y
  | NFloat x, NFloat y => Z.eqb x y
  | _, _ => false
  end.

Definition cmpop_eqb (a b : cmpop) : bool :=
  match a, b with
  | OpLt, OpLt | OpLe, OpLe | OpGt, OpGt | OpGe, OpGe | OpNe, OpNe => true
  | _, _ => false
  end.

(* structural equality (bool and int are different values here: stricter than Python ==) *)
Fixpoint veqb (a b : value) {struct a} : bool :=
  match a with
  | VNone => match b with VNone => true | _ => false end
  | VBool x => match b with VBool y => Bool.eqb x y | _ => false end
  | VInt x => match b with VInt y => Z.eqb x y | _ => false end
  | VFloat x => match b with VFloat y => Z.eqb x y | _ => false end
  | VStr x => match b with VStr y => String.eqb x y | _ => false end
  | VRegex x => match b with VRegex y => String.eqb x y | _ => false end
  | VCmp o n => match b with VCmp o' n' => cmpop_eqb o o' && num_eqb n n' | _ => false end
  | VList l =>
      match b with
      | VList m =>
          (fix go (l m : list value) : bool :=
             match l, m with
             | [], [] => true
             | x :: l', y :: m' => veqb x y && go l' m'
             | _, _ => false
             end) l m
      | _ => false
      end
  | VSet l =>
      match b with
      | VSet m =>
          (fix go (l m : list value) : bool :=
             match l, m with
             | [], [] => true
             | x :: l', y :: m' => veqb x y && go l' m'
             | _, _ => false
             end) l m
      | _ => false
      end
  | VDict l =>
      match b with
      | VDict m =>
          (fix go (l m : list (string * value)) : bool :=
             match l, m with
             | [], [] => true
             | (k, x) :: l', (k', y) :: m' => String.eqb k k' && veqb x y && go l' m'
             | _, _ => false
             end) l m
      | _ => false
      end
  end.

Fixpoint ctx_eqb (a b : ctx) : bool :=
  match a, b with
  | [], [] => true
  | (k, x) :: a', (k', y) :: b' => String.eqb k k' && veqb x y && ctx_eqb a' b'
  | _, _ => false
  end.

(* Python's == on the generated values: bool/int/float compare numerically (floats are
   quarters), lists elementwise, dicts as unordered maps (keys are distinct) *)
Definition num_of (v : value) : option Z :=
  match v with
  | VBool b => Some (4 * Z_of_bool b)%Z
  | VInt z => Some (4 * z)%Z
  | VFloat q => Some q
  | _ => None
  end.

Fixpoint pyeqb (a b : value) {struct a} : bool :=
  match a with
  | VNone => match b with VNone => true | _ => false end
  | VBool _ | VInt _ | VFloat _ =>
      match num_of a, num_of b with Some x, Some y => Z.eqb x y | _, _ => false end
  | VStr x => match b with VStr y => String.eqb x y | _ => false end
  | VRegex x => match b with VRegex y => String.eqb x y | _ => false end
  | VCmp _ _ => false
  | VList l =>
      match b with
      | VList m =>
          (fix go (l m : list value) : bool :=
             match l, m with
             | [], [] => true
             | x :: l', y :: m' => pyeqb x y && go l' m'
             | _, _ => false
             end) l m
      | _ => false
      end
  | VSet l =>
      match b with
      | VSet m =>
          (fix go (l m : list value) : bool :=
             match l, m with
             | [], [] => true
             | x :: l', y :: m' => pyeqb x y && go l' m'
             | _, _ => false
             end) l m
      | _ => false
      end
  | VDict l =>
      match b with
      | VDict m =>
          Nat.eqb (List.length l) (List.length m)
          && (fix go (l : list (string * value)) : bool :=
                match l with
                | [] => true
                | (k, x) :: l' => match aget k m with Some y => pyeqb x y | None => false end && go l'
                end) l
      | _ => false
      end
  end.

(* ---- function level: _get_reference_activated_flow_instance ----
   parameters, the instances of the flow in state.flow_id_states order (is it a reference
   instance?, its `arguments`), the StartFlow event arguments, and the index of the instance
   the implementation returned *)
Definition check_actref (c : list (param cexpr) * list (bool * ctx) * ctx * option nat) : bool :=
  let '(ps, insts, ev, x) := c in
  match find_reference cexpr ceval pyeqb ps ev insts 0, x with
  | Some (Some i), Some j => Nat.eqb i j
  | Some None, None => true
  | _, _ => false
  end.

(* ---- function level: create_flow_instance + _start_flow on one event_arguments dict ---- *)

Inductive xbound := XShared | XTooMany | XBound (args c : ctx).

Definition check_bind
  (c : list (param cexpr) * list (param cexpr) * ctx * option ctx * xbound) : bool :=
  let '(ps, rs, ev, shared, x) := c in
  match bind_in cexpr ceval ps rs ev shared, x with
  | BSharedWithParams, XShared => true
  | BTooMany, XTooMany => true
  | Bound a k, XBound a' k' => ctx_eqb a a' && ctx_eqb k k'
  | _, _ => false
  end.

(* restart of an activated flow: bind [ev], then bind the predecessor's start_event again;
   compared with create_flow_instance + _start_flow run on the real start_event() arguments *)
Definition check_restart
  (c : list (param cexpr) * list (param cexpr) * ctx * xbound) : bool :=
  let '(ps, rs, ev, x) := c in
  match bind cexpr ceval ps rs ev with
  | Bound a _ =>
      let R := mkReserved (VStr "f") (VStr "(f)again") (VStr "@MAIN") (VStr "(head)") (VStr "0.1") in
      match bind cexpr ceval ps rs (restart_event_args R (VInt 1) a), x with
      | BTooMany, XTooMany => true
      | Bound a' k', XBound a'' k'' => ctx_eqb a' a'' && ctx_eqb k' k''
      | _, _ => false
      end
  | _ => false
  end.

(* ---- whole programs ---- *)

Inductive form := FAwait | FStart | FActivate.

Inductive stmt :=
| SAssign (x : string) (e : cexpr)
| SGlobal (x : string)
| SEcho (tag : Z) (kvs : list (string * cexpr))
| SCall (fm : form) (f : string) (args : list (arg cexpr)) (ret : option string)
| SReturn (e : option cexpr)
| SIfPos (x : string) (body : list stmt)           (* if $x > 0 *)
| SWait.                                            (* match Never() *)

Record flowdef := mkFlow { f_params : list (param cexpr); f_rets : list (param cexpr); f_body : list stmt }.
Definition prog := list (string * flowdef).

Inductive outcome :=
| ODone        (* reached the end of the flow without `return` *)
| OReturned
| OWaiting     (* waits at a user-level match: the flow counts as started *)
| OStuck       (* waits for a FlowStarted that never matches (observations O1-O3, O5) *)
| OFailed      (* a Colang runtime error failed the flow *)
| OCrash       (* ColangRuntimeError escaped run_to_completion (surplus check fired) *)
| OFuel.

Definition outcome_code (o : outcome) : Z :=
  match o with ODone => 0 | OReturned => 1 | OWaiting => 2 | OStuck => 3 | OFailed => 4 | OCrash => 5 | OFuel => 6 end.

(* x_act: the activated reference instances (flow, uid) in creation order *)
Record xstate := mkX { x_st : mstate; x_uid : nat; x_out : list (Z * ctx) (* reversed *); x_act : list (string * nat) }.

Definition the_reserved (f : string) : reserved :=
  mkReserved (VStr f) (VStr "(uid)") (VStr "(src)") (VStr "(head)") (VStr "(hier)").

(* does the caller's `match FlowStarted(<call arguments>)` accept the callee's FlowStarted event?
   (the real matcher, Val.Match, on the two argument dicts) *)
Definition started_ok (pattern received : ctx) : bool :=
  match score_c (VDict pattern) (VDict received) with RYes _ => true | _ => false end.

Definition is_activate (fm : form) : bool := match fm with FActivate => true | _ => false end.

(* does the FlowStarted match of this call form carry the call arguments? (read from the
   current expansion.py by translator/gen_c08.py) *)
Definition match_with_args (fm : form) : bool :=
  match fm with
  | FActivate => started_match_call_args_activate
  | _ => started_match_call_args_start
  end.

(* `activate f(..)` when the flow already has activated reference instances
   (_process_internal_events_without_default_matchers + _get_reference_activated_flow_instance):
   if one has the same parameters no instance is created; the reference instance's FlowStarted
   event (its own `arguments`, flow_instance_uid := the new uid) is sent to the caller, which
   proceeds iff its FlowStarted match accepts it.  None = not this path (ordinary start). *)
Inductive reuse_result := RKeyError | RStuck | RContinue.

Definition reuse_activated (fm : form) (f : string) (fd : flowdef) (R : reserved)
           (d : list (string * cexpr)) (i : nat) (X : xstate) : option reuse_result :=
  if negb (is_activate fm) then None else
  match eval_ctx (x_st X) i with
  | None => None
  | Some ec =>
      let ev := start_event_args R true (eval_args cexpr ceval ec d) in
      let insts := filter (fun fu => String.eqb (fst fu) f) (x_act X) in
      match find_reference cexpr ceval pyeqb (f_params fd) ev
                           (map (fun fu => (true, m_args (x_st X) (snd fu))) insts) 0 with
      | None => Some RKeyError
      | Some None => None
      | Some (Some n) =>
          match nth_error insts n with
          | None => None
          | Some fu =>
              let pat := started_pattern (match_with_args fm) R (eval_args cexpr ceval ec d) in
              let rcv := out_event_args (r_instance_uid R) (r_flow_id R) (m_args (x_st X) (snd fu))
                                        [("flow_instance_uid", r_instance_uid R)] in
              Some (if started_ok pat rcv then RContinue else RStuck)
          end
      end
  end.

Fixpoint exec (fuel : nat) (P : prog) (X : xstate) (i : nat) (body : list stmt) : xstate * outcome :=
  match fuel with
  | O => (X, OFuel)
  | S fuel' =>
      match body with
      | [] => (X, ODone)
      | s :: rest =>
          match s with
          | SAssign x e =>
              match step cexpr ceval (x_st X) (OAssign cexpr i x e) with
              | Ok st' => exec fuel' P (mkX st' (x_uid X) (x_out X) (x_act X)) i rest
              | Err _ => (X, OFailed)
              end
          | SGlobal x =>
              match step cexpr ceval (x_st X) (OGlobal cexpr i x) with
              | Ok st' => exec fuel' P (mkX st' (x_uid X) (x_out X) (x_act X)) i rest
              | Err _ => (X, OFailed)
              end
          | SEcho t kvs =>
              match eval_ctx (x_st X) i with
              | Some ec => exec fuel' P (mkX (x_st X) (x_uid X) ((t, eval_args cexpr ceval ec kvs) :: x_out X) (x_act X)) i rest
              | None => (X, OFailed)
              end
          | SReturn e =>
              match step cexpr ceval (x_st X) (OReturn cexpr i e) with
              | Ok st' => (mkX st' (x_uid X) (x_out X) (x_act X), OReturned)
              | Err _ => (X, OFailed)
              end
          | SWait => (X, OWaiting)
          | SIfPos x body' =>
              match eval_ctx (x_st X) i with
              | Some ec =>
                  match ceval ec (CVar x) with
                  | VInt z => if (z >? 0)%Z then exec fuel' P X i (body' ++ rest) else exec fuel' P X i rest
                  | _ => (X, OFailed)
                  end
              | None => (X, OFailed)
              end
          | SCall fm f args ret =>
              match aget f P with
              | None => (X, OFailed)
              | Some fd =>
                  let callee := x_uid X in
                  let R := the_reserved f in
                  let d := parse_args cexpr args 0 [] in
                  match reuse_activated fm f fd R d i X with
                  | Some r => match r with
                              | RKeyError => (X, OCrash)
                              | RStuck => (X, OStuck)
                              | RContinue => exec fuel' P X i rest
                              end
                  | None =>
                  match step cexpr ceval (x_st X)
                             (OStart cexpr i callee (f_params fd) (f_rets fd) R (is_activate fm) d) with
                  | Err ETooMany => (X, OCrash)
                  | Err _ => (X, OFailed)
                  | Ok st1 =>
                      (* the callee runs until it finishes or waits; only then is its
                         FlowStarted event matched by the caller *)
                      let acts := if is_activate fm then (x_act X ++ [(f, callee)])%list else x_act X in
                      let '(X2, out) := exec fuel' P (mkX st1 (S (x_uid X)) (x_out X) acts) callee (f_body fd) in
                      match out with
                      | OCrash => (X2, OCrash)
                      | OFuel => (X2, OFuel)
                      | _ =>
                          match eval_ctx (x_st X2) i with
                          | None => (X2, OFailed)
                          | Some ec2 =>
                              (* the match pattern is evaluated when the event arrives *)
                              let pat := started_pattern (match_with_args fm) R (eval_args cexpr ceval ec2 d) in
                              let rcv := started_args (r_instance_uid R) (r_flow_id R) (m_args (x_st X2) callee) in
                              if negb (started_ok pat rcv) then (X2, OStuck) else
                              match out with
                              | OStuck => (X2, OStuck)
                              | OFailed => (X2, OFailed)
                              | OWaiting =>
                                  match fm with
                                  | FAwait => (X2, OWaiting)
                                  | _ => exec fuel' P X2 i rest
                                  end
                              | _ =>
                                  match fm, ret with
                                  | FAwait, Some x =>
                                      match step cexpr ceval (x_st X2)
                                                 (OAwaitAssign cexpr i callee (r_instance_uid R) (r_flow_id R) x) with
                                      | Ok st3 => exec fuel' P (mkX st3 (x_uid X2) (x_out X2) (x_act X2)) i rest
                                      | Err _ => (X2, OFailed)
                                      end
                                  | _, _ => exec fuel' P X2 i rest
                                  end
                              end
                          end
                      end
                  end
                  end
              end
          end
      end
  end.

Definition is_public (k : string) : bool := negb (Bind.prefixb "_" k).
Definition public (c : ctx) : ctx := filter (fun kv => is_public (fst kv)) c.

(* final context of every instance, in creation order (keys not starting with `_`) *)
Definition final_ctxs (X : xstate) : list ctx :=
  map (fun u => public (ctx_of (x_st X) u)) (seq 0 (x_uid X)).

Definition final_globals (X : xstate) : ctx :=
  filter (fun kv => mem (fst kv) ["g"; "h"]) (m_gctx (x_st X)).

Definition run_full (P : prog) : list (Z * ctx) * outcome * list ctx * ctx :=
  match aget "main" P with
  | None => ([], OFailed, [], [])
  | Some fd =>
      let '(X, out) := exec 400 P (mkX m_init 1 [] []) 0 (f_body fd) in
      (rev (x_out X), out, final_ctxs X, final_globals X)
  end.

Definition run_prog (P : prog) : list (Z * ctx) * outcome :=
  let '(es, out, _, _) := run_full P in (es, out).

Definition echo_eqb (a b : Z * ctx) : bool := Z.eqb (fst a) (fst b) && ctx_eqb (snd a) (snd b).

Fixpoint list_eqb (a b : list (Z * ctx)) : bool :=
  match a, b with
  | [], [] => true
  | x :: a', y :: b' => echo_eqb x y && list_eqb a' b'
  | _, _ => false
  end.

Fixpoint remove_first (x : Z * ctx) (l : list (Z * ctx)) : option (list (Z * ctx)) :=
  match l with
  | [] => None
  | y :: r => if echo_eqb x y then Some r
              else match remove_first x r with Some r' => Some (y :: r') | None => None end
  end.

Fixpoint perm_eqb (a b : list (Z * ctx)) : bool :=
  match a with
  | [] => match b with [] => true | _ => false end
  | x :: a' => match remove_first x b with Some b' => perm_eqb a' b' | None => false end
  end.

Fixpoint ctxs_eqb (a b : list ctx) : bool :=
  match a, b with
  | [], [] => true
  | x :: a', y :: b' => ctx_eqb x y && ctxs_eqb a' b'
  | _, _ => false
  end.

(* one end-to-end case: program, compare echoes in order?, echoes observed on the
   implementation (None = not observable: the run raised), outcome of `main` observed,
   final contexts of all instances in creation order + the global context *)
Definition check_prog (c : prog * bool * option (list (Z * ctx)) * Z * option (list ctx * ctx)) : bool :=
  let '(P, ordered, echoes, oc, finals) := c in
  let '(es, out, fc, fg) := run_full P in
  Z.eqb (outcome_code out) oc
  && match echoes with
     | None => true
     | Some obs => if ordered then list_eqb es obs else perm_eqb es obs
     end
  && match finals with
     | None => true
     | Some (oc', og) => ctxs_eqb fc oc' && ctx_eqb fg og
     end.

(* sanity: `flow f $a $b=3` called as `$x = await f(10)`; f echoes and returns [$a,$b] *)
Example run_prog_sanity :
  run_prog
    [("f", mkFlow [mkParam "a" None; mkParam "b" (Some (CLit (VInt 3)))] []
             [SAssign "loc" (CLit (VInt 7)); SEcho 1 [("a", CVar "a"); ("b", CVar "b")];
              SReturn (Some (CList [CVar "a"; CVar "b"]))]);
     ("main", mkFlow [] []
             [SAssign "loc" (CLit (VInt 1)); SCall FAwait "f" [APos (CLit (VInt 10))] (Some "x");
              SEcho 2 [("x", CVar "x"); ("loc", CVar "loc")]; SWait])]
  = ([(1%Z, [("a", VInt 10); ("b", VInt 3)]); (2%Z, [("x", VList [VInt 10; VInt 3]); ("loc", VInt 1)])], OWaiting).
Proof. vm_compute. reflexivity. Qed.
