(* C07 - proofs about the head protocol (model in Groups.v).
   Main results:
     compile_ok        : compile never raises; the initial heads are one HMatch per member
     run_first_sat     : eval (fun _ => false) f = false -> run mt st f evs = first_sat mt f evs
     first_sat_at/never: what first_sat means, spelled out with firstn
     completes_iff / order_independent / ignored_event *)
From Coq Require Import List Bool Arith Lia Permutation.
From NG Require Import V2.Dnf V2.Dnf_proofs V2.Groups.
Import ListNotations.

(* ---------- find over seq ---------- *)
Lemma find_seq_shift (g : nat -> bool) (a len : nat) :
  find g (seq (S a) len) = option_map S (find (fun n => g (S n)) (seq a len)).
Proof.
  revert a. induction len as [|len IH]; intros a; simpl; [reflexivity|].
  destruct (g (S a)); [reflexivity|]. apply IH.
Qed.

Lemma find_seq_some (g : nat -> bool) (a len n : nat) :
  find g (seq a len) = Some n <->
  (a <= n < a + len /\ g n = true /\ forall m, a <= m < n -> g m = false).
Proof.
  revert a. induction len as [|len IH]; intros a; simpl.
  - split; [discriminate|]. intros [H _]. lia.
  - destruct (g a) eqn:Hga.
    + split.
      * intros H. inversion H; subst. repeat split; try lia; auto.
      * intros [Hr [Hgn Hlt]]. destruct (Nat.eq_dec a n) as [->|Hne]; [reflexivity|].
        assert (Hf : g a = false) by (apply Hlt; lia). congruence.
    + rewrite IH. split.
      * intros [Hr [Hgn Hlt]]. repeat split; try lia; auto.
        intros m Hm. destruct (Nat.eq_dec m a) as [->|Hne]; [exact Hga|]. apply Hlt. lia.
      * intros [Hr [Hgn Hlt]].
        assert (Hne : a <> n) by (intros ->; congruence).
        repeat split; try lia; auto. intros m Hm. apply Hlt. lia.
Qed.

Lemma find_seq_none (g : nat -> bool) (a len : nat) :
  find g (seq a len) = None <-> (forall m, a <= m < a + len -> g m = false).
Proof.
  split.
  - intros H m Hm. apply (find_none _ _ H). apply in_seq. lia.
  - intros H. destruct (find g (seq a len)) as [n|] eqn:Hf; [|reflexivity].
    apply find_seq_some in Hf. destruct Hf as [Hr [Hgn _]].
    rewrite (H n Hr) in Hgn. discriminate.
Qed.

Lemma find_ext {X} (g h : X -> bool) (l : list X) :
  (forall x, g x = h x) -> find g l = find h l.
Proof. intros H. induction l as [|x l IH]; simpl; [reflexivity|]. now rewrite H, IH. Qed.

Section Proofs.
  Variable A : Type.
  Variable E : Type.
  Variable mt : A -> E -> bool.

  Notation received := (received mt).
  Notation head := (@head A).

  (* ---------- compile ---------- *)
  Lemma nf_conj_fold (c : list A) : forall acc : list A,
    fold_left (fun acc0 e => cross acc0 (nf e)) (map Atom c) [acc] = [acc ++ c].
  Proof.
    induction c as [|a c IH]; intros acc; simpl.
    - now rewrite app_nil_r.
    - rewrite IH. now rewrite <- app_assoc.
  Qed.

  Lemma nf_conj (c : list A) : nf (And (map Atom c)) = [c].
  Proof. simpl. apply nf_conj_fold. Qed.

  Lemma branch_of_group_conj (c : list A) :
    branch_of_group (And (map Atom c)) = Some (branch_of c).
  Proof.
    unfold branch_of_group. rewrite normalize_nf. cbn [bind].
    rewrite alts_of_dnf. cbn [bind]. rewrite nf_conj. reflexivity.
  Qed.

  (* the heads of alternative c after the events p *)
  Definition hd_of (p : list E) (a : A) : head :=
    if received p a then HWait else HMatch a.
  Definition B (p : list E) (c : list A) : bstate A := mkB (map (hd_of p) c) (length c).
  Definition St (p : list E) (alts : list (list A)) : gstate A := GActive (map (B p) alts).

  Lemma init_branch_of (c : list A) : init_branch (branch_of c) = B [] c.
  Proof.
    destruct c as [|a [|b c]]; reflexivity.
  Qed.

  Theorem compile_spec (st : stmt) (f : formula A) :
    compile st f = Some (prog_of st (nf f)).
  Proof.
    unfold compile. rewrite normalize_nf. cbn [bind]. rewrite alts_of_dnf. cbn [bind].
    assert (HM : mapM (fun c => branch_of_group (And (map Atom c))) (nf f)
                 = Some (map branch_of (nf f))).
    { apply mapM_some. apply Forall_forall. intros c _. apply branch_of_group_conj. }
    destruct st.
    - destruct (nf f) as [|c [|c' cs]] eqn:Hnf.
      + reflexivity.
      + rewrite branch_of_group_conj. reflexivity.
      + rewrite HM. reflexivity.
    - destruct (nf f) as [|c [|c' cs]] eqn:Hnf.
      + reflexivity.
      + rewrite branch_of_group_conj. reflexivity.
      + rewrite HM. reflexivity.
    - destruct (nf f) as [|c [|c' cs]]; rewrite HM; reflexivity.
  Qed.

  Lemma init_prog_of (st : stmt) (alts : list (list A)) : init (prog_of st alts) = St [] alts.
  Proof.
    assert (HI : init (POr (map branch_of alts)) = St [] alts).
    { unfold St. simpl. f_equal. rewrite map_map. apply map_ext. intros c. apply init_branch_of. }
    destruct st; simpl; try exact HI;
      destruct alts as [|c [|c' cs]]; try exact HI;
      unfold St; simpl; now rewrite init_branch_of.
  Qed.

  Theorem compile_ok (st : stmt) (f : formula A) :
    exists p, compile st f = Some p /\ init p = St [] (nf f).
  Proof.
    exists (prog_of st (nf f)). split; [apply compile_spec | apply init_prog_of].
  Qed.

  (* in every and-fork the WaitForHeads number is the number of member heads *)
  Lemma branch_of_wait (c ms : list A) (n : nat) :
    branch_of c = BAnd ms n -> ms = c /\ n = length c.
  Proof.
    destruct c as [|a [|b c]]; simpl; intros H; inversion H; auto.
  Qed.

  (* ---------- one event ---------- *)
  Lemma received_app (p : list E) (e : E) (a : A) :
    received (p ++ [e]) a = received p a || mt a e.
  Proof. unfold Groups.received. rewrite existsb_app. simpl. now rewrite orb_false_r. Qed.

  Lemma adv_hd (p : list E) (e : E) (a : A) :
    adv_head mt e (hd_of p a) = hd_of (p ++ [e]) a.
  Proof.
    unfold hd_of. rewrite received_app. destruct (received p a); simpl; [reflexivity|].
    destruct (mt a e); reflexivity.
  Qed.

  Lemma adv_B (p : list E) (e : E) (c : list A) : adv_branch mt e (B p c) = B (p ++ [e]) c.
  Proof.
    unfold adv_branch, B. simpl. f_equal. rewrite map_map. apply map_ext. intros a. apply adv_hd.
  Qed.

  Lemma count_wait (q : list E) (c : list A) :
    length (filter is_wait (map (hd_of q) c)) = length (filter (received q) c).
  Proof.
    induction c as [|a c IH]; simpl; [reflexivity|].
    unfold hd_of at 1. destruct (received q a); simpl; now rewrite IH.
  Qed.

  Lemma filter_length_le {X} (g : X -> bool) (l : list X) : length (filter g l) <= length l.
  Proof. induction l as [|x l IH]; simpl; [lia|]. destruct (g x); simpl; lia. Qed.

  Lemma need_met {X} (g : X -> bool) (l : list X) :
    (length l <=? length (filter g l)) = forallb g l.
  Proof.
    induction l as [|x l IH]; [reflexivity|].
    cbn [filter forallb length]. destruct (g x); cbn [length andb].
    - exact IH.
    - apply Nat.leb_gt. pose proof (filter_length_le g l). lia.
  Qed.

  Lemma moved_B (p : list E) (e : E) (c : list A) :
    existsb (head_moves mt e) (map (hd_of p) c)
    = existsb (fun a => negb (received p a) && mt a e) c.
  Proof.
    induction c as [|a c IH]; simpl; [reflexivity|].
    rewrite IH. unfold hd_of at 1. destruct (received p a); reflexivity.
  Qed.

  Lemma passes_B (p : list E) (e : E) (c : list A) :
    forallb (received p) c = false ->
    passes mt e (B p c) = forallb (received (p ++ [e])) c.
  Proof.
    intros Hnot. unfold passes, B. cbn [b_heads b_need].
    rewrite moved_B.
    assert (Hadv : map (adv_head mt e) (map (hd_of p) c) = map (hd_of (p ++ [e])) c).
    { rewrite map_map. apply map_ext. intros a. apply adv_hd. }
    rewrite Hadv, count_wait, need_met.
    destruct (forallb (received (p ++ [e])) c) eqn:Hall; [|now rewrite andb_false_r].
    rewrite andb_true_r. apply existsb_exists.
    assert (Hex : exists a, In a c /\ received p a = false).
    { clear -Hnot. induction c as [|a c IH]; simpl in *; [discriminate|].
      destruct (received p a) eqn:Ha.
      - destruct (IH Hnot) as [x [Hx1 Hx2]]. exists x. auto.
      - exists a. auto. }
    destruct Hex as [a [Hin Hna]]. exists a. split; [exact Hin|].
    rewrite forallb_forall in Hall. specialize (Hall a Hin).
    rewrite received_app, Hna in Hall. simpl in Hall. now rewrite Hna, Hall.
  Qed.

  Lemma eval_dnf_false_all (s : A -> bool) (alts : list (list A)) :
    eval_dnf s alts = false -> forall c, In c alts -> forallb s c = false.
  Proof.
    unfold eval_dnf. intros H c Hc. destruct (forallb s c) eqn:Hf; [|reflexivity].
    assert (existsb (forallb s) alts = true) by (apply existsb_exists; eauto). congruence.
  Qed.

  Lemma deliver_St (p : list E) (e : E) (alts : list (list A)) :
    eval_dnf (received p) alts = false ->
    deliver mt (St p alts) e
    = if eval_dnf (received (p ++ [e])) alts then (GDone, true) else (St (p ++ [e]) alts, false).
  Proof.
    intros Hinv. unfold deliver, St.
    assert (Hex : existsb (passes mt e) (map (B p) alts) = eval_dnf (received (p ++ [e])) alts).
    { unfold eval_dnf. pose proof (eval_dnf_false_all _ _ Hinv) as Hall. clear Hinv.
      induction alts as [|c cs IH]; simpl; [reflexivity|].
      rewrite passes_B by (apply Hall; left; reflexivity).
      rewrite IH; [reflexivity|]. intros c' Hc'. apply Hall. right. exact Hc'. }
    rewrite Hex. destruct (eval_dnf (received (p ++ [e])) alts); [reflexivity|].
    f_equal. f_equal. rewrite map_map. apply map_ext. intros c. apply adv_B.
  Qed.

  (* ---------- the run ---------- *)
  Lemma run_from_St (alts : list (list A)) (r : list E) : forall (p : list E) (k : nat),
    eval_dnf (received p) alts = false ->
    run_from mt (St p alts) r k
    = match find (fun n => eval_dnf (received (p ++ firstn n r)) alts) (seq 1 (length r)) with
      | Some n => OAt (k + n)
      | None => ONever
      end.
  Proof.
    induction r as [|e r IH]; intros p k Hinv; [reflexivity|].
    cbn [run_from length seq find]. rewrite (deliver_St p e alts Hinv).
    cbn [firstn].
    destruct (eval_dnf (received (p ++ [e])) alts) eqn:Hsat.
    - now rewrite Nat.add_1_r.
    - rewrite (IH (p ++ [e]) (S k) Hsat). rewrite !find_seq_shift.
      match goal with
      | |- match option_map S ?x with _ => _ end
           = match option_map S (option_map S ?y) with _ => _ end =>
          assert (Hxy : x = y)
      end.
      { apply find_ext. intros n. rewrite <- app_assoc. reflexivity. }
      rewrite Hxy.
      match goal with
      | |- context [option_map S (option_map S ?y)] => destruct y as [n|]
      end; simpl; [|reflexivity].
      f_equal. lia.
  Qed.

  (* eval only looks at the assignment pointwise *)
  Lemma eval_ext (s s' : A -> bool) (f : formula A) :
    (forall a, s a = s' a) -> eval s f = eval s' f.
  Proof.
    intros H. induction f as [a | l IH | l IH] using formula_ind'; simpl.
    - apply H.
    - induction IH as [|x xs Hx _ IHxs]; simpl; [reflexivity|]. now rewrite Hx, IHxs.
    - induction IH as [|x xs Hx _ IHxs]; simpl; [reflexivity|]. now rewrite Hx, IHxs.
  Qed.

  (* THE protocol theorem: a group statement completes exactly at the first moment the
     events received since it became active satisfy the formula *)
  Theorem run_first_sat (st : stmt) (f : formula A) (evs : list E) :
    eval (fun _ => false) f = false ->
    run mt st f evs = first_sat mt f evs.
  Proof.
    intros H0. unfold run, first_sat.
    destruct (compile_ok st f) as [p [Hc Hi]]. rewrite Hc, Hi.
    rewrite run_from_St.
    - match goal with
      | |- match ?x with _ => _ end = match ?y with _ => _ end => assert (Hxy : x = y)
      end.
      { apply find_ext. intros n. simpl. apply nf_eval. }
      rewrite Hxy. destruct (find _ _); reflexivity.
    - rewrite nf_eval. exact H0.
  Qed.

  Theorem run_no_error (st : stmt) (f : formula A) (evs : list E) : run mt st f evs <> OErr.
  Proof.
    unfold run. destruct (compile_ok st f) as [p [Hc Hi]]. rewrite Hc.
    clear. generalize 0. generalize (init p). induction evs as [|e r IH]; intros s k; simpl.
    - discriminate.
    - destruct (deliver mt s e) as [s' d]. destruct d; [discriminate|apply IH].
  Qed.

  (* ---------- what first_sat means ---------- *)
  Theorem first_sat_at (f : formula A) (evs : list E) (n : nat) :
    first_sat mt f evs = OAt n <->
    (1 <= n <= length evs
     /\ eval (received (firstn n evs)) f = true
     /\ forall m, 1 <= m < n -> eval (received (firstn m evs)) f = false).
  Proof.
    unfold first_sat.
    destruct (find (fun n0 => eval (received (firstn n0 evs)) f) (seq 1 (length evs))) as [n'|] eqn:Hf.
    - split.
      + intros H. inversion H; subst. apply find_seq_some in Hf.
        destruct Hf as [Hr [Hs Hlt]]. repeat split; try lia; auto.
      + intros [Hr [Hs Hlt]]. f_equal.
        assert (Hf' : find (fun n0 => eval (received (firstn n0 evs)) f) (seq 1 (length evs)) = Some n).
        { apply find_seq_some. repeat split; try lia; auto. }
        congruence.
    - split; [discriminate|]. intros [Hr [Hs Hlt]].
      rewrite find_seq_none in Hf. rewrite Hf in Hs by lia. discriminate.
  Qed.

  Theorem first_sat_never (f : formula A) (evs : list E) :
    first_sat mt f evs = ONever <->
    (forall m, 1 <= m <= length evs -> eval (received (firstn m evs)) f = false).
  Proof.
    unfold first_sat.
    destruct (find (fun n0 => eval (received (firstn n0 evs)) f) (seq 1 (length evs))) as [n'|] eqn:Hf.
    - split; [discriminate|]. intros H. apply find_seq_some in Hf.
      destruct Hf as [Hr [Hs _]]. rewrite H in Hs by lia. discriminate.
    - split; [|reflexivity]. intros _ m Hm. rewrite find_seq_none in Hf. apply Hf. lia.
  Qed.

  Lemma first_sat_not_err (f : formula A) (evs : list E) : first_sat mt f evs <> OErr.
  Proof. unfold first_sat. destruct (find _ _); discriminate. Qed.

  (* ---------- monotonicity, order independence ---------- *)
  Lemma eval_mono (s s' : A -> bool) (f : formula A) :
    (forall a, s a = true -> s' a = true) -> eval s f = true -> eval s' f = true.
  Proof.
    intros H. induction f as [a | l IH | l IH] using formula_ind'; simpl.
    - apply H.
    - induction IH as [|x xs Hx _ IHxs]; simpl; [auto|].
      intros Hb. apply andb_true_iff in Hb. destruct Hb as [H1 H2].
      rewrite (Hx H1). simpl. apply IHxs. exact H2.
    - induction IH as [|x xs Hx _ IHxs]; simpl; [auto|].
      intros Hb. apply orb_true_iff in Hb. destruct Hb as [H1|H2].
      + now rewrite (Hx H1).
      + rewrite (IHxs H2). apply orb_true_r.
  Qed.

  Lemma received_firstn_mono (evs : list E) (n : nat) (a : A) :
    received (firstn n evs) a = true -> received evs a = true.
  Proof.
    unfold Groups.received. intros H. apply existsb_exists in H. destruct H as [e [Hin He]].
    apply existsb_exists. exists e. split; [|exact He].
    rewrite <- (firstn_skipn n evs). apply in_or_app. left. exact Hin.
  Qed.

  (* whether the statement is complete after all the events depends only on the SET received *)
  Theorem completes_iff (st : stmt) (f : formula A) (evs : list E) :
    eval (fun _ => false) f = false ->
    ((exists n, run mt st f evs = OAt n) <-> eval (received evs) f = true).
  Proof.
    intros H0. rewrite (run_first_sat st f evs H0). split.
    - intros [n Hn]. apply first_sat_at in Hn. destruct Hn as [_ [Hs _]].
      eapply eval_mono; [|exact Hs]. intros a. apply received_firstn_mono.
    - intros Hs. destruct (first_sat mt f evs) as [| |n] eqn:Hfs.
      + exfalso. eapply first_sat_not_err. exact Hfs.
      + exfalso. rewrite first_sat_never in Hfs.
        destruct evs as [|e r].
        * simpl in Hs. rewrite (eval_ext _ (fun _ => false)) in Hs by reflexivity. congruence.
        * specialize (Hfs (length (e :: r))). rewrite firstn_all in Hfs.
          rewrite Hfs in Hs; [discriminate|]. simpl. lia.
      + eauto.
  Qed.

  Lemma received_perm (evs evs' : list E) (a : A) :
    Permutation evs evs' -> received evs a = received evs' a.
  Proof.
    unfold Groups.received. induction 1 as [|x l l' _ IH|x y l|l l' l'' _ IH1 _ IH2]; simpl.
    - reflexivity.
    - now rewrite IH.
    - destruct (mt a x), (mt a y); reflexivity.
    - now rewrite IH1.
  Qed.

  Theorem order_independent (st : stmt) (f : formula A) (evs evs' : list E) :
    eval (fun _ => false) f = false ->
    Permutation evs evs' ->
    ((exists n, run mt st f evs = OAt n) <-> (exists n, run mt st f evs' = OAt n)).
  Proof.
    intros H0 HP. rewrite !completes_iff by exact H0.
    rewrite (eval_ext (received evs) (received evs') f); [reflexivity|].
    intros a. apply received_perm. exact HP.
  Qed.

  (* ---------- irrelevant and repeated events are ignored ---------- *)
  Lemma eval_ext_atoms (s s' : A -> bool) (f : formula A) :
    (forall a, In a (atoms f) -> s a = s' a) -> eval s f = eval s' f.
  Proof.
    induction f as [a | l IH | l IH] using formula_ind'; simpl; intros H.
    - apply H. now left.
    - induction IH as [|x xs Hx _ IHxs]; simpl in *; [reflexivity|].
      rewrite Hx, IHxs; [reflexivity| |]; intros a Ha; apply H; apply in_or_app; auto.
    - induction IH as [|x xs Hx _ IHxs]; simpl in *; [reflexivity|].
      rewrite Hx, IHxs; [reflexivity| |]; intros a Ha; apply H; apply in_or_app; auto.
  Qed.

  (* shifting a completion step past an inserted event at position |p| *)
  Definition shift_after (k : nat) (o : outcome) : outcome :=
    match o with
    | OAt n => if n <=? k then OAt n else OAt (S n)
    | o => o
    end.

  Lemma received_insert (p r : list E) (x : E) (n : nat) (a : A) :
    (mt a x = true -> received p a = true) ->
    length p < n ->
    received (firstn n (p ++ x :: r)) a = received (firstn (n - 1) (p ++ r)) a.
  Proof.
    intros Hx Hn. unfold Groups.received in *.
    rewrite !firstn_app.
    rewrite (@firstn_all2 _ n p), (@firstn_all2 _ (n - 1) p) by lia.
    replace (n - length p) with (S (n - 1 - length p)) by lia. cbn [firstn].
    rewrite !existsb_app. cbn [existsb].
    destruct (mt a x) eqn:Hm; [|reflexivity].
    rewrite (Hx eq_refl). reflexivity.
  Qed.

  (* an event x that matches no atom of the group, or only atoms already received before it
     (a repeated event), does not change anything: the statement completes on the same event *)
  Theorem ignored_event (st : stmt) (f : formula A) (p r : list E) (x : E) :
    eval (fun _ => false) f = false ->
    (forall a, In a (atoms f) -> mt a x = true -> received p a = true) ->
    run mt st f (p ++ x :: r) = shift_after (length p) (run mt st f (p ++ r)).
  Proof.
    intros H0 Hx. rewrite !run_first_sat by exact H0.
    assert (Hlow : forall m, m <= length p ->
              eval (received (firstn m (p ++ x :: r))) f = eval (received (firstn m (p ++ r))) f).
    { intros m Hm. rewrite !firstn_app. replace (m - length p) with 0 by lia. reflexivity. }
    assert (Hhigh : forall m, length p < m ->
              eval (received (firstn m (p ++ x :: r))) f = eval (received (firstn (m - 1) (p ++ r))) f).
    { intros m Hm. apply eval_ext_atoms. intros a Ha. apply received_insert; auto. }
    assert (Hlen : length (p ++ x :: r) = S (length (p ++ r))).
    { rewrite !app_length. simpl. lia. }
    destruct (first_sat mt f (p ++ r)) as [| |n] eqn:Hfs.
    - exfalso. eapply first_sat_not_err. exact Hfs.
    - simpl. apply first_sat_never. intros m Hm. rewrite first_sat_never in Hfs.
      destruct (le_lt_dec m (length p)) as [Hle|Hgt].
      + rewrite Hlow by exact Hle. apply Hfs. rewrite app_length. lia.
      + rewrite Hhigh by exact Hgt.
        destruct (Nat.eq_dec m 1) as [->|Hm1].
        * simpl. rewrite (eval_ext _ (fun _ => false)) by reflexivity. exact H0.
        * apply Hfs. lia.
    - simpl. apply first_sat_at in Hfs. destruct Hfs as [Hr [Hs Hlt]].
      destruct (n <=? length p) eqn:Hnp.
      + apply Nat.leb_le in Hnp. apply first_sat_at. repeat split; try lia.
        * rewrite Hlow by exact Hnp. exact Hs.
        * intros m Hm. rewrite Hlow by lia. apply Hlt. lia.
      + apply Nat.leb_gt in Hnp. apply first_sat_at. repeat split; try lia.
        * rewrite Hhigh by lia. replace (S n - 1) with n by lia. exact Hs.
        * intros m Hm. destruct (le_lt_dec m (length p)) as [Hle|Hgt].
          -- rewrite Hlow by exact Hle. apply Hlt. lia.
          -- rewrite Hhigh by exact Hgt.
             destruct (Nat.eq_dec m 1) as [->|Hm1].
             ++ simpl. rewrite (eval_ext _ (fun _ => false)) by reflexivity. exact H0.
             ++ apply Hlt. lia.
  Qed.

  (* ---------- the protocol theorem spelled out without first_sat ---------- *)
  Theorem run_at_iff (st : stmt) (f : formula A) (evs : list E) (n : nat) :
    eval (fun _ => false) f = false ->
    (run mt st f evs = OAt n <->
     (1 <= n <= length evs
      /\ eval (received (firstn n evs)) f = true
      /\ forall m, m < n -> eval (received (firstn m evs)) f = false)).
  Proof.
    intros H0. rewrite (run_first_sat st f evs H0), first_sat_at. split.
    - intros [Hr [Hs Hlt]]. repeat split; try lia; auto. intros m Hm.
      destruct m as [|m].
      + simpl. rewrite (eval_ext _ (fun _ => false)) by reflexivity. exact H0.
      + apply Hlt. lia.
    - intros [Hr [Hs Hlt]]. repeat split; try lia; auto. intros m Hm. apply Hlt. lia.
  Qed.

  Theorem run_never_iff (st : stmt) (f : formula A) (evs : list E) :
    eval (fun _ => false) f = false ->
    (run mt st f evs = ONever <->
     (forall m, m <= length evs -> eval (received (firstn m evs)) f = false)).
  Proof.
    intros H0. rewrite (run_first_sat st f evs H0), first_sat_never. split.
    - intros H m Hm. destruct m as [|m].
      + simpl. rewrite (eval_ext _ (fun _ => false)) by reflexivity. exact H0.
      + apply H. lia.
    - intros H m Hm. apply H. lia.
  Qed.

End Proofs.
