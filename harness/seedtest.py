"""Evaluate seeded changes: harness/seedtest.py <PID> <worktree> [change dirs under <worktree>/out ...]
For each change: demo on clean tree / patched tree, then VERIF_REPO=<worktree> ./check PID on the patched tree.
Stores /verif/seeded/<PID>-<name>/ with patch.diff, demo.py, meta.json (+ coordinator confirmation)."""
import json
import os
import shutil
import subprocess
import sys

VERIF = os.path.dirname(os.path.dirname(os.path.abspath(__file__)))


def sh(cmd, cwd=None, env=None, timeout=3600):
    e = dict(os.environ)
    e.update(env or {})
    p = subprocess.run(cmd, cwd=cwd, env=e, shell=True, stdout=subprocess.PIPE, stderr=subprocess.STDOUT, text=True, timeout=timeout)
    return p.returncode, p.stdout


def main():
    pid, wt = sys.argv[1].upper(), sys.argv[2]
    names = sys.argv[3:] or sorted(d for d in os.listdir(os.path.join(wt, "out")) if os.path.isdir(os.path.join(wt, "out", d)) and os.path.exists(os.path.join(wt, "out", d, "patch.diff")))
    env = {"PYTHONPATH": wt, "PYTHONHASHSEED": "0"}
    sh("git checkout -- .", cwd=wt)
    for n in names:
        d = os.path.join(wt, "out", n)
        rc_clean, _ = sh(f"timeout 600 /venv/bin/python {d}/demo.py", cwd=wt, env=env)
        rc_apply, out = sh(f"git apply {d}/patch.diff", cwd=wt)
        if rc_apply != 0:
            print(n, "PATCH DOES NOT APPLY", out[-300:])
            continue
        rc_pat, _ = sh(f"timeout 600 /venv/bin/python {d}/demo.py", cwd=wt, env=env)
        evp = os.path.join(VERIF, "evidence", f"{pid}.json")
        bak = open(evp).read() if os.path.exists(evp) else None
        rc_chk, out = sh(f"timeout 2400 ./check {pid}", cwd=VERIF, env={"VERIF_REPO": wt})
        if bak is not None:  # the evidence file committed must come from a run against /repo itself
            open(evp, "w").write(bak)
        sh("git checkout -- .", cwd=wt)
        lines = [l for l in out.splitlines() if l.startswith(("VIOLATION", "KNOWN-FINDING"))]
        viol = [l for l in lines if l.startswith("VIOLATION")]
        concrete = [l for l in viol if "no-failing-input-found" not in l]
        verdict = "caught-with-replay" if concrete else ("caught-no-failing-input" if viol else "MISSED")
        print(f"{pid} {n}: demo clean={rc_clean} patched={rc_pat} check rc={rc_chk} -> {verdict}", flush=True)
        for l in viol[:3]:
            print("    ", l[:200])
        dst = os.path.join(VERIF, "seeded", f"{pid}-{n.replace('change_', '')}")
        os.makedirs(dst, exist_ok=True)
        for f in ("patch.diff", "demo.py", "meta.json"):
            if os.path.exists(os.path.join(d, f)):
                shutil.copy(os.path.join(d, f), dst)
        mp = os.path.join(dst, "meta.json")
        try:
            meta = json.load(open(mp))
        except Exception:
            meta = {}
        meta["confirmed_by_coordinator"] = {"demo_clean_exit": rc_clean, "demo_patched_exit": rc_pat,
                                            "check_cmd": f"VERIF_REPO=<worktree with patch> ./check {pid}", "check_exit": rc_chk,
                                            "check_lines": viol[:5]}
        meta["caught_by"] = verdict
        json.dump(meta, open(mp, "w"), indent=1)


if __name__ == "__main__":
    main()
