(* C12 (Colang 2.x) - the label declarations under which the modelled expansions (Expand.v) are
   typed (Typed.v): the state of a head arriving behind a generated label is a function of the
   label's name - of its last three spath components (kind, index, sub-kind) and of the spath of
   the construct it belongs to.  Definitions only. *)
From Coq Require Import List String Ascii Bool Arith.
From NG Require Import V2.ClosedAst V2.Closed V2.Typed V2.Expand.
Import ListNotations.
Open Scope string_scope.
Open Scope list_scope.
Open Scope nat_scope.

(* the state in which an and-group of matches named by path q runs: q ends with [tag; i],
   tag 6 = branch of a match/start or-structure at p, 7 = branch of an await or-structure at p
   (its scope is open), 8 = not inside an or-structure, 9 = trigger of case i of the when at p *)
Definition ctx_of (q : spath) : option state :=
  match rev q with
  | i :: t :: rp =>
      let p := rev rp in
      if t =? 6 then Some ([], [or_F false p])
      else if t =? 7 then Some ([or_S true p], [or_F true p])
      else if t =? 8 then Some ([], [])
      else if t =? 9 then Some ([wn_S p], [cs_F p i])
      else None
  | _ => None
  end.

Definition st_of (p : spath) (a b c : nat) : option state :=
  if a =? 10 then Some ([], [])                                   (* if: else body, end *)
  else if a =? 12 then Some ([], [])                              (* while: begin, end *)
  else if a =? 14 then                                            (* and-group: failure, end, event i *)
    (if (c =? 1) || (c =? 2) || (c =? 3)
     then match ctx_of p with Some (sc, ct) => Some (sc, gr_F p :: ct) | None => None end
     else None)
  else if a =? 16 then                                            (* or-structure: failure, end, branch i *)
    (if (c =? 1) || (c =? 2) || (c =? 3) then Some ([], [or_F false p]) else None)
  else if a =? 17 then                                            (* await or-structure: its scope is open *)
    (if (c =? 1) || (c =? 2) || (c =? 3) then Some ([or_S true p], [or_F true p]) else None)
  else if a =? 20 then                                            (* when *)
    (if c =? 2 then Some ([wn_S p], [])                           (*   else label: scope still open *)
     else if (c =? 3) || (c =? 4) then Some ([], []) else None)   (*   else statement, end *)
  else if a =? 30 then                                            (* case b of a when *)
    (if c =? 0 then Some ([wn_S p], [])                           (*   init *)
     else if (c =? 1) || (c =? 3) || (c =? 4) then Some ([wn_S p], [cs_F p b]) else None)
  else None.

Definition state_of (pi : spath) : option state :=
  match rev pi with
  | c :: b :: a :: rp => st_of (rev rp) a b c
  | _ => None
  end.

Definition Gam (l : string) (st : state) : Prop := exists pi, l = enc pi /\ state_of pi = Some st.

(* statement boundaries: a head is there with no open scope and no failure handler, or not at all *)
Definition boundary (c : option state) : Prop := c = None \/ c = Some ([], []).

(* a blocking element / abort in state st may jump to the top failure handler: it must be declared
   with exactly that state *)
Definition handler_ok (st : state) : Prop :=
  match snd st with [] => True | l :: _ => Gam l st end.

Definition cb_ok (cb : cb_t) : Prop :=
  match cb with Some (a, b) => Gam a ([], []) /\ Gam b ([], []) | None => True end.
