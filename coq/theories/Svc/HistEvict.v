(* C15 - why the repair keeps, per key, one entry PER MESSAGE LIST: a repair that only verifies
   the message list on a hit but keeps a single entry per key (a store evicts whatever else
   was stored under that key) still lets one conversation influence another - by eviction.
   Witness (vm_compute), key and conversions of the current source:
     conversation 0:  "x" -> reply "R";   later "more"
     conversation 1:  "x:R" -> an exception reply (invisible in the key), stored under the key
                      "x:R" = key of conversation 0's history [user x, assistant R]. *)
From Coq Require Import List String Ascii Bool Arith NArith.
From NG Require Import Gen.C15Consts Svc.HistKey Svc.HistCache Svc.HistRun.
Import ListNotations.
Open Scope string_scope.
Open Scope list_scope.

Definition entry_c := entry ascii bytes etok.

Definition store_evict (c : cache_c) (ms : list (msg ascii)) (ev : list etok) : cache_c :=
  Entry ascii bytes etok (key_now ms) ms ev
  :: filter (fun e : entry_c => negb (bytes_eqb (e_key _ _ _ e) (key_now ms))) c.

(* one request with the verified lookup and the evicting store *)
Definition serve_evict (c : cache_c) (ms : list (msg ascii)) (nw : list etok) (r : msg ascii)
  : cache_c * list etok :=
  let ev := events_for_c true c ms in (store_evict c (ms ++ [r]) (ev ++ nw), ev).

Definition ev_x : list (msg ascii) := [mk (RUser, "x")].
Definition reply_R : msg ascii := mk (RAssistant, "R").
Definition new_R : list etok := [TX 1; tS "R"].
Definition ev_xR : list (msg ascii) := [mk (RUser, "x:R")].
Definition reply_exc : msg ascii := mk (ROther 0, "blocked").
Definition new_exc : list etok := [TX 2].
Definition req2 : list (msg ascii) := ev_x ++ [reply_R] ++ [mk (RUser, "more")].

Definition cache_alone : cache_c := fst (serve_evict [] ev_x new_R reply_R).
Definition cache_shared : cache_c := fst (serve_evict cache_alone ev_xR new_exc reply_exc).

Lemma evicting_store_refuted :
  key_now (ev_xR ++ [reply_exc]) = key_now (ev_x ++ [reply_R]) /\
  events_for_c true cache_shared req2 <> events_for_c true cache_alone req2.
Proof. split. vm_compute. reflexivity. vm_compute. discriminate. Qed.

(* with the store of the patch (nothing is evicted) the same run is harmless *)
Example keeping_store_harmless :
  let c1 := fst (serve_c true [] ev_x new_R reply_R) in
  let c2 := fst (serve_c true c1 ev_xR new_exc reply_exc) in
  events_for_c true c2 req2 = events_for_c true c1 req2.
Proof. vm_compute. reflexivity. Qed.

Eval vm_compute in (map show_tok (events_for_c true cache_shared req2), map show_tok (events_for_c true cache_alone req2)).
