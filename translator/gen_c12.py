"""Translator for C12 (T-tie): which element classes / SpecOp operations the CURRENT
statemachine.slide() treats as primitive, and which constructs the CURRENT
expansion.expand_elements() dispatches on.  Read with Python's `ast`, fail-closed.

Emits coq/theories/Gen/C12Consts.v:
    slide_classes      classes tested by `isinstance(element, X)` in the if/elif chain of slide()
    slide_sliding_ops  SpecOp.op values slide() itself steps over ("send", "_new_action_instance")
    expand_ops         SpecOp.op values expand_elements() rewrites
    expand_classes     statement classes expand_elements() rewrites or patches
    slide_ignores_unknown  the final else of slide()'s dispatch is exactly `head.position += 1`
"""
from __future__ import annotations

import ast
import os

REPO = os.environ.get("VERIF_REPO", "/repo")
SM = "nemoguardrails/colang/v2_x/runtime/statemachine.py"
EX = "nemoguardrails/colang/v2_x/lang/expansion.py"


class TranslatorError(Exception):
    pass


def _func(rel, name):
    path = os.path.join(REPO, rel)
    with open(path, encoding="utf-8") as f:
        tree = ast.parse(f.read(), filename=path)
    for node in tree.body:
        if isinstance(node, ast.FunctionDef) and node.name == name:
            return node
    raise TranslatorError(f"{rel}: function {name} not found")


def _isinstance_classes(test, var):
    """Class names X of `isinstance(var, X)` (or an `or` of such tests)."""
    if isinstance(test, ast.BoolOp) and isinstance(test.op, ast.Or):
        out = []
        for v in test.values:
            out += _isinstance_classes(v, var)
        return out
    if (isinstance(test, ast.Call) and isinstance(test.func, ast.Name) and test.func.id == "isinstance"
            and len(test.args) == 2 and isinstance(test.args[0], ast.Name) and test.args[0].id == var
            and isinstance(test.args[1], ast.Name)):
        return [test.args[1].id]
    raise TranslatorError(f"unexpected test in element dispatch: {ast.dump(test)[:200]}")


def _op_tests(ifnode, var):
    """ops of a chain `if var.op == "a": ... elif var.op == "b": ... [else: ...]`."""
    ops = []
    node = ifnode
    while True:
        t = node.test
        if not (isinstance(t, ast.Compare) and len(t.ops) == 1 and isinstance(t.ops[0], ast.Eq)
                and isinstance(t.left, ast.Attribute) and t.left.attr == "op"
                and isinstance(t.left.value, ast.Name) and t.left.value.id == var
                and isinstance(t.comparators[0], ast.Constant) and isinstance(t.comparators[0].value, str)):
            raise TranslatorError(f"unexpected SpecOp.op test: {ast.dump(t)[:200]}")
        ops.append(t.comparators[0].value)
        if len(node.orelse) == 1 and isinstance(node.orelse[0], ast.If):
            node = node.orelse[0]
        else:
            return ops, node.orelse


def _chain(first_if, var):
    """[(classes, body)] of an isinstance if/elif chain, and the final else body."""
    out = []
    node = first_if
    while True:
        out.append((_isinstance_classes(node.test, var), node.body))
        if len(node.orelse) == 1 and isinstance(node.orelse[0], ast.If):
            node = node.orelse[0]
        else:
            return out, node.orelse


def slide_dispatch():
    fn = _func(SM, "slide")
    loops = [n for n in fn.body if isinstance(n, ast.While)]
    if len(loops) != 1:
        raise TranslatorError("slide(): expected exactly one top-level while loop")
    chains = [n for n in loops[0].body if isinstance(n, ast.If) and isinstance(n.test, ast.Call)
              and getattr(n.test.func, "id", None) == "isinstance"]
    if len(chains) != 1:
        raise TranslatorError("slide(): expected exactly one isinstance dispatch chain")
    chain, final_else = _chain(chains[0], "element")
    classes = []
    sliding_ops = None
    for cls, body in chain:
        classes += cls
        if cls == ["SpecOp"]:
            ifs = [n for n in body if isinstance(n, ast.If)]
            if len(ifs) != 1:
                raise TranslatorError("slide(): SpecOp branch is not a single op dispatch")
            sliding_ops, other = _op_tests(ifs[0], "element")
            if not (len(other) >= 1 and isinstance(other[-1], ast.Break)):
                raise TranslatorError("slide(): SpecOp else-branch no longer stops the head (break)")
    if sliding_ops is None:
        raise TranslatorError("slide(): no SpecOp branch")
    if len(set(classes)) != len(classes):
        raise TranslatorError("slide(): a class is dispatched twice")
    # the final else must be the "ignore unknown element" step: exactly `head.position += 1`
    ignores = (len(final_else) == 1 and isinstance(final_else[0], ast.AugAssign)
               and isinstance(final_else[0].op, ast.Add)
               and ast.unparse(final_else[0].target) == "head.position"
               and isinstance(final_else[0].value, ast.Constant) and final_else[0].value.value == 1)
    return classes, sliding_ops, ignores


def expand_dispatch():
    fn = _func(EX, "expand_elements")
    found = []
    for node in ast.walk(fn):
        if (isinstance(node, ast.If) and isinstance(node.test, ast.Call)
                and getattr(node.test.func, "id", None) == "isinstance"
                and isinstance(node.test.args[0], ast.Name) and node.test.args[0].id == "element"
                and isinstance(node.test.args[1], ast.Name) and node.test.args[1].id == "SpecOp"):
            found.append(node)
    if len(found) != 1:
        raise TranslatorError("expand_elements(): expected one dispatch chain starting with SpecOp")
    chain, _ = _chain(found[0], "element")
    classes, ops = [], None
    for cls, body in chain:
        if cls == ["SpecOp"]:
            ifs = [n for n in body if isinstance(n, ast.If)]
            if len(ifs) != 1:
                raise TranslatorError("expand_elements(): SpecOp branch is not a single op dispatch")
            ops, _ = _op_tests(ifs[0], "element")
        else:
            classes += cls
    if ops is None:
        raise TranslatorError("expand_elements(): no SpecOp branch")
    return classes, ops


def consts():
    sc, so, ign = slide_dispatch()
    ec, eo = expand_dispatch()
    return {"slide_classes": sc, "slide_sliding_ops": so, "expand_classes": ec, "expand_ops": eo,
            "slide_ignores_unknown": ign}


def _coq_str_list(xs):
    for x in xs:
        if not all(32 <= ord(c) < 127 and c != '"' for c in x):
            raise TranslatorError(f"unprintable name {x!r}")
    return "[" + "; ".join('"%s"' % x for x in xs) + "]"


def emit():
    c = consts()
    lines = [
        "(* GENERATED by translator/gen_c12.py from the current source of",
        "   %s (slide) and %s (expand_elements). Do not edit. *)" % (SM, EX),
        "From Coq Require Import List String.",
        "Import ListNotations.",
        "Open Scope string_scope.",
        "",
    ]
    for k in ("slide_classes", "slide_sliding_ops", "expand_classes", "expand_ops"):
        lines.append(f"Definition {k} : list string := {_coq_str_list(c[k])}.")
    lines.append("(* the final else of the dispatch chain is exactly `head.position += 1` *)")
    lines.append("Definition slide_ignores_unknown : bool := %s." % ("true" if c["slide_ignores_unknown"] else "false"))
    return "\n".join(lines) + "\n"


GENERATORS = {"C12Consts": emit}

if __name__ == "__main__":
    print(emit())
