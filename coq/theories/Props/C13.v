(* C13 - Parsing ignores meaningless layout and reports every bad file as a parsing error.
   Property theorems only; every proof is `exact <lemma>`; Print Assumptions beneath each.

   PARTIAL BY NATURE.  Proved here, about executable models tied to the source on every run:
     (a) the error-wrapping contract of the two loaders, for EVERY outcome of the parser
         (an oracle: returns, or raises an object with arbitrary classes/line/column/str),
         with the except clauses and the formatter's shape read from the current source;
     (b) the layout layer of Colang 2.x (lexing of _NEWLINE / blanks / comments as declared
         in colang.lark + Lark's Indenter algorithm): the token stream handed to the LALR
         parser - _NEWLINE/_INDENT/_DEDENT structure, brackets, content tokens, and the
         indenter's own errors - is unchanged by blank lines, trailing blanks, end-of-line
         comments and uniform scaling of the indentation by any k > 0, in any combination;
     (c) the line pre-processing of the Colang 1.0 parser (strip / skip / count blanks).
   NOT proved (explored by the timeout-guarded differential and hostile corpus of
   harness/c13.py): that the LALR parser + transformer and the 1 900-line Colang 1.0 parser
   are functions of (b)/(c) only, that they terminate, and what they raise.  In particular
   for Colang 1.0 only order-preservation of the indentation numbers is proved for scaling
   (C13_v1_layout_scale_partial): the parser adds constants to them in places. *)
From Coq Require Import ZArith NArith List String Bool Relations.
From NG Require Import Gen.C13Consts Svc.ParseWrap Svc.ParseWrap_proofs Svc.Indent Svc.Indent_proofs
                       Svc.V1Lines Svc.V1Lines_proofs.
Import ListNotations.
Open Scope string_scope.

(* (T) the except clauses and the formatter of the CURRENT source satisfy the decidable
   sufficient condition: each handler raises ColangParsingError with the file path in its
   message, `except Exception` is present, and a handler that calls the formatter has the
   defensive formatter. Fails to check on the pinned, unrepaired code. *)
Theorem C13_wrapper_source_ok :
  cfg_ok handlers_path_now fmt_now = true /\ cfg_ok handlers_content_now fmt_now = true.
Proof. exact (conj eq_refl eq_refl). Qed.
Print Assumptions C13_wrapper_source_ok.

(* for every parser outcome (any Exception subclass with any attributes) and any file
   content, from_path's loader and from_content yield success or ColangParsingError whose
   message contains the file's path / "main.co" - never another exception *)
Theorem C13_wrapper_total :
  forall path version o lines,
    (forall e, o = PRaise e -> isinstance e "Exception" = true) ->
    good path (wrap handlers_path_now fmt_now path version o lines) /\
    good content_file_name (wrap handlers_content_now fmt_now content_file_name version o lines).
Proof.
  exact (fun path version o lines H =>
           conj (wrapper_total handlers_path_now fmt_now (proj1 C13_wrapper_source_ok) path version o lines H)
                (wrapper_total handlers_content_now fmt_now (proj2 C13_wrapper_source_ok) content_file_name version o lines H)).
Qed.
Print Assumptions C13_wrapper_total.

(* regression documentation: the faithful model of the PINNED code (handlers_orig, fmt_orig)
   refutes the statement - AttributeError (no `.line`), TypeError (`line=None`),
   IndexError (line beyond the last line) from from_path; anything from from_content *)
Theorem C13_wrapper_refuted :
  exists hs fc path version o lines,
    hs = handlers_orig /\ fc = fmt_orig /\
    (forall e, o = PRaise e -> isinstance e "Exception" = true) /\
    ~ good path (wrap hs fc path version o lines).
Proof. exact wrapper_refuted. Qed.
Print Assumptions C13_wrapper_refuted.

Theorem C13_wrapper_refuted_shapes :
  (exists o lines, (forall e, o = PRaise e -> isinstance e "Exception" = true) /\
       wrap handlers_orig fmt_orig "/cfg/bad.co" "2.x" o lines = LEscape (EscPy AttributeError)) /\
  (exists o lines, (forall e, o = PRaise e -> isinstance e "Exception" = true) /\
       wrap handlers_orig fmt_orig "/cfg/bad.co" "2.x" o lines = LEscape (EscPy TypeError)) /\
  (exists o lines, (forall e, o = PRaise e -> isinstance e "Exception" = true) /\
       wrap handlers_orig fmt_orig "/cfg/bad.co" "2.x" o lines = LEscape (EscPy IndexError)) /\
  (exists o lines, (forall e, o = PRaise e -> isinstance e "Exception" = true) /\
       wrap handlers_content_orig fmt_orig "main.co" "2.x" o lines = LEscape EscOriginal).
Proof. exact wrapper_refuted_pinned. Qed.
Print Assumptions C13_wrapper_refuted_shapes.

(* ---- layout, Colang 2.x: `layout` = what the LALR parser is fed for a file ---- *)

Theorem C13_layout_blank :
  forall s s', blank_edit s s' ->
    layout ignore_tab_now tab_len_now s' = layout ignore_tab_now tab_len_now s.
Proof. exact (layout_blank ignore_tab_now tab_len_now). Qed.
Print Assumptions C13_layout_blank.

Theorem C13_layout_trailing_ws :
  forall s s', trail_edit s s' ->
    layout ignore_tab_now tab_len_now s' = layout ignore_tab_now tab_len_now s.
Proof. exact (layout_trailing_ws ignore_tab_now tab_len_now). Qed.
Print Assumptions C13_layout_trailing_ws.

(* trailing TABS: harmless iff the grammar ignores tabs between tokens; the pinned grammar
   (`%ignore " "` only) does not, see C13_layout_trailing_tab_refuted *)
Theorem C13_layout_trailing_tabs :
  ignore_tab_now = true ->
  forall s s', trail_ws_edit s s' ->
    layout ignore_tab_now tab_len_now s' = layout ignore_tab_now tab_len_now s.
Proof. exact (fun H s s' => layout_trailing_tabs_cond ignore_tab_now tab_len_now s s' H). Qed.
Print Assumptions C13_layout_trailing_tabs.

Theorem C13_layout_trailing_tab_refuted :
  exists T s s', trail_ws_edit s s' /\ layout false T s <> LexError /\ layout false T s' = LexError.
Proof. exact layout_trailing_tab_refuted. Qed.
Print Assumptions C13_layout_trailing_tab_refuted.

Theorem C13_layout_comment :
  forall s s', comment_edit s s' ->
    layout ignore_tab_now tab_len_now s' = layout ignore_tab_now tab_len_now s.
Proof. exact (layout_comment ignore_tab_now tab_len_now). Qed.
Print Assumptions C13_layout_comment.

Theorem C13_layout_scale :
  forall k s, (0 < k)%nat ->
    layout ignore_tab_now tab_len_now (scale k s) = layout ignore_tab_now tab_len_now s.
Proof. exact (layout_scale ignore_tab_now tab_len_now). Qed.
Print Assumptions C13_layout_scale.

(* any number of these edits, in any order *)
Theorem C13_layout_edits :
  forall s s', clos_refl_trans _ layout_edit s s' ->
    layout ignore_tab_now tab_len_now s' = layout ignore_tab_now tab_len_now s.
Proof. exact (layout_edits ignore_tab_now tab_len_now). Qed.
Print Assumptions C13_layout_edits.

(* ---- layout, Colang 1.0: the numbered lines the parser works on ---- *)

Theorem C13_v1_source_ok : v1_strip_skip_indent = true.
Proof. exact eq_refl. Qed.
Print Assumptions C13_v1_source_ok.

Theorem C13_v1_layout_blank :
  forall a ws b, forallb is_wsc ws = true ->
    map unnumbered (pre (a ++ ws :: b)) = map unnumbered (pre (a ++ b)).
Proof. exact v1_blank. Qed.
Print Assumptions C13_v1_layout_blank.

Theorem C13_v1_layout_trailing_ws :
  forall ls ls',
    Forall2 (fun l l' => exists ws, forallb is_wsc ws = true /\ l' = (l ++ ws)%list) ls ls' ->
    pre ls' = pre ls.
Proof. exact v1_trailing_ws. Qed.
Print Assumptions C13_v1_layout_trailing_ws.

(* PARTIAL: scaling multiplies every recorded indentation by k and changes nothing else, and
   for k > 0 preserves every comparison between two of them.  Missing for the full claim:
   the parser behind get_numbered_lines is not modelled (it also adds constants). *)
Theorem C13_v1_layout_scale_partial :
  (forall k ls, pre (map (scale_line k) ls) = map (scale_ind k) (pre ls)) /\
  (forall k, (0 < k)%nat -> forall x y : nline,
      (n_ind (scale_ind k x) ?= n_ind (scale_ind k y))%N = (n_ind x ?= n_ind y)%N).
Proof. exact (conj v1_scale v1_scale_order). Qed.
Print Assumptions C13_v1_layout_scale_partial.

(* ---- Colang 1.0 with the continuation join of get_numbered_lines (trailing backslash / " or"):
   `pre_c`; None = the IndexError the code raises on a dangling " or" / lone backslash ---- *)

(* trailing whitespace on ANY physical lines, continuation lines included, changes nothing *)
Theorem C13_v1_layout_trailing_ws_cont :
  forall ls ls',
    Forall2 (fun l l' => exists ws, forallb is_wsc ws = true /\ l' = (l ++ ws)%list) ls ls' ->
    pre_c ls' = pre_c ls.
Proof. exact v1_trailing_ws_cont. Qed.
Print Assumptions C13_v1_layout_trailing_ws_cont.

(* PARTIAL (as above): scaling multiplies the recorded indentation of every statement by k and
   changes nothing else - the join ignores the indentation of continuation lines *)
Theorem C13_v1_layout_scale_cont_partial :
  forall k ls, pre_c (map (scale_line k) ls) = option_map (map (scale_ind k)) (pre_c ls).
Proof. exact v1_scale_cont. Qed.
Print Assumptions C13_v1_layout_scale_cont_partial.

(* without continuation markers the two models coincide, so C13_v1_layout_blank applies there;
   a blank line INSIDE a continued statement is appended by the join and is not harmless *)
Theorem C13_v1_cont_agrees :
  forall ls, forallb no_cont ls = true -> pre_c ls = Some (pre ls).
Proof. exact v1_cont_agrees. Qed.
Print Assumptions C13_v1_cont_agrees.

(* ---- Colang 1.0: the pending line comment (it becomes the `instructions` of the generate_value
   action of `$var = ...`, so it belongs to what the file parses to).  A blank line anywhere -
   also between the comment and its statement, or between two comment lines - changes neither
   the statements nor the comment attached to each of them (continuation-free core). ---- *)
Theorem C13_v1_layout_blank_comment :
  forall a ws b, forallb is_wsc ws = true ->
    map unnumbered_cm (pre_cm (a ++ ws :: b)) = map unnumbered_cm (pre_cm (a ++ b)).
Proof. exact v1_blank_cm. Qed.
Print Assumptions C13_v1_layout_blank_comment.

Theorem C13_v1_comment_model_extends : forall ls, map fst (pre_cm ls) = pre ls.
Proof. exact pre_cm_fst. Qed.
Print Assumptions C13_v1_comment_model_extends.

