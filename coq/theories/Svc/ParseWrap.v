(* C13 (error path) - the error-wrapping contract of the configuration loaders.

   Model of
     nemoguardrails/rails/llm/config.py :: _parse_colang_files_recursively  (the try/except
         around parse_colang_file), RailsConfig.from_content (its call of parse_colang_file)
     nemoguardrails/colang/v2_x/lang/utils.py :: format_colang_parsing_error_message

   The parser itself (Lark LALR tables + transformer, the hand-written Colang 1.0 parser) is
   an ORACLE: it either returns or raises an exception object, of which the wrapper reads
   exactly: its classes (isinstance against the classes named in the except clauses), the
   attributes `line` and `column`, and str().  Python's semantics for what the formatter
   does with these is explicit: a missing attribute raises AttributeError, `None - 1` (or
   any non-int) raises TypeError, a list index outside [-n, n) raises IndexError and a
   negative index in range wraps around.

   The except clauses and the shape of the formatter are DATA (`handler`, `fmt_cfg`), read
   from the current source by translator/gen_c13.py into Gen/C13Consts.v; `handlers_orig`
   / `fmt_orig` below are the pinned, unrepaired code. *)
From Coq Require Import ZArith List String Bool Ascii.
Import ListNotations.
Open Scope string_scope.
Open Scope Z_scope.

(* value of an attribute as the formatter can observe it *)
Inductive attr :=
| AAbsent            (* the exception object has no such attribute *)
| ANone              (* attribute is None *)
| AInt (z : Z)       (* an int (bool counts as the int it is) *)
| AOther.            (* any other object (str, float, ...): arithmetic/indexing with it raises TypeError *)

Record exn := {
  e_isa : list string;   (* names of the classes the object is an instance of (its MRO) *)
  e_line : attr;
  e_column : attr;
  e_str : string         (* str(exception) *)
}.

Definition isinstance (e : exn) (cls : string) : bool := existsb (String.eqb cls) (e_isa e).

Inductive pyerr := AttributeError | TypeError | IndexError.

Inductive res (A : Type) := Val (a : A) | Err (k : pyerr).
Arguments Val {A} a.
Arguments Err {A} k.

(* ------------------------------------------------------------------------------------ *)
(* format_colang_parsing_error_message *)

Record fmt_cfg := {
  f_line_getattr : bool;  (* getattr(exception, "line", None) instead of exception.line *)
  f_line_guard : bool;    (* `if not isinstance(line, int) or not 1 <= line <= len(lines): return f"{exception}"` *)
  f_col_guard : bool      (* `if not isinstance(column, int) or column < 1: column = 1` *)
}.

Definition fmt_orig : fmt_cfg := {| f_line_getattr := false; f_line_guard := false; f_col_guard := false |}.
Definition fmt_defensive : fmt_cfg := {| f_line_getattr := true; f_line_guard := true; f_col_guard := true |}.

(* Python list indexing *)
Definition py_index (ls : list string) (i : Z) : option string :=
  let n := Z.of_nat (List.length ls) in
  if (0 <=? i) && (i <? n) then nth_error ls (Z.to_nat i)
  else if (- n <=? i) && (i <? 0) then nth_error ls (Z.to_nat (n + i))
  else None.

Fixpoint spaces (n : nat) : string :=
  match n with O => "" | S m => String " "%char (spaces m) end.

(* " " * k : the empty string for k <= 0 *)
Definition py_spaces (k : Z) : string := spaces (Z.to_nat k).

Definition nl : string := String (ascii_of_nat 10) "".

Definition get_line (c : fmt_cfg) (e : exn) : res attr :=
  match e_line e with
  | AAbsent => if f_line_getattr c then Val ANone else Err AttributeError
  | a => Val a
  end.

Definition line_usable (a : attr) (n : Z) : bool :=
  match a with AInt z => (1 <=? z) && (z <=? n) | _ => false end.

Definition get_column (c : fmt_cfg) (e : exn) : attr :=
  let raw := match e_column e with AAbsent => AInt 1 | a => a end in   (* getattr(exception, "column", 1) *)
  if f_col_guard c then
    match raw with AInt z => if z <? 1 then AInt 1 else AInt z | _ => AInt 1 end
  else raw.

(* `lines` is colang_content.splitlines() (the splitting itself is Python's) *)
Definition fmt (c : fmt_cfg) (e : exn) (lines : list string) : res string :=
  match get_line c e with
  | Err k => Err k
  | Val a =>
    if f_line_guard c && negb (line_usable a (Z.of_nat (List.length lines))) then Val (e_str e)
    else
      match a with
      | AInt z =>
        match py_index lines (z - 1) with
        | None => Err IndexError
        | Some l =>
          match get_column c e with
          | AInt col => Val (e_str e ++ ":" ++ nl ++ l ++ nl ++ py_spaces (col - 1) ++ "^")
          | _ => Err TypeError
          end
        end
      | _ => Err TypeError      (* None - 1, "3" - 1, lines[1.5] *)
      end
  end.

(* ------------------------------------------------------------------------------------ *)
(* the except clauses *)

Inductive tpart :=
| TLit (s : string)
| TPath                  (* {current_path}, or the constant file name of from_content *)
| TVersion               (* {colang_version} *)
| TOtherVar (name : string).

Record handler := {
  h_class : string;          (* except <h_class> as e *)
  h_raises : string;         (* the class raised in the handler body *)
  h_tpl : list tpart;        (* its message (f-string parts) *)
  h_fmt : bool               (* ... + format_colang_parsing_error_message(e, content) *)
}.

Definition cpe : string := "ColangParsingError".

Definition handlers_orig : list handler := [
  {| h_class := "ValueError"; h_raises := cpe;
     h_tpl := [TLit "Unsupported colang version "; TVersion; TLit " for file: "; TPath]; h_fmt := false |};
  {| h_class := "Exception"; h_raises := cpe;
     h_tpl := [TLit "Error while parsing Colang file: "; TPath; TLit nl]; h_fmt := true |}
].
(* pinned RailsConfig.from_content: parse_colang_file("main.co", ...) is not inside any try *)
Definition handlers_content_orig : list handler := [].

Definition render_part (path version : string) (p : tpart) : string :=
  match p with
  | TLit s => s
  | TPath => path
  | TVersion => version
  | TOtherVar _ => ""     (* contents unknown; never relied upon *)
  end.

Fixpoint render (path version : string) (t : list tpart) : string :=
  match t with
  | [] => ""
  | p :: r => render_part path version p ++ render path version r
  end.

Inductive outcome := POk | PRaise (e : exn).

Inductive escape :=
| EscOriginal              (* no except clause matches: the parser's exception propagates *)
| EscPy (k : pyerr)        (* an exception raised while building the message *)
| EscClass (cls : string). (* a handler raises something that is not the parsing error *)

Inductive load_res :=
| LOk
| LParsingError (msg : string)
| LEscape (x : escape).

Definition wrap (hs : list handler) (fc : fmt_cfg) (path version : string)
           (o : outcome) (lines : list string) : load_res :=
  match o with
  | POk => LOk
  | PRaise e =>
    match find (fun h => isinstance e (h_class h)) hs with
    | None => LEscape EscOriginal
    | Some h =>
      let base := render path version (h_tpl h) in
      let raise_ msg := if String.eqb (h_raises h) cpe then LParsingError msg else LEscape (EscClass (h_raises h)) in
      if h_fmt h then
        match fmt fc e lines with
        | Val m => raise_ (base ++ m)
        | Err k => LEscape (EscPy k)
        end
      else raise_ base
    end
  end.

(* "names the file" *)
Definition contains (p s : string) : Prop := exists a b, s = a ++ p ++ b.

(* the property: success, or the library's parsing error naming the file *)
Definition good (path : string) (r : load_res) : Prop :=
  match r with
  | LOk => True
  | LParsingError m => contains path m
  | LEscape _ => False
  end.

(* decidable sufficient condition on the data read from the source *)
Definition tpl_names_path (t : list tpart) : bool :=
  existsb (fun p => match p with TPath => true | _ => false end) t.

Definition handler_ok (fc : fmt_cfg) (h : handler) : bool :=
  String.eqb (h_raises h) cpe && tpl_names_path (h_tpl h)
  && (negb (h_fmt h) || (f_line_getattr fc && f_line_guard fc && f_col_guard fc)).

Definition cfg_ok (hs : list handler) (fc : fmt_cfg) : bool :=
  forallb (handler_ok fc) hs && existsb (fun h => String.eqb (h_class h) "Exception") hs.

(* sanity *)
Definition dedent_error : exn :=
  {| e_isa := ["DedentError"; "LarkError"; "Exception"; "BaseException"]; e_line := AAbsent; e_column := AAbsent;
     e_str := "Unexpected dedent to column 2. Expected dedent to 0" |}.
Definition unexpected_eof : exn :=
  {| e_isa := ["UnexpectedToken"; "ParseError"; "UnexpectedInput"; "LarkError"; "Exception"; "BaseException"];
     e_line := ANone; e_column := ANone; e_str := "Unexpected token Token('_DEDENT', '')" |}.
Definition beyond_last_line : exn :=
  {| e_isa := ["UnexpectedToken"; "Exception"]; e_line := AInt 4; e_column := AInt 1; e_str := "x" |}.

Example orig_dedent : wrap handlers_orig fmt_orig "/cfg/bad.co" "2.x" (PRaise dedent_error) ["flow main"; "    match A"; "  match B"]
                      = LEscape (EscPy AttributeError).
Proof. reflexivity. Qed.
Example orig_eof : wrap handlers_orig fmt_orig "/cfg/bad.co" "2.x" (PRaise unexpected_eof) ["flow main"; "  match (A"]
                   = LEscape (EscPy TypeError).
Proof. reflexivity. Qed.
Example orig_beyond : wrap handlers_orig fmt_orig "/cfg/bad.co" "2.x" (PRaise beyond_last_line) ["a"; "b"]
                      = LEscape (EscPy IndexError).
Proof. reflexivity. Qed.
Example defensive_dedent :
  wrap handlers_orig fmt_defensive "bad.co" "2.x" (PRaise dedent_error) ["flow main"]
  = LParsingError ("Error while parsing Colang file: bad.co" ++ nl ++ "Unexpected dedent to column 2. Expected dedent to 0").
Proof. reflexivity. Qed.
