(* C10 - termination of one `slide`, error isolation in `_advance_head_front`, the retry loop of
   `process_events`, and the activation/restart cascade of one `run_to_completion`.
   Focused models of nemoguardrails/colang/v2_x/runtime/statemachine.py (definitions only;
   proofs in Term_proofs.v / Cascade_proofs.v).

   Part 1: `slide` as a small-step function over the primitive element list of one flow,
           abstracted to what matters for termination and for where an exception can occur.
           Data (expression values, event arguments) is replaced by an oracle that says, for
           the k-th executed element, whether its expression is true / false / raises. *)
From Coq Require Import List Arith Bool Lia.
Import ListNotations.

Definition label := nat.
Definition flowid := nat.

(* why a head rests: BMatch = match on an external event (nothing inside the same run_to_completion
   can satisfy it); BAction = action send (the head is actionable and is advanced again by the outer
   loop of the same run); BMerge = MergeHeads *)
Inductive bkind := BMatch | BAction | BMerge.

Inductive elem : Type :=
| EBlock (k : bkind)              (* slide stops *)
| EWaitInt (started_making : bool) (* match on an internal event (FlowStarted/FlowFinished/...): slide stops;
                                      started_making = false for the expansion-internal matches (info["internal"]) *)
| EWaitHeads                      (* WaitForHeads: passes when enough heads arrived, else slide stops *)
| EJump (l : label) (cond : bool) (* Goto l; cond = false when the expression is the literal True *)
| ELabel (l : label) (new_inst : bool) (* Label; new_inst = the label `start_new_flow_instance` *)
| EStep                           (* Assignment / internal send / new action / Log / Print / Priority / Global /
                                     BeginScope / EndScope: falls through, may raise *)
| EStart (f : flowid) (act : bool)(* send StartFlow(flow_id = constant f, activated = act): falls through *)
| EFork (ls : list label)         (* ForkHead: this head becomes inactive, new heads at the labels *)
| EReturn
| EAbort
| ECatch (l : option label)       (* CatchPatternFailure: push (Some l) / pop (None) *)
| EBreak (l : option label).      (* Break / Continue *)

Inductive outcome := OTrue | OFalse | ORaise.

(* element_labels: built by last-wins update over the element list *)
Fixpoint label_pos_from (es : list elem) (i : nat) (l : label) (acc : option nat) : option nat :=
  match es with
  | [] => acc
  | ELabel l' _ :: es' => label_pos_from es' (S i) l (if Nat.eqb l l' then Some i else acc)
  | _ :: es' => label_pos_from es' (S i) l acc
  end.
Definition label_pos (es : list elem) (l : label) : option nat := label_pos_from es 0 l None.

Inductive stop : Type :=
| Blocked (pos : nat)                   (* head rests on a match / action / merge / unsatisfied WaitForHeads *)
| Forked (pos : nat) (targets : list nat)
| Ended                                 (* head.position >= len(elements): finished (or returned) *)
| Aborted                               (* `abort` without catch label: flow status STOPPING *)
| Raised (pos : nat)                    (* a Python exception left slide with the head at pos *)
| OutOfFuel.

Record sres := { s_stop : stop; s_steps : nat; s_catch : list label; s_starts : list (flowid * bool);
                 s_newinst : bool }.

Fixpoint all_some {A} (l : list (option A)) : option (list A) :=
  match l with
  | [] => Some []
  | None :: _ => None
  | Some a :: l' => match all_some l' with Some r => Some (a :: r) | None => None end
  end.

(* one executed element: either stop, or continue at a new position with a new catch stack *)
Inductive step1 : Type :=
| Cont (pos : nat) (cs : list label) (st : option (flowid * bool)) (ni : bool)
| Stop (s : stop).

Definition exec_elem (es : list elem) (o : outcome) (pos : nat) (cs : list label) (e : elem) : step1 :=
  match o with
  | ORaise => Stop (Raised pos)
  | _ =>
    match e with
    | EBlock _ => Stop (Blocked pos)
    | EWaitInt _ => Stop (Blocked pos)
    | EWaitHeads => match o with OTrue => Cont (S pos) cs None false | _ => Stop (Blocked pos) end
    | EJump l c =>
        let taken := if c then (match o with OTrue => true | _ => false end) else true in
        if taken then
          match label_pos es l with
          | Some i => Cont (S i) cs None false
          | None => Cont (S pos) cs None false        (* invalid label: warning, next element *)
          end
        else Cont (S pos) cs None false
    | ELabel _ ni => Cont (S pos) cs None ni
    | EStep => Cont (S pos) cs None false
    | EStart f a => Cont (S pos) cs (Some (f, a)) false
    | EFork ls =>
        match all_some (map (label_pos es) ls) with
        | Some ts => Stop (Forked pos ts)
        | None => Stop (Raised pos)                   (* KeyError on element_labels *)
        end
    | EReturn => Stop Ended
    | EAbort =>
        match cs with
        | [] => Stop Aborted
        | l :: _ => match label_pos es l with
                    | Some i => Cont (S i) cs None false
                    | None => Stop (Raised pos)
                    end
        end
    | ECatch (Some l) => Cont (S pos) (l :: cs) None false
    | ECatch None => match cs with
                     | [] => Stop (Raised pos)        (* pop from empty list *)
                     | _ :: cs' => Cont (S pos) cs' None false
                     end
    | EBreak None => Cont (S pos) cs None false
    | EBreak (Some l) => match label_pos es l with
                         | Some i => Cont (S i) cs None false
                         | None => Stop (Raised pos)
                         end
    end
  end.

(* `orc k` = outcome of the k-th executed element of this slide *)
Fixpoint slide_fuel (fuel : nat) (es : list elem) (orc : nat -> outcome) (k : nat) (pos : nat)
         (cs : list label) (starts : list (flowid * bool)) (ni : bool) : sres :=
  match fuel with
  | O => {| s_stop := OutOfFuel; s_steps := k; s_catch := cs; s_starts := starts; s_newinst := ni |}
  | S fuel' =>
    match nth_error es pos with
    | None => {| s_stop := Ended; s_steps := k; s_catch := cs; s_starts := starts; s_newinst := ni |}
    | Some e =>
      match exec_elem es (orc k) pos cs e with
      | Stop s => {| s_stop := s; s_steps := S k; s_catch := cs; s_starts := starts; s_newinst := ni |}
      | Cont pos' cs' st ni' =>
          slide_fuel fuel' es orc (S k) pos' cs'
                     (match st with Some x => starts ++ [x] | None => starts end) (ni || ni')
      end
    end
  end.

Definition slide (fuel : nat) (es : list elem) (orc : nat -> outcome) (pos : nat) (cs : list label) : sres :=
  slide_fuel fuel es orc 0 pos cs [] false.

(* ------------------------------------------------------------------------------------------ *)
(* The premise, intra-flow part: every cycle of the jump graph passes a blocking element.
   Decided like a bytecode verifier: a static catch-stack per position (`stk`) that every step of
   the model respects, and a ranking (`rank`) that strictly decreases along every step that the
   SAME slide can take.  Both are computed below and then CHECKED; the theorems only rely on the
   check. *)

Definition stk_at (stk : list (option (list label))) (p : nat) : option (list label) := nth p stk None.
Definition rank_at (r : list nat) (p : nat) : nat := nth p r 0.

Fixpoint eqb_labels (a b : list label) : bool :=
  match a, b with
  | [], [] => true
  | x :: a', y :: b' => Nat.eqb x y && eqb_labels a' b'
  | _, _ => false
  end.

(* configurations the same slide can continue with after executing the element at p *)
Definition conts (es : list elem) (s : list label) (p : nat) (e : elem) : list (nat * list label) :=
  flat_map (fun o => match exec_elem es o p s e with
                     | Cont p' s' _ _ => [(p', s')]
                     | Stop _ => []
                     end) [OTrue; OFalse].

(* where a head that stopped at p is advanced from later (`_advance_head_front`: position += 1;
   forked heads start behind their label with a copy of the stack; a head whose match FAILED or
   whose action lost the conflict resolution is moved to its innermost catch label first) *)
Definition catch_resume (es : list elem) (s : list label) : list (nat * list label) :=
  match s with
  | [] => []
  | l :: _ => match label_pos es l with Some i => [(S i, s)] | None => [] end
  end.

Definition resumes (es : list elem) (s : list label) (p : nat) (e : elem) : list (nat * list label) :=
  match e with
  | EBlock BMerge | EWaitHeads => [(S p, s)]
  | EBlock _ | EWaitInt _ => (S p, s) :: catch_resume es s
  | EFork ls => flat_map (fun l => match label_pos es l with Some i => [(S i, s)] | None => [] end) ls
  | _ => []
  end.

(* can the stop at this element be left again inside the same run_to_completion? *)
Definition wakes (e : elem) : bool :=
  match e with
  | EBlock BMatch => false
  | EBlock _ | EWaitInt _ | EWaitHeads | EFork _ => true
  | _ => false
  end.

(* through_int = false: steps of one slide; true: steps of one event cascade *)
Definition succ_cfg (through_int : bool) (es : list elem) (stk : list (option (list label))) (p : nat)
  : list (nat * list label) :=
  match nth_error es p, stk_at stk p with
  | Some e, Some s => conts es s p e ++ (if through_int && wakes e then resumes es s p e else [])
  | _, _ => []
  end.

Definition stk_ok (es : list elem) (stk : list (option (list label))) (q : nat) (s : list label) : bool :=
  Nat.leb (length es) q ||
  match stk_at stk q with Some s' => eqb_labels s' s | None => false end.

Definition check_pos (ti : bool) (es : list elem) (r : list nat) (stk : list (option (list label))) (p : nat) : bool :=
  match nth_error es p, stk_at stk p with
  | Some e, Some s =>
      Nat.leb (rank_at r p) (length es) &&
      forallb (fun qs => Nat.ltb (rank_at r (Nat.min (fst qs) (length es))) (rank_at r p)) (succ_cfg ti es stk p) &&
      forallb (fun qs => stk_ok es stk (fst qs) (snd qs)) (conts es s p e ++ resumes es s p e)
  | _, _ => true
  end.

Definition check_cert (ti : bool) (es : list elem) (r : list nat) (stk : list (option (list label))) : bool :=
  forallb (check_pos ti es r stk) (seq 0 (length es)).

(* ---- computing the static stacks: forward propagation from (0, []) until nothing changes *)
Fixpoint set_opt {A} (l : list (option A)) (n : nat) (a : A) : list (option A) :=
  match l, n with
  | [], _ => []
  | None :: l', O => Some a :: l'
  | x :: l', O => x :: l'
  | x :: l', S n' => x :: set_opt l' n' a
  end.

Definition stk_pass (es : list elem) (stk : list (option (list label))) : list (option (list label)) :=
  fold_left (fun st p =>
               match nth_error es p, stk_at st p with
               | Some e, Some s => fold_left (fun st' qs => set_opt st' (fst qs) (snd qs))
                                             (conts es s p e ++ resumes es s p e) st
               | _, _ => st
               end) (seq 0 (length es)) stk.

Definition count_some {A} (l : list (option A)) : nat :=
  length (filter (fun x => match x with Some _ => true | None => false end) l).

Fixpoint stk_iter (fuel : nat) (es : list elem) (stk : list (option (list label))) : list (option (list label)) :=
  match fuel with
  | O => stk
  | S f => let stk' := stk_pass es stk in
           if Nat.eqb (count_some stk') (count_some stk) then stk' else stk_iter f es stk'
  end.

Definition compute_stk (es : list elem) : list (option (list label)) :=
  stk_iter (S (length es)) es (Some [] :: repeat None (length es)).

(* ---- computing a ranking: reverse Gauss-Seidel relaxation of "longest path to a sink" *)
Definition lookup_rank (old acc : list nat) (p q len : nat) : nat :=
  let q := Nat.min q len in
  if Nat.ltb p q then nth (q - p - 1) acc 0 else nth q old 0.

Fixpoint gs_pass (sf : nat -> list nat) (old : list nat) (len : nat) (n : nat) (acc : list nat) : list nat :=
  (* n = number of positions still to process; current position p = n - 1; acc = ranks of p+1 .. len *)
  match n with
  | O => acc
  | S p =>
      let qs := sf p in
      let v := match qs with
               | [] => 0
               | _ => S (fold_left (fun m q => Nat.max m (lookup_rank old acc p q len)) qs 0)
               end in
      gs_pass sf old len p (v :: acc)
  end.

Fixpoint iter_rank (ti : bool) (fuel : nat) (es : list elem) (stk : list (option (list label))) (r : list nat) : list nat :=
  match fuel with
  | O => r
  | S f =>
      if check_cert ti es r stk then r
      else iter_rank ti f es stk
                     (gs_pass (fun p => map fst (succ_cfg ti es stk p)) r (length es) (length es) [0])
  end.

Definition compute_rank (ti : bool) (es : list elem) (stk : list (option (list label))) : list nat :=
  iter_rank ti (S (length es)) es stk (repeat 0 (S (length es))).

Definition guarded_flowb (es : list elem) : bool :=
  let stk := compute_stk es in check_cert false es (compute_rank false es stk) stk.

Definition program := list (list elem).
Definition guardedb (p : program) : bool := forallb guarded_flowb p.

(* sanity: `while c: match; step` is guarded, `while c: step` is not; an `abort` behind a popped
   catch label does not create a cycle *)
Example ex_loop_guarded :
  guarded_flowb [EWaitInt true; ELabel 0 false; EJump 1 true; EBlock BMatch; EStep; EJump 0 false; ELabel 1 false; EStep] = true.
Proof. reflexivity. Qed.
Example ex_loop_unguarded :
  guarded_flowb [EWaitInt true; ELabel 0 false; EJump 1 true; EStep; EJump 0 false; ELabel 1 false] = false.
Proof. reflexivity. Qed.
Example ex_catch_guarded :
  guarded_flowb [EWaitInt true; ECatch (Some 0); EBlock BMatch; EJump 1 false; ELabel 0 false; EWaitHeads; ECatch None;
                 EStep; EAbort; ELabel 1 false; ECatch None] = true.
Proof. reflexivity. Qed.
Example ex_slide_spins :
  s_stop (slide 1000 [EWaitInt true; ELabel 0 false; EJump 1 true; EStep; EJump 0 false; ELabel 1 false]
                (fun _ => OFalse) 1 []) = OutOfFuel.
Proof. reflexivity. Qed.
