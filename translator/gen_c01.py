"""Translator (T-tie) for C01/C02: the shipped Colang programs that implement the gates, as Coq data.

Runs the repository's OWN parsers on the CURRENT source tree ($VERIF_REPO or /repo):

  * Colang 1.0 (`parse_colang_file`, the flat element lists the v1 runtime executes) on
      nemoguardrails/rails/llm/llm_flows.co
      nemoguardrails/library/self_check/input_check/flows.v1.co
      nemoguardrails/library/self_check/output_check/flows.v1.co
    -> `list elem` per flow (type, relative offsets `_next/_next_else/_next_on_break`, guard
    expression strings, subflow names, created event types with their parameters);
  * Colang 2.x (`parse_colang_file(version="2.x")`) on
      nemoguardrails/colang/v2_x/library/guardrails.co
      nemoguardrails/library/self_check/{input_check,output_check}/flows.co
    -> statement trees (`list stmt`) of `_user_said`, `_bot_say`, `run input rails`,
    `run output rails`, and of the library rails `self check input` / `self check output`.

Output: coq/theories/Gen/C01Flows.v (types come from Pipe/FlowCheck.v).  Fail-closed: any
element type, key or shape outside the vocabulary below raises TranslatorError (the check then
reports the broken obligation `translator:C01Flows`).
"""
from __future__ import annotations

import os
import sys

REPO = os.environ.get("VERIF_REPO", "/repo")


class TranslatorError(Exception):
    pass


def coq_str(s) -> str:
    if not isinstance(s, str):
        raise TranslatorError(f"expected a string, got {s!r}")
    if any(ord(c) > 126 or (ord(c) < 32 and c != "\n") for c in s):
        raise TranslatorError(f"non-printable text {s!r}")
    return '"' + s.replace('"', '""') + '"'


def coq_Z(z) -> str:
    if isinstance(z, bool) or not isinstance(z, int):
        raise TranslatorError(f"expected an integer offset, got {z!r}")
    return f"({z})%Z" if z < 0 else f"{z}%Z"


def ident(name: str) -> str:
    out = "".join(c if c.isalnum() else "_" for c in name)
    return out.strip("_")


# ---------------------------------------------------------------------------------------
# Colang 1.0

IGNORABLE = {"_source_mapping", "_next_on_break", "_next_on_continue"}
KEYWORDS = {"meta", "set", "if", "while", "jump", "flow", "run_action", "check", "break", "continue", "stop",
            "branch", "any", "label", "event", "expect", "infer", "else", "elif"}


def _only(e, allowed, what):
    extra = set(e) - set(allowed) - IGNORABLE - {"_type"}
    if extra:
        raise TranslatorError(f"{what}: unexpected keys {sorted(extra)} in {e!r}")


def v1_elem(e: dict) -> str:
    t = e.get("_type")
    if t == "meta":
        _only(e, {"meta"}, "meta")
        return "EMeta"
    if t == "set":
        _only(e, {"key", "expression"}, "set")
        return f"(ESet {coq_str(e['key'])} {coq_str(e['expression'])})"
    if t == "if":
        _only(e, {"expression", "_next_else"}, "if")
        return f"(EIf {coq_str(e['expression'])} {coq_Z(e['_next_else'])})"
    if t == "while":
        _only(e, {"expression"}, "while")
        if "_next_on_break" not in e:
            raise TranslatorError("while without _next_on_break")
        return f"(EWhile {coq_str(e['expression'])} {coq_Z(e['_next_on_break'])})"
    if t == "jump":
        _only(e, {"_next"}, "jump")
        return f"(EJump {coq_Z(e['_next'])})"
    if t == "flow":
        _only(e, {"flow_name", "flow_parameters", "return_vars"}, "flow")
        if e.get("flow_parameters") or e.get("return_vars"):
            raise TranslatorError(f"subflow call with parameters/return vars: {e!r}")
        return f"(EFlow {coq_str(e['flow_name'])})"
    if t == "run_action":
        _only(e, {"action_name", "action_params", "action_result_key"}, "run_action")
        name = e["action_name"]
        params = e.get("action_params") or {}
        if name == "create_event":
            if set(params) != {"event"} or not isinstance(params["event"], dict):
                raise TranslatorError(f"create_event shape: {e!r}")
            ev = dict(params["event"])
            et = ev.pop("_type")
            kv = "; ".join(f"({coq_str(k)}, {coq_str(v)})" for k, v in ev.items())
            return f"(ECreate {coq_str(et)} [{kv}])"
        if name == "utter":
            if set(params) != {"value"}:
                raise TranslatorError(f"utter shape: {e!r}")
            return f"(EUtter {coq_str(params['value'])})"
        if params:
            raise TranslatorError(f"action with parameters in a gate flow: {e!r}")
        return f"(EAction {coq_str(name)} {coq_str(e.get('action_result_key') or '')})"
    if isinstance(t, str) and t not in KEYWORDS and t[:1].isupper():
        # an event match (UtteranceUserActionFinished, StartInputRails, BotMessage, UserIntent, ...)
        for k, v in e.items():
            if k in IGNORABLE or k == "_type":
                continue
            if not isinstance(v, (str, dict)):
                raise TranslatorError(f"event match with non-literal parameter: {e!r}")
        return f"(EMatch {coq_str(t)})"
    raise TranslatorError(f"unsupported Colang 1.0 element: {e!r}")


V1_FILES = [
    ("nemoguardrails/rails/llm/llm_flows.co",
     ["process user input", "run dialog rails", "generate user intent", "run input rails", "generate next step",
      "generate bot message", "process bot message", "run output rails"]),
    ("nemoguardrails/library/self_check/input_check/flows.v1.co", ["self check input"]),
    ("nemoguardrails/library/self_check/output_check/flows.v1.co", ["self check output"]),
]


def v1_flows():
    sys.path.insert(0, REPO)
    from nemoguardrails.colang import parse_colang_file

    out = []
    for rel, wanted in V1_FILES:
        path = os.path.join(REPO, rel)
        with open(path, encoding="utf-8") as f:
            parsed = parse_colang_file(os.path.basename(rel), f.read())
        flows = {fl["id"]: fl for fl in parsed["flows"]}
        for name in wanted:
            if name not in flows:
                raise TranslatorError(f"{rel}: flow `{name}` not found")
            out.append((name, [v1_elem(e) for e in flows[name]["elements"]]))
    return out


# ---------------------------------------------------------------------------------------
# Colang 2.x

V2_FLOWS = ["_user_said", "_bot_say", "run input rails", "run output rails"]


def _spec_target(spec):
    """(kind, name, member, args) of a plain Spec."""
    from nemoguardrails.colang.v2_x.lang.colang_ast import Spec, SpecType

    if not isinstance(spec, Spec):
        raise TranslatorError(f"spec groups are outside the vocabulary: {spec!r}")
    kind = {SpecType.FLOW: "flow", SpecType.ACTION: "action", SpecType.EVENT: "event"}.get(spec.spec_type)
    if kind is None:
        raise TranslatorError(f"spec type {spec.spec_type!r}")
    member = ""
    if spec.members:
        if len(spec.members) != 1:
            raise TranslatorError(f"member chain: {spec!r}")
        member = spec.members[0].name
    args = spec.arguments or {}
    for k, v in args.items():
        if not isinstance(v, str):
            raise TranslatorError(f"non-literal argument {k}={v!r}")
    return kind, spec.name or "", member, args


def _args(args):
    return "[" + "; ".join(f"({coq_str(k)}, {coq_str(v)})" for k, v in args.items()) + "]"


def v2_stmt(e) -> str | None:
    from nemoguardrails.colang.v2_x.lang.colang_ast import (
        Abort, Assignment, Global, If, Log, Return, SpecOp, When)

    if isinstance(e, dict):
        if e.get("_type") in ("doc_string_stmt", "stmt") and (e.get("_type") == "doc_string_stmt" or not e.get("elements")):
            return None
        raise TranslatorError(f"unsupported Colang 2 element {e!r}")
    if isinstance(e, SpecOp):
        kind, name, member, args = _spec_target(e.spec)
        if e.op == "match":
            return f"(SMatch {coq_str(name)} {coq_str(member)})"
        if e.op == "await":
            return f"(SAwait {coq_str(kind)} {coq_str(name)} {_args(args)})"
        if e.op == "send":
            return f"(SSend {coq_str(name)})"
        raise TranslatorError(f"spec op `{e.op}` outside the vocabulary")
    if isinstance(e, Global):
        return f"(SGlobal {coq_str(e.name.lstrip('$'))})"
    if isinstance(e, Assignment):
        return f"(SAssign {coq_str(e.key)} {coq_str(e.expression)})"
    if isinstance(e, Log):
        return "SLog"
    if isinstance(e, Abort):
        return "SAbort"
    if isinstance(e, Return):
        return "SReturn"
    if isinstance(e, If):
        return f"(SIf {coq_str(e.expression)} {v2_block(e.then_elements)} {v2_block(e.else_elements or [])})"
    if isinstance(e, When):
        if len(e.when_specs) != 1:
            raise TranslatorError("`when` with several cases is outside the vocabulary")
        kind, name, member, args = _spec_target(e.when_specs[0])
        if member:
            raise TranslatorError("`when` on an event member is outside the vocabulary")
        return (f"(SWhen {coq_str(kind)} {coq_str(name)} {_args(args)} {v2_block(e.then_elements[0])} "
                f"{v2_block(e.else_elements or [])})")
    raise TranslatorError(f"unsupported Colang 2 element {type(e).__name__}: {e!r}")


def v2_block(elements) -> str:
    items = [s for s in (v2_stmt(e) for e in elements) if s is not None]
    return "[" + "; ".join(items) + "]"


V2_FILES = [
    ("nemoguardrails/colang/v2_x/library/guardrails.co", "v2", V2_FLOWS),
    # the library rails whose Colang 1.0 twins are translated above
    ("nemoguardrails/library/self_check/input_check/flows.co", "v2lib", ["self check input"]),
    ("nemoguardrails/library/self_check/output_check/flows.co", "v2lib", ["self check output"]),
]


def v2_flows():
    sys.path.insert(0, REPO)
    from nemoguardrails.colang import parse_colang_file

    out = []
    for rel, prefix, wanted in V2_FILES:
        with open(os.path.join(REPO, rel), encoding="utf-8") as f:
            parsed = parse_colang_file(os.path.basename(rel), f.read(), version="2.x")
        flows = {}
        for fl in parsed["flows"]:
            if fl.name in flows:
                raise TranslatorError(f"duplicate flow {fl.name}")
            flows[fl.name] = fl
        for name in wanted:
            if name not in flows:
                raise TranslatorError(f"{rel}: flow `{name}` not found")
            fl = flows[name]
            els = list(fl.elements)
            # element 0 is the synthetic `match StartFlow(flow_id=<name>)`
            out.append((prefix, name, [p.name for p in fl.parameters], v2_block(els[1:])))
    return out


# ---------------------------------------------------------------------------------------

HEADER = """(* GENERATED by translator/gen_c01.py from the current source tree - do not edit.
   Colang 1.0: compiled flat elements of the gate flows of llm_flows.co and of the self check
   rails; Colang 2.x: statement trees of the guardrails library flows. *)
From Coq Require Import List String ZArith.
From NG Require Import Pipe.FlowCheck.
Import ListNotations.
Open Scope string_scope.
"""


def emit() -> str:
    lines = [HEADER]
    for name, elems in v1_flows():
        lines.append(f"Definition v1_{ident(name)} : list elem :=\n  [ " + ";\n    ".join(elems) + " ].\n")
    for prefix, name, params, block in v2_flows():
        lines.append(f"Definition {prefix}_{ident(name)}_params : list string := [" + "; ".join(coq_str(p) for p in params) + "].")
        lines.append(f"Definition {prefix}_{ident(name)} : list stmt :=\n  {block}.\n")
    return "\n".join(lines) + "\n"


GENERATORS = {"C01Flows": emit}

if __name__ == "__main__":
    print(emit())
