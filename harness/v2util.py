"""Helpers to drive the real Colang 2 interpreter (no repo change, no printing)."""
from __future__ import annotations

import sys

from harness import common as C

sys.path.insert(1, C.REPO)


def init_state(colang_content: str):
    from nemoguardrails.colang import parse_colang_file
    from nemoguardrails.colang.v2_x.runtime.flows import State
    from nemoguardrails.colang.v2_x.runtime.statemachine import initialize_state
    from nemoguardrails.utils import new_uuid  # noqa: F401
    from nemoguardrails.colang.v2_x.runtime.runtime import create_flow_configs_from_flow_list

    config = create_flow_configs_from_flow_list(
        parse_colang_file(filename="", content=colang_content, include_source_mapping=True, version="2.x")["flows"]
    )
    state = State(flow_states=[], flow_configs=config)
    initialize_state(state)
    return state


def start_main(state):
    from nemoguardrails.colang.v2_x.runtime.statemachine import InternalEvent, run_to_completion

    return run_to_completion(
        state, InternalEvent(name="StartFlow", arguments={"flow_id": "main"}, matching_scores=[])
    )


def step(state, event):
    from nemoguardrails.colang.v2_x.runtime.statemachine import run_to_completion

    return run_to_completion(state, event)


def out_types(state):
    return [e["type"] if isinstance(e, dict) else getattr(e, "name", None) for e in state.outgoing_events]
