(* Executable instances for the C14 correspondence check (harness/c14.py):
     check_interp  : V1.Interp.compute_next_steps (with the start-marking flag read from the
                     current source) against what the real compute_next_steps returned;
     check_spec    : V1.Structured.next_steps (the specification) against the same answer;
     check_compile : V1.Structured.compile_prog against the FlowConfigs built by the real parser
                     and RuntimeV1_0._load_flow_config.
   Nothing here is used by the theorems. *)
From Coq Require Import ZArith QArith List String Ascii Bool.
From NG Require Import Gen.C14Consts V1.Expr V1.Elems V1.Slide V1.Interp V1.Structured.
Import ListNotations.
Open Scope string_scope.
Open Scope list_scope.
Open Scope Z_scope.

Definition FUEL : nat := N.to_nat 30000%N.

Fixpoint list_eqb {A} (eqb : A -> A -> bool) (l m : list A) : bool :=
  match l, m with
  | [], [] => true
  | x :: l', y :: m' => eqb x y && list_eqb eqb l' m'
  | _, _ => false
  end.

Definition opt_eqb {A} (eqb : A -> A -> bool) (a b : option A) : bool :=
  match a, b with
  | Some x, Some y => eqb x y
  | None, None => true
  | _, _ => false
  end.

(* structural equality of values (True and 1 are different results) *)
Fixpoint value_eqb (a b : value) : bool :=
  match a, b with
  | VNone, VNone => true
  | VBool x, VBool y => Bool.eqb x y
  | VInt x, VInt y => x =? y
  | VStr s, VStr t => String.eqb s t
  | VList l, VList m =>
      (fix go (l m : list value) : bool :=
         match l, m with
         | [], [] => true
         | x :: l', y :: m' => value_eqb x y && go l' m'
         | _, _ => false
         end) l m
  | _, _ => false
  end.

Definition kv_eqb (a b : string * value) : bool :=
  String.eqb (fst a) (fst b) && value_eqb (snd a) (snd b).

Definition cmpop_eqb (a b : cmpop) : bool :=
  match a, b with
  | CEq, CEq | CNe, CNe | CLt, CLt | CLe, CLe | CGt, CGt | CGe, CGe => true
  | _, _ => false
  end.

Fixpoint expr_eqb (a b : expr) : bool :=
  match a, b with
  | ENone, ENone => true
  | EBool x, EBool y => Bool.eqb x y
  | EInt x, EInt y => x =? y
  | EStr x, EStr y => String.eqb x y
  | EVar x, EVar y => String.eqb x y
  | EListLit l, EListLit m =>
      (fix go (l m : list expr) : bool :=
         match l, m with
         | [], [] => true
         | x :: l', y :: m' => expr_eqb x y && go l' m'
         | _, _ => false
         end) l m
  | ENot x, ENot y => expr_eqb x y
  | ENeg x, ENeg y => expr_eqb x y
  | EAnd x1 x2, EAnd y1 y2 => expr_eqb x1 y1 && expr_eqb x2 y2
  | EOr x1 x2, EOr y1 y2 => expr_eqb x1 y1 && expr_eqb x2 y2
  | ECmp o x1 x2, ECmp p y1 y2 => cmpop_eqb o p && expr_eqb x1 y1 && expr_eqb x2 y2
  | EIsNone n x, EIsNone m y => Bool.eqb n m && expr_eqb x y
  | EAdd x1 x2, EAdd y1 y2 => expr_eqb x1 y1 && expr_eqb x2 y2
  | ESub x1 x2, ESub y1 y2 => expr_eqb x1 y1 && expr_eqb x2 y2
  | ELen x, ELen y => expr_eqb x y
  | EIndex x1 x2, EIndex y1 y2 => expr_eqb x1 y1 && expr_eqb x2 y2
  | _, _ => false
  end.

Definition elem_eqb (a b : elem) : bool :=
  match a, b with
  | LUser x, LUser y => String.eqb x y
  | LRun n v p k, LRun n' v' p' k' =>
      String.eqb n n' && String.eqb v v' && String.eqb p p' && opt_eqb String.eqb k k'
  | LEvent t ps, LEvent t' ps' => String.eqb t t' && list_eqb kv_eqb ps ps'
  | LSet k e n, LSet k' e' n' => String.eqb k k' && expr_eqb e e' && (n =? n')
  | LIf e n, LIf e' n' => expr_eqb e e' && (n =? n')
  | LWhile e n b, LWhile e' n' b' => expr_eqb e e' && (n =? n') && (b =? b')
  | LJump n a l, LJump n' a' l' => (n =? n') && Bool.eqb a a' && opt_eqb String.eqb l l'
  | LBreak n, LBreak n' => n =? n'
  | LContinue n, LContinue n' => n =? n'
  | LCheck e n, LCheck e' n' => expr_eqb e e' && (n =? n')
  | LStop, LStop => true
  | LFlow f, LFlow f' => String.eqb f f'
  | LBranch h, LBranch h' => list_eqb Z.eqb h h'
  | LMeta, LMeta => true
  | _, _ => false
  end.

Definition config_eqb (a b : flow_config) : bool :=
  String.eqb (fc_id a) (fc_id b) && list_eqb elem_eqb (fc_elems a) (fc_elems b) &&
  Qeq_bool (fc_priority a) (fc_priority b) && Bool.eqb (fc_extension a) (fc_extension b) &&
  Bool.eqb (fc_interruptible a) (fc_interruptible b) && Bool.eqb (fc_subflow a) (fc_subflow b) &&
  Bool.eqb (fc_multiple a) (fc_multiple b) && list_eqb String.eqb (fc_triggers a) (fc_triggers b).

Definition out_eqb (a b : out_event) : bool :=
  match a, b with
  | OCtx d, OCtx d' => list_eqb kv_eqb d d'
  | OBot i, OBot i' => String.eqb i i'
  | OAct n p k, OAct n' p' k' => String.eqb n n' && String.eqb p p' && opt_eqb String.eqb k k'
  | _, _ => false
  end.

(* what the implementation answered: a list of next steps, or an exception *)
Inductive expect := XSteps (l : list out_event) | XRaise.

Definition agrees (r : res (list out_event)) (x : expect) : bool :=
  match r, x with
  | Ok l, XSteps l' => list_eqb out_eqb l l'
  | Exc, XRaise => true
  | _, _ => false
  end.

Definition opts_now : opts := {| o_mark := start_marks_completed; o_guard := call_records_active_only |}.

Definition interp_now (cs : configs) (h : list event) : res (list out_event) :=
  compute_next_steps opts_now FUEL cs h.

Definition check_interp (c : configs * list event * expect) : bool :=
  let '(cs, h, x) := c in agrees (interp_now cs h) x.

Definition check_spec (c : prog * list event * expect) : bool :=
  let '(p, h, x) := c in agrees (next_steps FUEL p h) x.

(* both at once (one Coq run per group of cases); the harness re-runs the two checks above
   separately on the cases where this one fails *)
Definition check_both (c : prog * configs * list event * expect) : bool :=
  let '(p, cs, h, x) := c in agrees (interp_now cs h) x && agrees (next_steps FUEL p h) x.

Definition check_compile (c : prog * configs) : bool :=
  let '(p, cs) := c in wf_prog p && list_eqb config_eqb (compile_prog p) cs.
