"""Translator (T-tie) for C05: constants and small structural facts of
statemachine.py::_resolve_action_conflicts, read from the CURRENT source with Python's `ast`
and emitted as coq/theories/Gen/C05Consts.v.

Extracted (fail-closed: anything not found in the expected shape raises TranslatorError):
  * the single-candidate shortcut `if len(actionable_heads) == 1:` and the multi-candidate
    branch `elif len(actionable_heads) > 1:`                          -> shortcut_len, multi_min
  * inside the per-group loop the assignment
        ordered_heads = sorted(group, key=lambda head: head.matching_scores
                               + [<PAD>] * (max_length - len(head.matching_scores)), reverse=<REV>)
    <PAD> a float literal, <REV> a bool literal (keyword absent = False)  -> pad_value, sort_reverse
  * `max_length = max(len(head.matching_scores) for head in group)`     (shape only)
  * `random.choice(...)` is called exactly once in the function         (shape only)
The model V2/Conflict.v takes pad_value / sort_reverse as definitions from the generated file;
the theorems that need `sort_reverse = true` or `pad_value == 1` prove it from the generated
value, so a changed constant breaks a proof obligation.
"""
from __future__ import annotations

import ast
from fractions import Fraction

from translator import consts as TC
from translator.consts import TranslatorError

SRC = "nemoguardrails/colang/v2_x/runtime/statemachine.py"


def _dump(src_expr: str) -> str:
    return ast.dump(ast.parse(src_expr, mode="eval").body)


def conflict_consts():
    tree = TC._parse(SRC)
    fn = TC._func(tree, "_resolve_action_conflicts")
    out = {}

    # --- top-level if / elif on len(actionable_heads)
    top_if = [s for s in fn.body if isinstance(s, ast.If)]
    if len(top_if) != 1:
        raise TranslatorError("expected exactly one top-level `if` in _resolve_action_conflicts")
    top = top_if[0]
    len_call = _dump("len(actionable_heads)")

    def len_cmp(test, op_type):
        if not (isinstance(test, ast.Compare) and len(test.ops) == 1 and isinstance(test.ops[0], op_type)
                and ast.dump(test.left) == len_call
                and isinstance(test.comparators[0], ast.Constant)
                and isinstance(test.comparators[0].value, int)
                and not isinstance(test.comparators[0].value, bool)):
            raise TranslatorError("unexpected test on len(actionable_heads): " + ast.unparse(test))
        return test.comparators[0].value

    out["shortcut_len"] = len_cmp(top.test, ast.Eq)
    if not (len(top.orelse) == 1 and isinstance(top.orelse[0], ast.If)):
        raise TranslatorError("expected `elif len(actionable_heads) > N:` after the shortcut")
    multi = top.orelse[0]
    out["multi_min"] = len_cmp(multi.test, ast.Gt)
    if multi.orelse:
        raise TranslatorError("unexpected else branch in _resolve_action_conflicts")
    # the shortcut emits the event of the single head and advances it
    sc_src = " ".join(ast.unparse(s) for s in top.body)
    if "advancing_heads = actionable_heads" not in sc_src or "_generate_action_event_from_actionable_element" not in sc_src:
        raise TranslatorError("single-candidate shortcut has an unexpected body: " + sc_src)

    # --- the per-group loop
    loops = [s for s in multi.body if isinstance(s, ast.For) and ast.unparse(s.iter) == "head_groups.values()"]
    if len(loops) != 1:
        raise TranslatorError("expected exactly one `for group in head_groups.values()` loop")
    loop = loops[0]
    if not (isinstance(loop.target, ast.Name) and loop.target.id == "group"):
        raise TranslatorError("group loop variable is not `group`")

    sorted_calls = []
    maxlen_ok = False
    for node in ast.walk(loop):
        if isinstance(node, ast.Assign) and len(node.targets) == 1 and isinstance(node.targets[0], ast.Name):
            tgt = node.targets[0].id
            if tgt == "ordered_heads":
                sorted_calls.append(node.value)
            if tgt == "max_length":
                if ast.dump(node.value) != _dump("max(len(head.matching_scores) for head in group)"):
                    raise TranslatorError("unexpected max_length: " + ast.unparse(node.value))
                maxlen_ok = True
    if not maxlen_ok:
        raise TranslatorError("max_length assignment not found")
    if len(sorted_calls) != 1:
        raise TranslatorError("expected exactly one assignment to ordered_heads in the group loop")
    call = sorted_calls[0]
    if not (isinstance(call, ast.Call) and isinstance(call.func, ast.Name) and call.func.id == "sorted"
            and len(call.args) == 1 and ast.unparse(call.args[0]) == "group"):
        raise TranslatorError("ordered_heads is not `sorted(group, ...)`: " + ast.unparse(call))
    kws = {k.arg: k.value for k in call.keywords}
    if set(kws) - {"key", "reverse"} or "key" not in kws:
        raise TranslatorError("unexpected keywords in sorted(): " + ast.unparse(call))
    rev = kws.get("reverse")
    if rev is None:
        out["sort_reverse"] = False
    elif isinstance(rev, ast.Constant) and isinstance(rev.value, bool):
        out["sort_reverse"] = rev.value
    else:
        raise TranslatorError("reverse= is not a bool literal: " + ast.unparse(rev))
    key = kws["key"]
    # lambda head: head.matching_scores + [PAD] * (max_length - len(head.matching_scores))
    if not (isinstance(key, ast.Lambda) and len(key.args.args) == 1 and key.args.args[0].arg == "head"
            and isinstance(key.body, ast.BinOp) and isinstance(key.body.op, ast.Add)
            and ast.unparse(key.body.left) == "head.matching_scores"
            and isinstance(key.body.right, ast.BinOp) and isinstance(key.body.right.op, ast.Mult)
            and isinstance(key.body.right.left, ast.List) and len(key.body.right.left.elts) == 1
            and ast.dump(key.body.right.right) == _dump("max_length - len(head.matching_scores)")):
        raise TranslatorError("unexpected sort key: " + ast.unparse(key))
    pad = key.body.right.left.elts[0]
    if not (isinstance(pad, ast.Constant) and isinstance(pad.value, float)):
        raise TranslatorError("padding value is not a float literal: " + ast.unparse(pad))
    out["pad_value"] = Fraction(repr(pad.value))
    if float(out["pad_value"]) != pad.value or Fraction(pad.value) != out["pad_value"]:
        # the model pads with the exact rational; it must be the float's exact value
        raise TranslatorError(f"padding literal {pad.value!r} is not exactly representable")

    # --- exactly one random.choice in the function
    n_choice = sum(1 for n in ast.walk(fn) if isinstance(n, ast.Call) and ast.unparse(n.func) == "random.choice")
    if n_choice != 1:
        raise TranslatorError(f"expected exactly one random.choice call, found {n_choice}")
    out["n_random_choice"] = n_choice
    return out


def emit(c) -> str:
    p = c["pad_value"]
    return "\n".join([
        "(* --- statemachine.py::_resolve_action_conflicts --- *)",
        f"Definition pad_value : Q := {p.numerator} # {p.denominator}.",
        f"Definition sort_reverse : bool := {TC.coq_bool(c['sort_reverse'])}.",
        f"Definition shortcut_len : nat := {c['shortcut_len']}.",
        f"Definition multi_min : nat := {c['multi_min']}.",
    ])


def _gen():
    return TC.HEADER + "\n" + emit(conflict_consts()) + "\n"


GENERATORS = {"C05Consts": _gen}

if __name__ == "__main__":
    print(_gen())
