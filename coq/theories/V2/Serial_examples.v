(* C11 - witnesses: reachable values outside `supported` (regex, non-str keys, raw Action
   arguments: refuted for the UNREPAIRED encoder), cyclic graphs and shared lists (refuted for
   both), and non-trivial states that inhabit the hypotheses of the round-trip theorem. *)
From Coq Require Import ZArith List String Bool Lia.
From NG Require Import Gen.C11Consts V2.Serial V2.SerialRun V2.Serial_proofs.
Import ListNotations.
Open Scope string_scope.
Open Scope Z_scope.

(* ---- decidable acyclicity for concrete heaps *)
Definition acyclicb (h : heap) (rk : id -> nat) : bool :=
  forallb (fun kn => forallb (fun v => match v with VO j => Nat.ltb (rk j) (rk (fst kn)) | VP _ => true end)
                             (tkids (snd kn))) h.

Lemma acyclicb_sound h rk : acyclicb h rk = true -> acyclic h rk.
Proof.
  intros H i n Hl j Hj. unfold acyclicb in H. rewrite forallb_forall in H.
  specialize (H (i, n) (lookup_in _ _ _ Hl)). simpl in H. rewrite forallb_forall in H.
  specialize (H (VO j) Hj). simpl in H. now apply Nat.ltb_lt in H.
Qed.

Definition rank_tbl (t : list (Z * nat)) (i : id) : nat := match lookup t i with Some n => n | None => O end.

(* ---- the class table of the current source satisfies the side condition of the decoder *)
Lemma late_tags_free_now : late_tags_free classes_now.
Proof.
  intros t Ht. simpl in Ht.
  repeat (destruct Ht as [<-|Ht]; [vm_compute; reflexivity|]). contradiction.
Qed.

(* ================================================================================== *)
(* F7: `$r = regex("a")` in a flow variable.  context = {"r": re.compile("a")} *)
Definition h_regex : heap :=
  [ (0, mk (HDict [KS "r"]) [VO 1]); (1, mk (HRegex "a" 32) []) ].

Lemma regex_refuted : forall limit, encode flags_orig limit h_regex (VO 0) = None.
Proof. intros [|[|n]]; reflexivity. Qed.

(* ... and it is inside `supported` for the repaired encoder, where it round-trips *)
Example regex_supported_fixed : supported flags_fixed classes_now h_regex (VO 0) = true.
Proof. vm_compute. reflexivity. Qed.

Example regex_not_supported_orig : supported flags_orig classes_now h_regex (VO 0) = false.
Proof. vm_compute. reflexivity. Qed.

(* non-string dict keys change type: {1: "a"} comes back as {"1": "a"} *)
Definition h_intkey : heap := [ (0, mk (HDict [KI 1]) [VP (PStr "a")]) ].

Lemma intkey_refuted :
  exists j h' r',
    encode flags_orig 5 h_intkey (VO 0) = Some j /\
    decode flags_orig classes_now 5 j = Some (h', r') /\
    ~ exists M, bisim false h_intkey (VO 0) h' r' M.
Proof.
  eexists. eexists. eexists. split; [vm_compute; reflexivity|]. split; [vm_compute; reflexivity|].
  intros [M [Hroot Hstep]]. inversion Hroot as [| i i' Hin |]; subst.
  destruct (Hstep _ _ Hin) as (n & n' & H1 & H2 & [H3 _]).
  vm_compute in H1, H2. inversion H1; subst. inversion H2; subst. simpl in H3. discriminate.
Qed.

(* an Action whose arguments hold a set: Action.to_dict() is handed raw to json.dumps *)
Definition h_action : heap :=
  [ (0, mk (HAction action_fields)
           [VP (PStr "u"); VP (PStr "MyAction"); VP (PStr "f"); VP (PStr "STARTING"); VO 1; VO 2; VP (PInt 1)]);
    (1, mk (HDict []) []);
    (2, mk (HDict [KS "tags"]) [VO 3]);
    (3, mk HSet [VP (PStr "a"); VP (PStr "b")]) ].

Lemma action_args_refuted : forall limit, encode flags_orig limit h_action (VO 0) = None.
Proof. intros [|[|[|n]]]; reflexivity. Qed.

Example action_supported_fixed : supported flags_fixed classes_now h_action (VO 0) = true.
Proof. vm_compute. reflexivity. Qed.

(* ================================================================================== *)
(* defects the repair does not remove *)

(* a cyclic reference ($l.append($l)): unbounded recursion, RecursionError at every limit *)
Definition h_cyclic : heap := [ (0, mk HList [VO 0]) ].

Lemma cyclic_refuted : forall fl limit, encode fl limit h_cyclic (VO 0) = None.
Proof.
  intros fl limit. unfold encode.
  assert (H : forall n, enc fl n h_cyclic [] (VO 0) = None).
  { induction n as [|n IH]; [reflexivity|]. simpl. rewrite IH. reflexivity. }
  now rewrite H.
Qed.

Example cyclic_is_supported_kind : supported flags_fixed classes_now h_cyclic (VO 0) = true.
Proof. vm_compute. reflexivity. Qed.

(* a list referenced twice ($b = $a) is decoded as two lists: no isomorphism that is a function *)
Definition h_shared_list : heap :=
  [ (0, mk (HDict [KS "a"; KS "b"]) [VO 1; VO 1]); (1, mk HList [VP (PInt 1)]) ].

Lemma shared_list_refuted :
  exists j h' r',
    encode flags_fixed 5 h_shared_list (VO 0) = Some j /\
    decode flags_fixed classes_now 5 j = Some (h', r') /\
    ~ exists M, bisim false h_shared_list (VO 0) h' r' M /\ functional M.
Proof.
  eexists. eexists. eexists. split; [vm_compute; reflexivity|]. split; [vm_compute; reflexivity|].
  intros [M [[Hroot Hstep] Hfun]]. inversion Hroot as [| i i' Hin |]; subst.
  destruct (Hstep _ _ Hin) as (n & n' & H1 & H2 & [_ H3]).
  vm_compute in H1, H2. inversion H1; subst. inversion H2; subst. simpl in H3.
  inversion H3 as [|? ? ? ? Ha H4]; subst. inversion H4 as [|? ? ? ? Hb _]; subst.
  inversion Ha as [| ? ? Ia |]; subst. inversion Hb as [| ? ? Ib |]; subst.
  specialize (Hfun _ _ _ Ia Ib). discriminate.
Qed.

(* ================================================================================== *)
(* the hypotheses of the round-trip theorem are inhabited by a non-trivial state:
   a State with two flow states that reference ONE Action, a set, a regex, an int-keyed dict,
   a tuple, an enum member shared by both flows, head callbacks *)
Definition h_state : heap :=
  [ (0, mk (HData "Event" ["name"; "arguments"; "matching_scores"]) [VP (PStr "root"); VO 1; VO 9]);
    (1, mk (HDict [KS "f1"; KS "f2"; KS "acts"]) [VO 2; VO 3; VO 4]);
    (2, mk (HDict [KS "act"; KS "status"; KS "s"; KS "cb"]) [VO 5; VO 6; VO 7; VO 12]);
    (3, mk (HDict [KS "act"; KS "status"; KS "r"; KI 1]) [VO 5; VO 6; VO 8; VP (PFloat 3)]);
    (4, mk (HDict [KS "u"]) [VO 5]);
    (5, mk (HAction action_fields)
           [VP (PStr "u"); VP (PStr "MyAction"); VP (PStr "f1"); VP (PStr "STARTED"); VO 10; VO 11; VP (PInt 2)]);
    (6, mk (HEnum "FlowStatus" "STARTED") []);
    (7, mk HSet [VP (PStr "a"); VP (PInt 2)]);
    (8, mk (HRegex "a." 32) []);
    (9, mk HList [VP (PFloat 1); VP PNone; VP (PBool true)]);
    (10, mk (HDict []) []);
    (11, mk (HDict [KS "tags"]) [VO 7]);
    (12, mk (HPartial "_flow_head_changed") [VO 0; VO 2]) ].

Definition rk_state : id -> nat :=
  rank_tbl [(0, 5%nat); (1, 4%nat); (2, 3%nat); (3, 3%nat); (4, 3%nat); (5, 2%nat); (6, 0%nat); (7, 0%nat);
            (8, 0%nat); (9, 0%nat); (10, 0%nat); (11, 1%nat); (12, 0%nat)].

Example state_supported : supported flags_fixed classes_now h_state (VO 0) = true.
Proof. vm_compute. reflexivity. Qed.

Example state_acyclic : acyclic h_state rk_state.
Proof. apply acyclicb_sound. vm_compute. reflexivity. Qed.

Example state_rank : (rank_of rk_state (VO 0%Z) < 50)%nat.
Proof. vm_compute. lia. Qed.

(* the marks: the shared Action, enum member and set are written once, with __id, then as refs *)
Example state_json_has_refs :
  match encode flags_fixed 50 h_state (VO 0) with
  | Some j => match canon_of 100 (decode flags_fixed classes_now 50 j) with Some _ => true | None => false end
  | None => false
  end = true.
Proof. vm_compute. reflexivity. Qed.

(* ================================================================================== *)
(* the refs table and temporaries (seeded regression C11-c11_r2_2): two actions with different
   arguments, encoded by an encoder whose Action branch registers temporary copies *)
Definition h_two_actions : heap :=
  [ (0, mk (HDict [KS "a"; KS "b"]) [VO 1; VO 2]);
    (1, mk (HAction action_fields)
           [VP (PStr "u1"); VP (PStr "UtteranceBotAction"); VP (PStr "f"); VP (PStr "STARTED"); VO 3; VO 4; VP (PInt 1)]);
    (2, mk (HAction action_fields)
           [VP (PStr "u2"); VP (PStr "GestureBotAction"); VP (PStr "f"); VP (PStr "STARTED"); VO 5; VO 6; VP (PInt 1)]);
    (3, mk (HDict []) []);
    (4, mk (HDict [KS "script"]) [VP (PStr "one")]);
    (5, mk (HDict []) []);
    (6, mk (HDict [KS "gesture"]) [VP (PStr "wave")]) ].

(* CPython: the memory of a freed temporary is handed to the next one *)
Definition alloc_reuse (k : nat) : id := 1000 + Z.of_nat (Nat.modulo k 2).
(* an allocator that never reuses an identity during one encoding *)
Definition alloc_distinct (k : nat) : id := 1000 + Z.of_nat k.

Lemma alloc_distinct_fresh : tmp_ids_fresh alloc_distinct h_two_actions.
Proof.
  split.
  - intro k. unfold alloc_distinct.
    destruct (lookup h_two_actions (1000 + Z.of_nat k)) as [n|] eqn:E; [|reflexivity]. exfalso.
    apply lookup_in in E. unfold h_two_actions in E. cbn [In] in E.
    repeat (destruct E as [E|E]; [apply (f_equal fst) in E; cbn [fst] in E; lia|]). exact E.
  - intros k k' H. unfold alloc_distinct in H. lia.
Qed.

(* with reuse the second action is written with refs to the FIRST action's dicts: the restored
   graph is not the saved one *)
Lemma tmp_reuse_refuted :
  exists j, encode_tmp alloc_reuse flags_fixed 10 h_two_actions (VO 0) = Some j /\
            canon_of 100 (decode flags_fixed classes_now 10 j) <> canon_of 100 (Some (h_two_actions, VO 0)).
Proof. eexists. split; [vm_compute; reflexivity|]. vm_compute. discriminate. Qed.

(* the second action of the restored graph carries the first action's arguments *)
Example tmp_reuse_symptom :
  match encode_tmp alloc_reuse flags_fixed 10 h_two_actions (VO 0) with
  | Some j =>
    match decode flags_fixed classes_now 10 j with
    | Some (h', VO r') =>
      match dict_values h' (VO r') with
      | Some [VO a1; VO a2] =>
        match lookup h' a1, lookup h' a2 with
        | Some (mk _ [_; _; _; _; c1; s1; _]), Some (mk _ [_; _; _; _; c2; s2; _]) => val_eqb s1 s2 && val_eqb c1 c2
        | _, _ => false
        end
      | _ => false
      end
    | _ => false
    end
  | None => false
  end = true.
Proof. vm_compute. reflexivity. Qed.

(* without reuse the same encoder is restored correctly, and `enc` (no temporaries) as well *)
Example tmp_distinct_ok :
  match encode_tmp alloc_distinct flags_fixed 10 h_two_actions (VO 0) with
  | Some j => opt_eqb ctree_eqb (canon_of 100 (decode flags_fixed classes_now 10 j)) (canon_of 100 (Some (h_two_actions, VO 0)))
  | None => false
  end = true.
Proof. vm_compute. reflexivity. Qed.

Example no_tmp_ok :
  match encode flags_fixed 10 h_two_actions (VO 0) with
  | Some j => opt_eqb ctree_eqb (canon_of 100 (decode flags_fixed classes_now 10 j)) (canon_of 100 (Some (h_two_actions, VO 0)))
  | None => false
  end = true.
Proof. vm_compute. reflexivity. Qed.
