(* C18 - (T) tie: facts about the streaming patterns that generation.py configures, proved from the
   values the translator re-reads from the current source (Gen/C18Consts.v).  If generation.py
   starts using patterns of another shape, `gen_configs_ok` stops checking. *)
From Coq Require Import List Bool Arith NArith Lia.
From NG Require Import Gen.C18Consts Svc.Stream Svc.Stream_proofs.
Import ListNotations.

(* the shape generation.py uses today: a non-empty prefix, the closing double quote (34) as
   suffix, and handler stop sequences that start with that quote and go on (quote + newline) *)
Definition gen_ok (cfg : config N) : bool :=
  truthy (c_prefix cfg)
  && match c_suffix cfg with Some [q] => N.eqb q 34 | _ => false end
  && forallb (fun s => match s with q :: _ :: _ => N.eqb q 34 | _ => false end) (c_stop cfg).

Lemma gen_configs_ok : forallb gen_ok gen_configs = true.
Proof. vm_compute. reflexivity. Qed.

Lemma gen_configs_nonempty : gen_configs <> [].
Proof. vm_compute. discriminate. Qed.

Lemma N_eqb_spec : forall a b : N, N.eqb a b = true <-> a = b.
Proof. exact N.eqb_eq. Qed.

Lemma no_quote_stop (body : list N) (s : list N) (j : nat) (y : N) (r : list N) :
  ~ In 34%N body -> s = 34%N :: y :: r -> ~ occ s (body ++ [34%N]) j.
Proof.
  intros Hq -> [a [b [Hs Ha]]].
  apply app_eq_app in Hs. destruct Hs as [l [[Hl1 Hl2] | [Hl1 Hl2]]].
  - destruct l as [|x l].
    + simpl in Hl2. discriminate.
    + simpl in Hl2. injection Hl2 as Hx _. subst x. apply Hq. rewrite Hl1.
      apply in_or_app. right. left. reflexivity.
  - apply (f_equal (@length N)) in Hl2. rewrite app_length in Hl2. simpl in Hl2. lia.
Qed.

Lemma gen_spec (cfg : config N) (body : list N) :
  gen_ok cfg = true -> ~ In 34%N body ->
  spec N.eqb cfg (oget (c_prefix cfg) ++ body ++ [34%N]) = body.
Proof.
  intros Hok Hq. unfold gen_ok in Hok.
  apply andb_true_iff in Hok. destruct Hok as [Hok Hstops].
  apply andb_true_iff in Hok. destruct Hok as [Hpre Hsuf].
  unfold spec, strip_prefix. rewrite Hpre.
  assert (Hp : prefixb N.eqb (oget (c_prefix cfg)) (oget (c_prefix cfg) ++ body ++ [34%N]) = true).
  { apply (prefixb_iff _ N.eqb N_eqb_spec). eexists. reflexivity. }
  rewrite Hp. simpl andb. cbv iota. rewrite (skipn_app_exact N).
  assert (Hcut : cut_stop N.eqb (c_stop cfg) (body ++ [34%N]) = body ++ [34%N]).
  { unfold cut_stop. destruct (first_stop N.eqb (c_stop cfg) (body ++ [34%N])) as [m|] eqn:Hm; [exfalso|reflexivity].
    destruct (first_stop_Some _ N.eqb N_eqb_spec _ _ _ Hm) as [[s [Hin Hoc]] _].
    rewrite forallb_forall in Hstops. specialize (Hstops s Hin).
    destruct s as [|q [|y r]]; try discriminate.
    apply N.eqb_eq in Hstops. subst q.
    exact (no_quote_stop body _ m y r Hq eq_refl Hoc). }
  rewrite Hcut.
  destruct (c_suffix cfg) as [[|q [|q2 sf]]|]; try discriminate.
  apply N.eqb_eq in Hsuf. subst q.
  unfold strip_suffix. simpl truthy. simpl oget.
  assert (He : endswith N.eqb (body ++ [34%N]) [34%N] = true).
  { apply (endswith_iff _ N.eqb N_eqb_spec). exists body. reflexivity. }
  rewrite He. simpl andb. cbv iota. rewrite app_length. simpl length.
  replace (length body + 1 - 1) with (length body) by lia.
  apply (firstn_app_exact N).
Qed.

Theorem generation_patterns :
  forall (cfg : config N) (body : list N) (chunks : list (list N)),
    In cfg gen_configs -> ~ In 34%N body ->
    Forall (fun x => x <> []) chunks ->
    concat chunks = oget (c_prefix cfg) ++ body ++ [34%N] ->
    concat (delivered (s_queue (run N.eqb cfg chunks EndLLM))) = body /\
    s_completion (run N.eqb cfg chunks EndLLM) = body.
Proof.
  intros cfg body chunks Hin Hq Hne Hcat.
  pose proof gen_configs_ok as Hall. rewrite forallb_forall in Hall. specialize (Hall cfg Hin).
  destruct (chunking_independent N N.eqb N_eqb_spec cfg chunks Hne) as [Hd Hc].
  rewrite Hcat, (gen_spec cfg body Hall Hq) in Hd, Hc. split; assumption.
Qed.

(* the statement is not vacuous: the first configured pattern, the text  prefix Hi quote *)
Example generation_patterns_inhabited :
  match gen_configs with
  | cfg :: _ =>
      spec N.eqb cfg (oget (c_prefix cfg) ++ [72; 105]%N ++ [34%N]) = [72; 105]%N
  | [] => False
  end.
Proof. vm_compute. reflexivity. Qed.
