(* C20 - proofs about the server model (Svc/Threads.v): every loader call and every instance
   is inside the root over any request sequence; a rejected id gives the fixed reply without
   loader call; thread exactness, disjointness, and refinement to the abstract specification
   "thread id |-> concatenation of all its turns". *)
From Coq Require Import List Bool Arith Lia.
From NG Require Import Svc.Path Svc.Path_proofs Svc.Threads.
Import ListNotations.

Arguments Path.ceq : simpl never.

Section ThreadsProofs.
  Variable A : Type.
  Variable eqA : forall x y : A, {x = y} + {x <> y}.
  Variables sep dot dash : A.
  Variable M : Type.
  Variable pat : list (list (list A)).
  Variable use_prefix_check : bool.
  Variable thread_prefix : list A.
  Variable min_len : nat.
  Variable base : list A.
  Variable single : option (list A).
  Variable default_id : option (list A).
  Variable load_ok : list A -> bool.
  Variable llm : list (list A) -> list M -> option M.

  Notation str := (list A).
  Notation str_eqb := (Path.str_eqb A eqA).
  Notation get_rails_path := (Path.get_rails_path A eqA sep dot pat use_prefix_check).
  Notation inside := (Path.inside A eqA sep dot).
  Notation abs_normal := (Path.abs_normal A sep dot).
  Notation aget := (Threads.aget A eqA).
  Notation aset := (Threads.aset A eqA).
  Notation thread := (Threads.thread A eqA M).
  Notation cache_key := (Threads.cache_key A dash).
  Notation load_all := (Threads.load_all A eqA sep dot pat use_prefix_check base load_ok).
  Notation get_rails := (Threads.get_rails A eqA sep dot dash pat use_prefix_check base single load_ok).
  Notation chat := (Threads.chat A eqA sep dot dash M pat use_prefix_check thread_prefix min_len
                                 base single default_id load_ok llm).
  Notation run := (Threads.run A eqA sep dot dash M pat use_prefix_check thread_prefix min_len
                               base single default_id load_ok llm).
  Notation effective_ids := (Threads.effective_ids A M default_id).
  Notation new_messages := (Threads.new_messages A M).
  Notation thread_of := (Threads.thread_of A M).
  Notation turn_of := (Threads.turn_of A eqA M).
  Notation turns_of := (Threads.turns_of A eqA M).
  Notation request := (Threads.request A M).
  Notation outcome := (Threads.outcome A M).
  Notation state := (Threads.state A M).

  (* ------------------------------------------------------------------ finite maps *)

  Lemma aget_aset_eq : forall V (m : list (str * V)) k v, aget (aset m k v) k = Some v.
  Proof.
    intros V m k v. induction m as [|[k' v'] m IH]; simpl.
    - rewrite (str_eqb_refl A eqA). reflexivity.
    - destruct (str_eqb k' k) eqn:E; simpl; rewrite E; [reflexivity | exact IH].
  Qed.

  Lemma aget_aset_other :
    forall V (m : list (str * V)) k k' v, k' <> k -> aget (aset m k v) k' = aget m k'.
  Proof.
    intros V m k k' v Hne. induction m as [|[k0 v0] m IH]; simpl.
    - destruct (str_eqb k k') eqn:E; [|reflexivity].
      apply (str_eqb_true A eqA) in E. congruence.
    - destruct (str_eqb k0 k) eqn:E; simpl.
      + destruct (str_eqb k0 k') eqn:E'; [|reflexivity].
        apply (str_eqb_true A eqA) in E. apply (str_eqb_true A eqA) in E'. congruence.
      + destruct (str_eqb k0 k'); [reflexivity | exact IH].
  Qed.

  Lemma thread_aset_eq : forall (s : list (str * list M)) k v, thread (aset s k v) k = v.
  Proof. intros. unfold Threads.thread. rewrite aget_aset_eq. reflexivity. Qed.

  Lemma thread_aset_other :
    forall (s : list (str * list M)) k k' v, k' <> k -> thread (aset s k v) k' = thread s k'.
  Proof. intros. unfold Threads.thread. rewrite aget_aset_other by assumption. reflexivity. Qed.

  (* key prefixing is injective *)
  Lemma key_injective : forall t1 t2 : str, thread_prefix ++ t1 = thread_prefix ++ t2 -> t1 = t2.
  Proof. intros t1 t2 H. eapply app_inv_head. exact H. Qed.

  (* ------------------------------------------------------------------ the loader loop *)

  (* each loader call is for an accepted id, in order; a successful loop loaded exactly the
     paths of all ids *)
  Lemma load_all_trace :
    forall ids tr r, load_all ids = (tr, r) ->
      exists k, Forall2 (fun id p => get_rails_path base id = Accept p) (firstn k ids) tr
                /\ (forall inst, r = Some inst -> inst = tr /\ k = length ids).
  Proof.
    induction ids as [|id ids IH]; intros tr r H; simpl in H.
    - inversion H; subst. exists 0. split; [constructor|]. intros inst Hi. inversion Hi. auto.
    - destruct (get_rails_path base id) as [p|] eqn:Ep.
      + destruct (load_ok p).
        * destruct (load_all ids) as [tr' r'] eqn:El. inversion H; subst. clear H.
          destruct (IH tr' r' eq_refl) as [k [HF Hr]].
          exists (S k). split.
          -- simpl. constructor; assumption.
          -- intros inst Hi. destruct r' as [ps|]; [|discriminate]. inversion Hi; subst.
             destruct (Hr ps eq_refl) as [E1 E2]. subst. auto.
        * inversion H; subst. exists 1. split.
          -- simpl. constructor; [assumption | constructor].
          -- intros inst Hi. discriminate.
      + inversion H; subst. exists 0. split; [constructor|]. intros inst Hi. discriminate.
  Qed.

  (* a rejected id anywhere in the list makes the whole call fail *)
  Lemma load_all_reject :
    forall ids id, In id ids -> get_rails_path base id = Reject -> snd (load_all ids) = None.
  Proof.
    induction ids as [|x ids IH]; intros id Hin Hrej; [contradiction|].
    simpl. destruct Hin as [E|Hin].
    - subst x. rewrite Hrej. reflexivity.
    - destruct (get_rails_path base x) as [p|]; [|reflexivity].
      destruct (load_ok p); [|reflexivity].
      specialize (IH id Hin Hrej). destruct (load_all ids) as [tr r]. simpl in *. subst r. reflexivity.
  Qed.

  (* ... and a rejected first id means the loader is not called at all *)
  Lemma load_all_reject_first :
    forall id ids, get_rails_path base id = Reject -> load_all (id :: ids) = ([], None).
  Proof. intros id ids H. simpl. rewrite H. reflexivity. Qed.

  Section Confinement.
    Hypothesis base_normal : abs_normal base.
    Hypothesis guard_sep : Path.pat_rejects_char A eqA pat sep = true.
    Hypothesis guard_dotdot : Path.re_search A eqA pat (Path.dotdot A dot) = true \/ use_prefix_check = true.

    Lemma load_all_inside :
      forall ids tr r, load_all ids = (tr, r) -> Forall (inside base) tr.
    Proof.
      intros ids tr r H. destruct (load_all_trace ids tr r H) as [k [HF _]].
      clear H. revert HF. generalize (firstn k ids). intros l HF.
      induction HF as [|id p l tr Hp _ IH]; constructor; [|exact IH].
      eapply (get_rails_path_confined A eqA sep dot pat use_prefix_check guard_sep guard_dotdot);
        eassumption.
    Qed.

    Definition cache_ok (c : list (str * list str)) : Prop :=
      forall k inst, aget c k = Some inst -> Forall (inside base) inst.

    Lemma cache_ok_nil : cache_ok [].
    Proof. intros k inst H. discriminate. Qed.

    Lemma cache_ok_aset :
      forall c k inst, cache_ok c -> Forall (inside base) inst -> cache_ok (aset c k inst).
    Proof.
      intros c k inst Hc Hi k' inst' H.
      destruct (list_eq_dec eqA k' k) as [E|E].
      - subst. rewrite aget_aset_eq in H. inversion H; subst. assumption.
      - rewrite aget_aset_other in H by assumption. eapply Hc. eassumption.
    Qed.

    Lemma get_rails_inside :
      forall c ids c' tr r, get_rails c ids = (c', tr, r) -> cache_ok c ->
        cache_ok c' /\ Forall (inside base) tr /\ (forall inst, r = Some inst -> Forall (inside base) inst).
    Proof.
      intros c ids c' tr r H Hc. unfold Threads.get_rails in H.
      destruct (aget c (cache_key ids)) as [inst0|] eqn:Eg.
      - inversion H; subst. repeat split; [assumption | constructor |].
        intros inst Hi. inversion Hi; subst. eapply Hc. eassumption.
      - set (ids' := match single with
                     | Some sid => if Threads.ids_eqb A eqA ids [sid] then Some [[]] else None
                     | None => Some ids end) in H.
        destruct ids' as [ids'|].
        + destruct (load_all ids') as [tr' r'] eqn:El.
          pose proof (load_all_inside ids' tr' r' El) as Htr.
          destruct (load_all_trace ids' tr' r' El) as [k [_ Hr]].
          destruct r' as [inst|].
          * inversion H; subst. destruct (Hr inst eq_refl) as [E _]. subst inst.
            repeat split; [apply cache_ok_aset; assumption | assumption |].
            intros inst Hi. inversion Hi; subst. assumption.
          * inversion H; subst. repeat split; [assumption | assumption |]. intros inst Hi. discriminate.
        + inversion H; subst. repeat split; [assumption | constructor |]. intros inst Hi. discriminate.
    Qed.
  End Confinement.

  (* ------------------------------------------------------------------ chat: case analysis *)

  Ltac chat_cases H :=
    unfold Threads.chat in H;
    match type of H with context [effective_ids ?rq] => destruct (effective_ids rq) as [?ids|] eqn:?Eids end;
    [ match type of H with context [get_rails ?c ?i] => destruct (get_rails c i) as [[?c' ?tr] [?inst|]] eqn:?Egr end;
      [ match type of H with context [thread_of ?rq] => destruct (thread_of rq) as [?tid|] eqn:?Etid end;
        [ match type of H with context [Nat.ltb ?a ?b] => destruct (Nat.ltb a b) eqn:?Elen end;
          [ | match type of H with context [llm ?i ?u] => destruct (llm i u) as [?bot|] eqn:?Ellm end ]
        | match type of H with context [llm ?i ?u] => destruct (llm i u) as [?bot|] eqn:?Ellm end ]
      | ]
    | ];
    inversion H; subst; clear H; simpl.

  Section Confinement2.
    Hypothesis base_normal : abs_normal base.
    Hypothesis guard_sep : Path.pat_rejects_char A eqA pat sep = true.
    Hypothesis guard_dotdot : Path.re_search A eqA pat (Path.dotdot A dot) = true \/ use_prefix_check = true.

    Notation cache_ok := (cache_ok).

    (* one request: every loader call and the serving instance are inside the root *)
    Lemma chat_inside :
      forall st rq st' o, chat st rq = (st', o) -> cache_ok (s_cache A M st) ->
        cache_ok (s_cache A M st')
        /\ Forall (inside base) (o_loads A M o)
        /\ (forall inst, o_inst A M o = Some inst -> Forall (inside base) inst).
    Proof.
      intros st rq st' o H Hc.
      chat_cases H;
        try (destruct (get_rails_inside base_normal guard_sep guard_dotdot _ _ _ _ _ Egr Hc) as [H1 [H2 H3]];
             repeat split; try assumption;
             intros ? Hi; try discriminate; inversion Hi; subst; apply H3; reflexivity).
      repeat split; [assumption | constructor | intros ? Hi; discriminate].
    Qed.

    (* any request sequence from a state whose cached instances are inside the root *)
    Theorem run_inside :
      forall rqs st st' os, run st rqs = (st', os) -> cache_ok (s_cache A M st) ->
        Forall (fun o => Forall (inside base) (o_loads A M o)
                         /\ (forall inst, o_inst A M o = Some inst -> Forall (inside base) inst)) os.
    Proof.
      induction rqs as [|rq rqs IH]; intros st st' os H Hc; simpl in H.
      - inversion H; subst. constructor.
      - destruct (chat st rq) as [st1 o] eqn:Ec. destruct (run st1 rqs) as [st2 os'] eqn:Er.
        inversion H; subst. clear H.
        destruct (chat_inside st rq st1 o Ec Hc) as [H1 [H2 H3]].
        constructor; [split; assumption|]. eapply IH; eassumption.
    Qed.
  End Confinement2.

  (* ------------------------------------------------------------------ rejects: fixed reply *)

  (* whenever _get_rails raises ValueError - a rejected id, a failing load, a wrong id in
     single-config mode - the reply is the fixed one naming the requested ids, the LLM is not
     called and neither the cache nor the datastore changes *)
  Theorem chat_valueerror_fixed_reply :
    forall st rq ids st' o,
      effective_ids rq = Some ids -> snd (get_rails (s_cache A M st) ids) = None ->
      chat st rq = (st', o) ->
      st' = st /\ o_reply A M o = RCouldNotLoad ids /\ o_used A M o = None /\ o_inst A M o = None
      /\ o_loads A M o = snd (fst (get_rails (s_cache A M st) ids)).
  Proof.
    intros st rq ids st' o Hids Hgr H.
    unfold Threads.chat in H. rewrite Hids in H.
    destruct (get_rails (s_cache A M st) ids) as [[c' tr] r] eqn:Egr. simpl in Hgr. subst r.
    inversion H; subst; clear H. simpl.
    assert (Ec : c' = s_cache A M st).
    { unfold Threads.get_rails in Egr.
      destruct (aget (s_cache A M st) (cache_key ids)); [inversion Egr|].
      destruct (match single with Some sid => if Threads.ids_eqb A eqA ids [sid] then Some [[]] else None
                              | None => Some ids end) as [ids'|].
      - destruct (load_all ids') as [tr' [inst|]]; inversion Egr; reflexivity.
      - inversion Egr; reflexivity. }
    subst c'. destruct st; simpl. auto.
  Qed.

  (* a rejected id (cache miss, multi-config mode) makes _get_rails raise; when it is the
     first id the loader is not called *)
  Lemma get_rails_reject :
    forall c ids id, single = None -> aget c (cache_key ids) = None ->
      In id ids -> get_rails_path base id = Reject ->
      snd (get_rails c ids) = None /\ fst (fst (get_rails c ids)) = c.
  Proof.
    intros c ids id Hs Hc Hin Hrej. unfold Threads.get_rails. rewrite Hc, Hs.
    pose proof (load_all_reject ids id Hin Hrej) as Hl.
    destruct (load_all ids) as [tr r]. simpl in Hl. subst r. auto.
  Qed.

  Theorem chat_reject_fixed_reply :
    forall st rq ids id st' o,
      single = None -> effective_ids rq = Some ids ->
      aget (s_cache A M st) (cache_key ids) = None ->
      In id ids -> get_rails_path base id = Reject ->
      chat st rq = (st', o) ->
      st' = st /\ o_reply A M o = RCouldNotLoad ids /\ o_used A M o = None
      /\ (forall tl, ids = id :: tl -> o_loads A M o = []).
  Proof.
    intros st rq ids id st' o Hs Hids Hc Hin Hrej H.
    destruct (get_rails_reject (s_cache A M st) ids id Hs Hc Hin Hrej) as [Hn _].
    destruct (chat_valueerror_fixed_reply st rq ids st' o Hids Hn H) as [E1 [E2 [E3 [_ E5]]]].
    repeat split; try assumption.
    intros tl Etl. rewrite E5. unfold Threads.get_rails. rewrite Hc, Hs. subst ids.
    rewrite load_all_reject_first by assumption. reflexivity.
  Qed.

  (* ------------------------------------------------------------------ threads *)

  (* EXACTNESS: with a thread id, the messages used are the stored thread followed by the new
     messages; after a bot reply the stored thread is that list plus the reply; without a
     bot reply nothing is stored *)
  Theorem chat_thread_exact :
    forall st rq st' o tid,
      chat st rq = (st', o) -> thread_of rq = Some tid ->
      let key := thread_prefix ++ tid in
      (forall u, o_used A M o = Some u ->
                 u = thread (s_store A M st) key ++ new_messages rq
                 /\ min_len <= length tid)
      /\ (forall b, o_reply A M o = RBot b ->
                    exists u, o_used A M o = Some u /\ thread (s_store A M st') key = u ++ [b])
      /\ ((forall b, o_reply A M o <> RBot b) -> s_store A M st' = s_store A M st).
  Proof.
    intros st rq st' o tid H Ht key.
    chat_cases H; try discriminate; try (inversion Ht; subst tid0; clear Ht).
    - (* too short *)
      split; [|split]; [intros u Hu; discriminate | intros b Hb; discriminate | reflexivity].
    - (* bot reply *)
      apply Nat.ltb_ge in Elen.
      split; [|split].
      + intros u Hu. inversion Hu; subst. split; [reflexivity | assumption].
      + intros b Hb. inversion Hb; subst. eexists. split; [reflexivity|]. apply thread_aset_eq.
      + intros Hb. exfalso. eapply Hb. reflexivity.
    - (* llm raised *)
      apply Nat.ltb_ge in Elen.
      split; [|split].
      + intros u Hu. inversion Hu; subst. split; [reflexivity | assumption].
      + intros b Hb. discriminate.
      + reflexivity.
    - split; [|split]; [intros u Hu; discriminate | intros b Hb; discriminate | reflexivity].
    - split; [|split]; [intros u Hu; discriminate | intros b Hb; discriminate | reflexivity].
  Qed.

  (* without a thread id the messages used are exactly the new messages and nothing is stored *)
  Theorem chat_no_thread :
    forall st rq st' o,
      chat st rq = (st', o) -> thread_of rq = None ->
      s_store A M st' = s_store A M st /\ (forall u, o_used A M o = Some u -> u = new_messages rq).
  Proof.
    intros st rq st' o H Ht.
    chat_cases H; try congruence; split; try reflexivity; intros u Hu; try discriminate;
      inversion Hu; reflexivity.
  Qed.

  (* DISJOINTNESS: a request only ever writes the key "thread-"+its own thread id *)
  Theorem chat_store_frame :
    forall st rq st' o k,
      chat st rq = (st', o) ->
      (forall tid, thread_of rq = Some tid -> k <> thread_prefix ++ tid) ->
      aget (s_store A M st') k = aget (s_store A M st) k.
  Proof.
    intros st rq st' o k H Hk.
    chat_cases H; try reflexivity.
    apply aget_aset_other. apply Hk. reflexivity.
  Qed.

  Corollary chat_threads_disjoint :
    forall st rq st' o tid1 tid2,
      chat st rq = (st', o) -> thread_of rq = Some tid1 -> tid1 <> tid2 ->
      thread (s_store A M st') (thread_prefix ++ tid2) = thread (s_store A M st) (thread_prefix ++ tid2).
  Proof.
    intros st rq st' o tid1 tid2 H Ht Hne. unfold Threads.thread.
    rewrite (chat_store_frame st rq st' o (thread_prefix ++ tid2) H); [reflexivity|].
    intros tid Htid E. rewrite Ht in Htid. inversion Htid; subst. apply key_injective in E. congruence.
  Qed.

  (* keys that do not start with the prefix (anything else kept in the datastore) are never
     written *)
  Corollary chat_foreign_keys :
    forall st rq st' o k,
      chat st rq = (st', o) -> (forall t, k <> thread_prefix ++ t) ->
      aget (s_store A M st') k = aget (s_store A M st) k.
  Proof. intros st rq st' o k H Hk. eapply chat_store_frame; [exact H|]. intros tid _. apply Hk. Qed.

  (* ------------------------------------------------------------------ refinement *)

  (* one step against the specification: the thread grows by exactly this request's turn *)
  Lemma chat_step_spec :
    forall st rq st' o tid,
      chat st rq = (st', o) ->
      thread (s_store A M st') (thread_prefix ++ tid)
      = thread (s_store A M st) (thread_prefix ++ tid) ++ turn_of tid rq o.
  Proof.
    intros st rq st' o tid H. unfold Threads.turn_of.
    chat_cases H; try rewrite Etid; try rewrite app_nil_r; try reflexivity.
    - (* stored *)
      destruct (str_eqb tid0 tid) eqn:E.
      + apply (str_eqb_true A eqA) in E. subst tid0. rewrite thread_aset_eq.
        rewrite <- app_assoc. reflexivity.
      + rewrite app_nil_r. apply thread_aset_other. intros Ek. apply key_injective in Ek.
        apply (str_eqb_false A eqA) in E. congruence.
    - destruct (thread_of rq); rewrite app_nil_r; reflexivity.
    - destruct (thread_of rq); rewrite app_nil_r; reflexivity.
  Qed.

  (* REFINEMENT: after any request sequence every thread is its initial content followed by
     the concatenation of all its turns, in order *)
  Theorem run_refines_spec :
    forall rqs st st' os tid,
      run st rqs = (st', os) ->
      thread (s_store A M st') (thread_prefix ++ tid)
      = thread (s_store A M st) (thread_prefix ++ tid) ++ turns_of tid rqs os.
  Proof.
    induction rqs as [|rq rqs IH]; intros st st' os tid H; simpl in H.
    - inversion H; subst. simpl. rewrite app_nil_r. reflexivity.
    - destruct (chat st rq) as [st1 o] eqn:Ec. destruct (run st1 rqs) as [st2 os'] eqn:Er.
      inversion H; subst. clear H. simpl.
      rewrite (IH st1 st' os' tid Er), (chat_step_spec st rq st1 o tid Ec), app_assoc. reflexivity.
  Qed.

  Lemma run_app :
    forall rqs1 rqs2 st,
      run st (rqs1 ++ rqs2)
      = let '(st1, os1) := run st rqs1 in
        let '(st2, os2) := run st1 rqs2 in (st2, os1 ++ os2).
  Proof.
    induction rqs1 as [|rq rqs1 IH]; intros rqs2 st; simpl.
    - destruct (run st rqs2); reflexivity.
    - destruct (chat st rq) as [st1 o]. rewrite IH.
      destruct (run st1 rqs1) as [st2 os1]. destruct (run st2 rqs2) as [st3 os2]. reflexivity.
  Qed.

  (* ... and the messages used by any turn of any sequence are all earlier turns of that
     thread followed by the new messages *)
  Theorem run_used_spec :
    forall rqs1 rq rqs2 st st1 os1 st2 o tid u,
      run st rqs1 = (st1, os1) -> chat st1 rq = (st2, o) ->
      thread_of rq = Some tid -> o_used A M o = Some u ->
      u = thread (s_store A M st) (thread_prefix ++ tid) ++ turns_of tid rqs1 os1 ++ new_messages rq
      /\ nth_error (snd (run st (rqs1 ++ rq :: rqs2))) (length rqs1) = Some o.
  Proof.
    intros rqs1 rq rqs2 st st1 os1 st2 o tid u Hr Hc Ht Hu. split.
    - destruct (chat_thread_exact st1 rq st2 o tid Hc Ht) as [H1 _].
      destruct (H1 u Hu) as [E _]. rewrite E, (run_refines_spec rqs1 st st1 os1 tid Hr), app_assoc.
      reflexivity.
    - rewrite run_app, Hr. simpl. rewrite Hc.
      destruct (run st2 rqs2) as [st3 os2]. simpl.
      assert (Hl : length os1 = length rqs1).
      { clear -Hr. revert st st1 os1 Hr. induction rqs1 as [|r rs IH]; intros st st1 os1 Hr; simpl in Hr.
        - inversion Hr; reflexivity.
        - destruct (chat st r) as [sa oa]. destruct (run sa rs) as [sb ob] eqn:E.
          inversion Hr; subst. simpl. f_equal. eapply IH. eassumption. }
      rewrite <- Hl, nth_error_app2, Nat.sub_diag by lia. reflexivity.
  Qed.

  (* ------------------------------------------------------------------ the RequestBody layer *)

  Variable field_min : nat.
  Variable field_max : option nat.

  Notation http_chat := (Threads.http_chat A eqA sep dot dash M pat use_prefix_check thread_prefix min_len
                                           field_min field_max base single default_id load_ok llm).
  Notation validate := (Threads.validate A M field_min field_max).

  (* an HTTP request is either refused by the field constraints (422: nothing happens) or is
     exactly a chat_completion call on the validated body, whose thread id - if any - has a
     length within the field bounds *)
  Theorem http_chat_cases :
    forall st h st' o,
      http_chat st h = (st', o) ->
      (st' = st /\ o_reply A M o = R422 /\ o_loads A M o = [] /\ o_used A M o = None)
      \/ exists rq, validate h = Some rq /\ chat st rq = (st', o)
                    /\ r_thread A M rq = h_thread A M h
                    /\ r_messages A M rq = h_messages A M h
                    /\ (forall t, r_thread A M rq = Some t ->
                                  field_min <= length t
                                  /\ match field_max with Some m => length t <= m | None => True end).
  Proof.
    intros st h st' o H. unfold Threads.http_chat in H.
    destruct (validate h) as [rq|] eqn:Ev.
    - right. exists rq. split; [reflexivity|]. split; [exact H|].
      unfold Threads.validate in Ev.
      destruct (match h_config_id A M h, h_config_ids A M h with
                | Some _, Some _ => None
                | Some (c :: i), None => Some [c :: i]
                | Some [], None => Some []
                | None, Some l => Some l
                | None, None => Some []
                end) as [ids|]; [|discriminate].
      destruct (h_thread A M h) as [t|] eqn:Et.
      + destruct (Nat.leb field_min (length t)) eqn:E1; simpl in Ev; [|discriminate].
        destruct field_max as [m|].
        * destruct (Nat.leb (length t) m) eqn:E2; [|discriminate].
          inversion Ev; subst; simpl. split; [reflexivity|]. split; [reflexivity|].
          intros t0 Ht0. inversion Ht0; subst.
          apply Nat.leb_le in E1. apply Nat.leb_le in E2. auto.
        * inversion Ev; subst; simpl. split; [reflexivity|]. split; [reflexivity|].
          intros t0 Ht0. inversion Ht0; subst. apply Nat.leb_le in E1. auto.
      + inversion Ev; subst; simpl. split; [reflexivity|]. split; [reflexivity|].
        intros t0 Ht0. discriminate.
    - left. inversion H; subst. simpl. auto.
  Qed.

End ThreadsProofs.
