(* C12 - Compiled flows are closed: every jump target exists and only primitives remain.
   Property theorems only; every proof is `exact <lemma>`; Print Assumptions beneath each.

   Colang 1.0: theorems about V1.Compile.compile (Gallina transcription of
   coyml_parser._extract_elements/_resolve_gotos/_process_ellipsis, tied to the real parser by
   the differential of harness/c12.py) for item trees of ANY nesting.
   Colang 2.x: soundness of the checker V2.Closed.closedb, which harness/c12.py runs inside Coq
   on the real expanded elements of every flow the loader compiles (per-program validation by a
   verified checker; expand_elements itself is not modelled), plus the (T) obligations about the
   classes the CURRENT slide()/expand_elements() dispatch on (Gen/C12Consts.v). *)
From Coq Require Import ZArith List String Bool.
From NG Require Import Gen.C12Consts
                       V1.CompileItems V1.Compile V1.CompileRun V1.Compile_proofs
                       V2.ClosedAst V2.Closed V2.Closed_proofs V2.ClosedGen_proofs
                       V2.Expand V2.Expand_proofs V2.Typed V2.Typed_proofs V2.ExpandTyping V2.ExpandTyping_proofs.
Import ListNotations.
Open Scope string_scope.

(* ---------------------------------------------------------------- Colang 1.0 *)

(* every offset of every compiled element (_next, _next_else, _next_on_break, _next_on_continue,
   each branch head) lands inside the flow, mandatory offsets are present, no label/goto is left *)
Theorem C12_v1_offsets : forall items es, compile items = Ok es -> closed_v1 es.
Proof. exact compile_closed. Qed.
Print Assumptions C12_v1_offsets.

(* every position slide()/compute_next_state() can move to from an element (incl. +1 for the
   matched branch head) is in [0, len], or -1 for the absolute jump `return` *)
Theorem C12_v1_targets :
  forall items es, compile items = Ok es ->
  forall i e t, nth_error es i = Some e -> In t (targets (Z.of_nat i) e) ->
                (-1 <= t <= zlen es)%Z /\ (t = (-1)%Z -> e_abs e = true).
Proof. exact compile_targets. Qed.
Print Assumptions C12_v1_targets.

(* flow_config.elements[head + branch_head] always exists *)
Theorem C12_v1_branch_heads_indexed :
  forall items es, compile items = Ok es ->
  forall i e h, nth_error es i = Some e -> In h (e_heads e) ->
                exists e', nth_error es (Z.to_nat (Z.of_nat i + h)) = Some e'.
Proof. exact compile_branch_heads_indexed. Qed.
Print Assumptions C12_v1_branch_heads_indexed.

(* slide() on compiled code never indexes outside the flow and never misses an offset key,
   whatever the conditions evaluate to, from every head, for every number of steps *)
Theorem C12_v1_slide_safe :
  forall cond items es, compile items = Ok es ->
  forall fuel head prev, (-1 <= head <= zlen es)%Z ->
    slide cond fuel es head prev <> SIndexError /\ slide cond fuel es head prev <> SKeyError.
Proof. exact compile_slide_safe. Qed.
Print Assumptions C12_v1_slide_safe.

(* the boolean checker run on the real elements of every shipped flow is exact, and what it
   accepts is safe to slide *)
Theorem C12_v1_checker_exact : forall es, offsets_okb es = true <-> closed_v1 es.
Proof. exact offsets_okb_iff. Qed.
Print Assumptions C12_v1_checker_exact.

Theorem C12_v1_closed_slide_safe :
  forall cond es, closed_v1 es ->
  forall fuel head prev, (-1 <= head <= zlen es)%Z ->
    slide cond fuel es head prev <> SIndexError /\ slide cond fuel es head prev <> SKeyError.
Proof. exact closed_slide_safe. Qed.
Print Assumptions C12_v1_closed_slide_safe.

(* compilation fails exactly on a duplicated label / an undefined goto target *)
Theorem C12_v1_compile_errors :
  forall items, compile items = Err DupLabel <-> has_dup (labels_of (extract items)) = true.
Proof. exact compile_errors. Qed.
Print Assumptions C12_v1_compile_errors.

(* ---------------------------------------------------------------- Colang 2.x *)

(* a flow the checker accepts: along every path of a head from the flow start no label lookup
   fails, no scope is re-opened or unknown, no failure-handler underflow, no composite element;
   the flow end is reached only with every scope closed; every referenced label (reachable or
   not) is a Label of the same flow; no composite left; every MergeHeads has its ForkHead *)
Theorem C12_v2_checker_sound : forall es, closedb es = true -> closed_v2 es.
Proof. exact closedb_sound. Qed.
Print Assumptions C12_v2_checker_sound.

Theorem C12_v2_end_no_open_scope :
  forall es, closedb es = true ->
  forall p sc ct, reach es (p, sc, ct) -> (List.length es <= p)%nat -> sc = [].
Proof. exact closed_end_no_open_scope. Qed.
Print Assumptions C12_v2_end_no_open_scope.

(* every BeginScope executed on a path is followed, on that path to the flow end, by its EndScope *)
Theorem C12_v2_begin_then_end :
  forall es, closedb es = true ->
  forall p sc ct n c1 mid pe sce cte,
    reach es (p, sc, ct) -> nth_error es p = Some (EBegin n) ->
    step es (p, sc, ct) c1 -> path es c1 mid (pe, sce, cte) -> (List.length es <= pe)%nat ->
    exists q scq ctq, In (q, scq, ctq) mid /\ nth_error es q = Some (EEnd n).
Proof. exact closed_begin_then_end. Qed.
Print Assumptions C12_v2_begin_then_end.

(* the checker's successor function is exact w.r.t. the semantics (no over-approximation) *)
Theorem C12_v2_checker_exact_steps :
  forall es c cs c', step_fn es c = Next cs -> In c' cs -> step es c c'.
Proof. exact next_is_step. Qed.
Print Assumptions C12_v2_checker_exact_steps.

(* (T) every primitive kind of the model is a class the CURRENT slide() has a branch for (or a
   raw statement its final else steps over); if/while/when and start/stop/activate/deactivate/
   await are rewritten by the CURRENT expand_elements() and are not handled by slide() *)
Theorem C12_v2_slide_handles_primitives :
  forall e, primitive e ->
            In (kind_class e) slide_classes \/ (kind_class e = ignored /\ slide_ignores_unknown = true).
Proof. exact slide_handles_primitives. Qed.
Print Assumptions C12_v2_slide_handles_primitives.

Theorem C12_v2_composites_expanded_not_slid :
  forallb (fun c => sinb c expand_classes && negb (sinb c slide_classes)) ["While"; "If"; "When"] = true /\
  forallb (fun o => sinb o expand_ops) ["start"; "stop"; "activate"; "deactivate"; "await"; "send"; "match"] = true /\
  forallb (fun o => negb (sinb o slide_sliding_ops)) ["start"; "stop"; "activate"; "deactivate"; "await"; "match"] = true.
Proof. exact composites_expanded_not_slid. Qed.
Print Assumptions C12_v2_composites_expanded_not_slid.

(* the expansion (V2/Expand.v, tied to the real expand_elements by the correspondence of
   harness/c12.py modulo renaming of the generated names).
   MODELLED, any nesting:
     if / elif / else;  while with break / continue;  return;  abort;
     match on events as any and/or group (the source tree carries its disjunctive normal form:
       one blocking element, an and-group, or an or-structure over them);
     start of flows and actions as any and/or group (single, sequence, or or-structure);
     await of flows and actions (and the bare flow call) as any and/or group - start then match
       `Finished`, the or-structure variant opens and closes a scope;
     activate of one flow or an and-group of flows;
     when / or when / else whose case triggers are an event, flow or action or an AND-group of
       them (REPAIRED expansion: else group emitted once, EndScope on the else path);
     plain statements (assignment, send of an internal event, log, print, priority, global) and
       single blocking statements (match of one event, send of an action event).
   NOT MODELLED (such flows are validated per program by closedb - C12_v2_checker_sound):
     when-cases whose trigger contains an OR: the source emits the case label, the then-body and
       the failure block once per or-branch of the trigger (duplicate labels, last one wins) and the
       copies of the then-body share their Break / Continue objects, so that an inner loop of a
       later copy jumps into the first copy - closed, but not a function of the source tree alone;
     send / stop / deactivate, singly or on groups (single deactivate is one plain element; stop of
       a single element and activate of an or-group raise NotImplementedError in the source);
     `as $ref` captures on members of a group and return-value assignments `$x = await ..`
       (they only add Assignment elements), `$x = ..."instruction"` (rewritten to an await of
       GenerateValueAction plus an assignment);
     user labels, doc strings, `pass` (steps-over elements without targets).
   For every source tree of the modelled constructs in which break / continue occur only inside
   loops, the expanded flow is closed: along every path of a head no label lookup fails, every
   BeginScope the expansion emits (when, await or-structure) is closed again - on the case paths,
   the else path, the failure paths and the break / continue / return paths -, CatchPatternFailure
   pushes and pops are balanced, the flow end is reached with no open scope; all referenced labels
   exist, every MergeHeads has its ForkHead, only primitives remain, every Break / Continue names
   its loop.
   Proof: a typing discipline (V2/Typed.v: one linear pass with a declared state per label),
   proved sound w.r.t. the head-token semantics, and a typing derivation for every expansion
   by induction over the source tree (V2/ExpandTyping_proofs.v). *)
Theorem C12_v2_expand_closed :
  forall ss, wf_list false ss = true -> closed_v2 (expand ss).
Proof. exact expand_closed. Qed.
Print Assumptions C12_v2_expand_closed.

(* soundness of the typing discipline itself, for any flow and any functional declaration G *)
Theorem C12_v2_typing_sound :
  forall (G : string -> state -> Prop),
    (forall l s1 s2, G l s1 -> G l s2 -> s1 = s2) ->
    forall es fin, typed G (Some ([], [])) es fin -> end_ok fin -> labels_okb es = true ->
    forall c, reach es c -> forall x, ~ fails es c x.
Proof. exact typed_sound. Qed.
Print Assumptions C12_v2_typing_sound.

(* its static part holds without the well-formedness hypothesis *)
Theorem C12_v2_expand_static_closed_partial :
  forall ss, labels_okb (expand ss) = true /\ no_compositeb (expand ss) = true /\ merges_okb (expand ss) = true.
Proof. exact expand_static_closed. Qed.
Print Assumptions C12_v2_expand_static_closed_partial.

(* ... and, in a source where break / continue occur only inside loops, at every statement position
   of every nested construct (if/else, each when case, when-else, nested loops), every expanded
   Break / Continue carries the label of its loop *)
Theorem C12_v2_expand_loop_exits_partial :
  forall ss, wf_list false ss = true -> loop_exits_okb (expand ss) = true.
Proof. exact expand_loop_exits. Qed.
Print Assumptions C12_v2_expand_loop_exits_partial.

Theorem C12_v2_expand_labels_exist :
  forall ss i e l, nth_error (expand ss) i = Some e -> In l (elem_labels e) ->
                   exists k, (k < List.length (expand ss))%nat /\ nth_error (expand ss) k = Some (ELabel l).
Proof. exact expand_labels_exist. Qed.
Print Assumptions C12_v2_expand_labels_exist.

(* regression documentation (F8): the expansion of `when .. else` WITHOUT an EndScope on the else
   path, inside a loop, reaches BeginScope with the scope still open - the runtime error
   "Scope with name .. already opened in this head!" *)
Theorem C12_v2_when_else_without_endscope_refuted :
  exists c, reach (when_else false) c /\ fails (when_else false) c (XScopeReopened "s").
Proof. exact when_else_unfixed_refuted. Qed.
Print Assumptions C12_v2_when_else_without_endscope_refuted.

(* ... and with it the same flow is closed *)
Theorem C12_v2_when_else_with_endscope_closed : closed_v2 (when_else true).
Proof. exact closed_v2_when_else_fixed. Qed.
Print Assumptions C12_v2_when_else_with_endscope_closed.
