"""C08 — Flow calls bind parameters, defaults and return values; locals are private.

Model: coq/theories/V2/Bind.v (create_flow_instance, _start_flow, call syntax -> `$i`/named,
StartFlow/FlowStarted/FlowFinished argument dicts, Assignment/Global/Return, per-instance
contexts on a heap of cells); theorems: Props/C08.v.
Tie (T): translator/gen_c08.py reads expansion.py and emits Gen/C08Consts.v (does the caller's
FlowStarted match carry the call arguments?), so the model is right for the source as it is and
for the candidate repair fixes/C08-flowstarted-match.patch.
Tie (X): (a) function level - the real create_flow_instance + _start_flow on real FlowConfig
objects (signatures parsed by the repository's parser) and generated event_arguments dicts,
`arguments` and `context` compared item by item, in order, with the model evaluated inside Coq;
(b) end to end - generated programs (signatures x call forms x value types, nested, recursive,
sibling instances, globals, ill-formed calls) run by the real interpreter in child processes under
a shell timeout; echoed events, the fate of `main`, every instance's final context and the global
context compared with the model's big-step interpreter (V2/BindRun.v, built on Bind.step)
evaluated inside Coq.
Oracle: the property text re-stated in Python (binding rule, return value, locals unchanged
elsewhere, recursion) applied to the implementation's observations (families A, G, R and the
function level).
Observations O1-O4 (ill-formed calls, missing return) are counted and reported in the evidence,
not treated as violations.  O5 (a WELL-FORMED await hangs when the callee changes a global that an
argument mentions) is a finding, listed in KNOWN_FINDINGS.txt.
"""
from __future__ import annotations

import json
import os
import random
import sys
import tempfile
from concurrent.futures import ThreadPoolExecutor

from harness import common as C

PID = "C08"
GEN = ["MatchConsts", "C08Consts"]   # V2/BindRun.v uses the real matcher (Val.Match) for the FlowStarted
                                     # match and the translated shape of that match (Gen/C08Consts.v)
O5_IS_FINDING = True
O5_SIG = "await-hangs-callee-changes-global-used-in-argument"

PREAMBLE = """From Coq Require Import ZArith List String.
From NG Require Import Val.Value V2.Bind V2.BindRun.
Import ListNotations.
Open Scope string_scope.
"""

RESERVED = ["flow_id", "flow_instance_uid", "activated", "source_flow_instance_uid", "source_head_uid",
            "flow_hierarchy_position", "context"]

# ---------------------------------------------------------------------------------------
# values and expressions (JSON-able ASTs)
#   expr: ["lit", v] | ["var", x] | ["list", [e..]] | ["dict", [[k, e]..]] | ["sub1", e]

STR_POOL = ["", "a", "b1", "hi there", "x_y", "None", "0", "True"]
INT_POOL = [0, 1, 2, 3, 7, -1, -5, 10, 42, 1000000007]
FLOAT_POOL = [0.0, 1.0, 2.5, -0.25, 1.75, 12.0, -3.5]


def rand_value(rng, depth=2, top=True):
    """a value of any type; negative numbers only at the top level (the Colang grammar has no
    signed literals inside list/dict displays)"""
    k = rng.randrange(10 if depth > 0 else 7)
    if k == 0:
        return None
    if k == 1:
        return rng.choice([True, False])
    if k in (2, 3):
        return rng.choice(INT_POOL if top else [x for x in INT_POOL if x >= 0])
    if k == 4:
        return rng.choice(FLOAT_POOL if top else [x for x in FLOAT_POOL if x >= 0])
    if k in (5, 6):
        return rng.choice(STR_POOL)
    if k in (7, 8):
        return [rand_value(rng, depth - 1, False) for _ in range(rng.randint(0, 3))]
    keys = rng.sample(["k", "a", "b", "name", "n"], rng.randint(0, 3))
    return {kk: rand_value(rng, depth - 1, False) for kk in keys}


def rand_scalar_simple(rng):
    """literal that is safe as an argument of the `f a b` call syntax"""
    k = rng.randrange(6)
    if k == 0:
        return None
    if k == 1:
        return rng.choice([True, False])
    if k == 2:
        return rng.choice([0, 1, 2, 7, 42])
    if k == 3:
        return rng.choice([0.0, 2.5, 1.75])
    return rng.choice(STR_POOL)


def rand_expr(rng, vars_, depth=2, p_var=0.3, top=True):
    """expression over the given variable names"""
    r = rng.random()
    if vars_ and r < p_var:
        return ["var", rng.choice(vars_)]
    if vars_ and depth > 0 and r < p_var + 0.12:
        return ["list", [rand_expr(rng, vars_, depth - 1, 0.5, False) for _ in range(rng.randint(1, 3))]]
    if vars_ and depth > 0 and r < p_var + 0.2:
        return ["dict", [[k, rand_expr(rng, vars_, depth - 1, 0.5, False)] for k in rng.sample(["k", "a", "b"], rng.randint(1, 2))]]
    return ["lit", rand_value(rng, depth, top)]


def expr_vars(e):
    t = e[0]
    if t == "var":
        return {e[1]}
    if t == "list":
        return set().union(*[expr_vars(x) for x in e[1]]) if e[1] else set()
    if t == "dict":
        return set().union(*[expr_vars(x) for _, x in e[1]]) if e[1] else set()
    if t == "sub1":
        return expr_vars(e[1])
    return set()


def pyeval(e, ctx):
    """independent evaluation of an expression AST (oracle side): unknown variable = None"""
    t = e[0]
    if t == "lit":
        return e[1]
    if t == "var":
        return ctx.get(e[1])
    if t == "list":
        return [pyeval(x, ctx) for x in e[1]]
    if t == "dict":
        return {k: pyeval(x, ctx) for k, x in e[1]}
    if t == "sub1":
        return pyeval(e[1], ctx) - 1
    raise ValueError(t)


# ---- rendering as Colang source


def src_value(v):
    if v is None:
        return "None"
    if isinstance(v, bool):
        return "True" if v else "False"
    if isinstance(v, (int, float)):
        return repr(v)
    if isinstance(v, str):
        assert all(c not in v for c in '"\\{}$\n')
        return '"' + v + '"'
    if isinstance(v, list):
        return "[" + ", ".join(src_value(x) for x in v) + "]"
    if isinstance(v, dict):
        return "{" + ", ".join(f'"{k}": {src_value(x)}' for k, x in v.items()) + "}"
    raise ValueError(type(v))


def src_expr(e):
    t = e[0]
    if t == "lit":
        return src_value(e[1])
    if t == "var":
        return "$" + e[1]
    if t == "list":
        return "[" + ", ".join(src_expr(x) for x in e[1]) + "]"
    if t == "dict":
        return "{" + ", ".join(f'"{k}": {src_expr(x)}' for k, x in e[1]) + "}"
    if t == "sub1":
        return src_expr(e[1]) + " - 1"
    raise ValueError(t)


def simple_safe(e):
    if e[0] == "var":
        return True
    if e[0] == "lit":
        v = e[1]
        if v is None or isinstance(v, (bool, str)):
            return True
        if isinstance(v, (int, float)):
            return v >= 0
    return False


def src_call(st):
    _, form, syntax, f, args, ret = st
    if syntax == "simple":
        parts = []
        for a in args:
            parts.append(src_expr(a[1]) if a[0] == "pos" else f"${a[1]}={src_expr(a[2])}")
        call = f + ("" if not parts else " " + " ".join(parts))
    else:
        parts = []
        for a in args:
            parts.append(src_expr(a[1]) if a[0] == "pos" else f"{a[1]}={src_expr(a[2])}")
        call = f + "(" + ", ".join(parts) + ")"
    kw = {"await": "await", "start": "start", "activate": "activate"}[form]
    return (f"${ret} = " if ret else "") + f"{kw} {call}"


def src_body(body, ind):
    out = []
    pad = "  " * ind
    for st in body:
        t = st[0]
        if t == "assign":
            out.append(f"{pad}${st[1]} = {src_expr(st[2])}")
        elif t == "global":
            out.append(f"{pad}global ${st[1]}")
        elif t == "echo":
            kv = "".join(f", {k}={src_expr(e)}" for k, e in st[2])
            out.append(f"{pad}send Echo(tag={st[1]}{kv})")
        elif t == "call":
            out.append(pad + src_call(st))
        elif t == "return":
            out.append(pad + ("return" if st[1] is None else "return " + src_expr(st[1])))
        elif t == "ifpos":
            out.append(f"{pad}if ${st[1]} > 0")
            out += src_body(st[2], ind + 1)
        elif t == "wait":
            out.append(f"{pad}match Never()")
        elif t == "waitev":
            out.append(f"{pad}match {st[1]}()")
        else:
            raise ValueError(t)
    return out


def src_sig(fl):
    s = "flow " + fl["name"]
    for n, d in fl["params"]:
        s += f" ${n}" + ("" if d is None else "=" + src_expr(d))
    if fl["rets"]:
        s += " -> " + ", ".join(f"${n}" + ("" if d is None else " = " + src_expr(d)) for n, d in fl["rets"])
    return s


def src_prog(prog):
    lines = []
    for fl in prog["flows"]:
        lines.append(src_sig(fl))
        body = src_body(fl["body"], 1)
        lines += body if body else ["  pass"]
        lines.append("")
    return "\n".join(lines) + "\n"


# ---- rendering as Coq terms


class Unsupported(Exception):
    pass


def cv(x):
    if x is None:
        return "VNone"
    if isinstance(x, bool):
        return f"(VBool {C.coq_bool(x)})"
    if isinstance(x, int):
        return f"(VInt {C.coq_Z(x)})"
    if isinstance(x, float):
        q = x * 4
        if q != int(q) or abs(q) > 10 ** 9:
            raise Unsupported(f"float {x}")
        return f"(VFloat {C.coq_Z(int(q))})"
    if isinstance(x, str):
        return f"(VStr {C.coq_string(x)})"
    if isinstance(x, list):
        return "(VList " + C.coq_list([cv(e) for e in x]) + ")"
    if isinstance(x, dict):
        for k in x:
            if not isinstance(k, str):
                raise Unsupported("non-str dict key")
        return "(VDict " + C.coq_list([f"({C.coq_string(k)}, {cv(v)})" for k, v in x.items()]) + ")"
    raise Unsupported(type(x).__name__)


def cctx(items):
    return "(" + C.coq_list([f"({C.coq_string(k)}, {cv(v)})" for k, v in items]) + " : ctx)"


def ce(e):
    t = e[0]
    if t == "lit":
        return f"(CLit {cv(e[1])})"
    if t == "var":
        return f"(CVar {C.coq_string(e[1])})"
    if t == "list":
        return "(CList " + C.coq_list([ce(x) for x in e[1]]) + ")"
    if t == "dict":
        return "(CDict " + C.coq_list([f"({C.coq_string(k)}, {ce(x)})" for k, x in e[1]]) + ")"
    if t == "sub1":
        return f"(CSub1 {ce(e[1])})"
    raise ValueError(t)


def cparams(ps):
    items = [f"(@mkParam cexpr {C.coq_string(n)} {C.coq_option(None if d is None else ce(d))})" for n, d in ps]
    return "(" + C.coq_list(items) + " : list (param cexpr))"


def cargs(args):
    items = [f"(APos {ce(a[1])})" if a[0] == "pos" else f"(ANamed {C.coq_string(a[1])} {ce(a[2])})" for a in args]
    return "(" + C.coq_list(items) + " : list (arg cexpr))"


def cbody(body):
    out = []
    for st in body:
        t = st[0]
        if t == "assign":
            out.append(f"(SAssign {C.coq_string(st[1])} {ce(st[2])})")
        elif t == "global":
            out.append(f"(SGlobal {C.coq_string(st[1])})")
        elif t == "echo":
            kv = C.coq_list([f"({C.coq_string(k)}, {ce(e)})" for k, e in st[2]])
            out.append(f"(SEcho {C.coq_Z(st[1])} {kv})")
        elif t == "call":
            _, form, _syntax, f, args, ret = st
            fm = {"await": "FAwait", "start": "FStart", "activate": "FActivate"}[form]
            out.append(f"(SCall {fm} {C.coq_string(f)} {cargs(args)} {C.coq_option(C.coq_string(ret) if ret else None)})")
        elif t == "return":
            out.append(f"(SReturn {C.coq_option(None if st[1] is None else ce(st[1]))})")
        elif t == "ifpos":
            out.append(f"(SIfPos {C.coq_string(st[1])} {cbody(st[2])})")
        elif t == "wait":
            out.append("SWait")
        else:
            raise ValueError(t)
    return "(" + C.coq_list(out) + " : list stmt)"


def cprog(prog):
    return "(" + C.coq_list([f"({C.coq_string(fl['name'])}, mkFlow {cparams(fl['params'])} {cparams(fl['rets'])} {cbody(fl['body'])})"
                             for fl in prog["flows"]]) + " : prog)"


# ---------------------------------------------------------------------------------------
# generators

NAME_POOLS = [["p0", "p1", "p2", "p3"], ["a", "b", "c", "d"], ["text", "n", "loc", "y"]]


def gen_sig(rng, name="f", n=None, default_vars=("y", "loc", "p0", "a")):
    big = False
    if n is None:
        # mostly 0-4 parameters; now and then 11-13, so that calls have two-digit positional keys
        # (`$10` sorts before `$2` as a string)
        big = rng.random() < 0.05
        n = rng.randint(11, 13) if big else rng.randint(0, 4)
    names = [f"q{i}" for i in range(n)] if n > 4 else list(rng.choice(NAME_POOLS))[:n]
    if rng.random() < 0.3 and not big:
        rng.shuffle(names)
    params = []
    for nm in names:
        if rng.random() < 0.5:
            # defaults of every value type; some mention a variable (evaluated in the EMPTY context)
            params.append([nm, rand_expr(rng, list(default_vars), 1 if big else 2, 0.15)])
        else:
            params.append([nm, None])
    rets = []
    for rn in rng.sample(["r0", "r1"], rng.choice([0, 0, 1, 2])):
        rets.append([rn, rand_expr(rng, list(default_vars), 1, 0.1) if rng.random() < 0.7 else None])
    return {"name": name, "params": params, "rets": rets, "body": []}


def gen_ev(rng, sig):
    """event_arguments for the function-level check: any mix, also shapes the parser cannot produce"""
    n = len(sig["params"])
    items = [["flow_id", "f"], ["flow_instance_uid", "(f)new"], ["source_flow_instance_uid", "@MAIN"],
             ["source_head_uid", "(head)"], ["flow_hierarchy_position", "0.1"]]
    if rng.random() < 0.15:
        items.append(["activated", True])
    r = rng.random()
    if r < 0.55:
        k = rng.randint(n - 2, n) if n >= 11 else rng.randint(0, n)
    elif r < 0.8:
        k = rng.randint(n, 2 * n + 2)
    else:
        k = rng.randint(0, 2 * n + 2)
    pos = list(range(k))
    if pos and rng.random() < 0.12:
        del pos[rng.randrange(len(pos))]       # a gap: cannot come from the parser
    for i in pos:
        items.append([f"${i}", rand_value(rng)])
    for nm, _ in sig["params"]:
        if rng.random() < 0.3:
            items.append([nm, rand_value(rng)])
    if rng.random() < 0.1:
        items.append([rng.choice(["zz", "q"]), rand_value(rng)])
    rng.shuffle(items)
    shared = None
    if rng.random() < 0.1:
        shared = [[k_, rand_value(rng, 1)] for k_ in rng.sample(["loc", "y", "p0", "r0", "w"], rng.randint(0, 3))]
    return {"items": items, "shared": shared}


def ev_shape(sig, ev):
    """(n, k_contiguous?, k, named-on-positional?, unknown names?)"""
    n = len(sig["params"])
    keys = [k for k, _ in ev["items"]]
    pos = sorted(int(k[1:]) for k in keys if k.startswith("$"))
    contiguous = pos == list(range(len(pos)))
    k = len(pos)
    names = [p[0] for p in sig["params"]]
    double = any(names[i] in keys for i in pos if i < n)
    unknown = any((not kk.startswith("$")) and kk not in names and kk not in RESERVED for kk in keys)
    return n, contiguous, k, double, unknown


def gen_args(rng, sig, caller_vars, kind):
    """call arguments. kind: 'wf' | 'surplus' | 'double' | 'unknown'"""
    names = [p[0] for p in sig["params"]]
    n = len(names)

    def ex():
        return rand_expr(rng, caller_vars, 2, 0.4)

    if kind == "surplus":
        k = rng.randint(n + 1, 2 * n + 2)
        return [["pos", ex()] for _ in range(k)]
    k = rng.randint(11, n) if n >= 11 and rng.random() < 0.7 else rng.randint(0, n)
    args = [["pos", ex()] for _ in range(k)]
    rest = names[k:]
    named = [nm for nm in rest if rng.random() < 0.5]
    rng.shuffle(named)
    args += [["named", nm, ex()] for nm in named]
    if kind == "double" and k > 0:
        # the second binding is a scalar literal: a dict read through a variable is an AttributeDict
        # object, which the matcher does not accept for a plain-dict pattern (isinstance asymmetry
        # between dict and its subclass) - a representation detail outside the value model, and
        # reachable only when one parameter is bound by two different expressions
        args.append(["named", names[rng.randrange(k)], ["lit", rand_scalar_simple(rng)]])
    elif kind == "double":
        kind = "unknown"
    if kind == "unknown":
        args.append(["named", rng.choice(["zz", "q"]), ex()])
    return args


def pick_syntax(rng, args):
    if all(simple_safe(a[-1]) for a in args) and rng.random() < 0.5:
        # the `f a $n=b c` syntax: positional arguments may stand anywhere
        if rng.random() < 0.3:
            args = list(args)
            rng.shuffle(args)
        return "simple", args
    return "classic", args


def call_kind(rng, sig, p_ill):
    if rng.random() >= p_ill:
        return "wf"
    return rng.choice(["surplus", "double", "unknown"])


def echo_of(tag, keys):
    seen = []
    for k in keys:
        if k not in seen:
            seen.append(k)
    return ["echo", tag, [[k, ["var", k]] for k in seen]]


class TagGen:
    def __init__(self):
        self.n = 0

    def next(self):
        self.n += 1
        return self.n


def gen_prog_A(rng):
    """family A: one call from main; the direct oracle applies"""
    tags = TagGen()
    sig = gen_sig(rng, "f")
    names = [p[0] for p in sig["params"]]
    form = rng.choice(["await", "await", "await", "start", "activate"])
    kind = call_kind(rng, sig, 0.12)
    caller_vars = ["y", "z"]
    args = gen_args(rng, sig, caller_vars, kind)
    syntax, args = pick_syntax(rng, args)
    want_ret = form == "await" and rng.random() < 0.8
    v_loc_callee = rand_value(rng, 1)
    body = [["assign", "loc", ["lit", v_loc_callee]],
            ["assign", "y", ["lit", rand_value(rng, 1)]]]
    if names and rng.random() < 0.3:
        body.append(["assign", "z", ["var", names[0]]])
    echo_keys = names + [r[0] for r in sig["rets"]] + ["loc"]
    body.append(echo_of(tags.next(), echo_keys))
    rk = rng.random()
    if form == "activate":
        body.append(["wait"])
    elif want_ret or rk < 0.6:
        if rng.random() < 0.15:
            body.append(["return", None])
        else:
            body.append(["return", rand_expr(rng, names + ["loc"], 2, 0.5)])
    sig["body"] = body
    mbody = [["assign", "loc", ["lit", rand_value(rng, 1)]],
             ["assign", "y", ["lit", rand_value(rng, 2)]],
             ["assign", "z", ["lit", rand_value(rng, 1)]],
             ["call", form, syntax, "f", args, "x" if want_ret else None],
             echo_of(tags.next(), ["x", "loc", "y", "z"] + names[:1]),
             ["echo", 99, []],
             ["wait"]]
    main = {"name": "main", "params": [], "rets": [], "body": mbody}
    return {"flows": [sig, main], "family": "A", "kind": kind}


def gen_prog_B(rng):
    """family B: nested calls, recursion, sibling instances, same-named locals, globals"""
    tags = TagGen()
    use_globals = rng.random() < 0.35
    only_await = use_globals or rng.random() < 0.4
    m = rng.randint(1, 3)
    flows = []
    gnames = ["g", "h"]
    for idx in range(m):
        sig = gen_sig(rng, f"f{idx}")
        names = [p[0] for p in sig["params"]]
        body = []
        if use_globals and rng.random() < 0.6:
            body.append(["global", rng.choice(gnames)])
        locs = ["loc", "y", "tmp"]
        for _ in range(rng.randint(1, 3)):
            body.append(["assign", rng.choice(locs + names), rand_expr(rng, names + locs + gnames, 1, 0.35)])
        if use_globals and rng.random() < 0.5:
            body.append(["assign", rng.choice(gnames), rand_expr(rng, names + locs, 1, 0.4)])
        # nested calls to earlier flows
        for _ in range(rng.choice([0, 1, 1, 2]) if idx > 0 else 0):
            tgt = flows[rng.randrange(idx)]
            kind = call_kind(rng, tgt, 0.06)
            args = gen_args(rng, tgt, names + locs, kind)
            syntax, args = pick_syntax(rng, args)
            # a started (not awaited) flow that itself awaits runs concurrently with its caller:
            # competing actions are C05's business, so only leaf flows are started/activated
            form = "await" if only_await or _has_calls(tgt) else rng.choice(["await", "await", "start"])
            ret = rng.choice(locs + ["x"]) if form == "await" and _has_return(tgt) and rng.random() < 0.6 else None
            body.append(["call", form, syntax, tgt["name"], args, ret])
            body.append(["assign", rng.choice(locs), rand_expr(rng, names + locs, 1, 0.4)])
        keys = names + [r[0] for r in sig["rets"]] + locs + (gnames if use_globals else [])
        body.append(echo_of(tags.next(), keys))
        if rng.random() < 0.7:
            body.append(["return", None if rng.random() < 0.1 else rand_expr(rng, names + locs, 2, 0.5)])
        sig["body"] = body
        flows.append(sig)
    # a recursive flow: every level assigns the same-named local and echoes it AFTER the inner call
    has_rec = rng.random() < 0.5
    if has_rec:
        extra = gen_sig(rng, "rec", n=rng.randint(0, 2))
        extra["params"] = [["n", None]] + [p for p in extra["params"] if p[0] not in ("n", "loc")]
        enames = [p[0] for p in extra["params"]]
        rb = []
        if use_globals:
            rb.append(["global", "g"])
        rb.append(["assign", "loc", ["list", [["var", "n"], ["lit", rand_value(rng, 0, False)]]]])
        inner_args = [["pos", ["sub1", ["var", "n"]]]]
        for nm in enames[1:]:
            if rng.random() < 0.5:
                inner_args.append(["named", nm, rand_expr(rng, enames + ["loc"], 1, 0.5)])
        inner = [["call", "await", "classic", "rec", inner_args, "sub" if rng.random() < 0.6 else None]]
        if use_globals and rng.random() < 0.5:
            inner.append(["assign", "g", ["var", "n"]])
        rb.append(["ifpos", "n", inner])
        rb.append(echo_of(tags.next(), enames + ["loc", "sub"] + (["g"] if use_globals else [])))
        rb.append(["return", ["list", [["var", "n"], ["var", "loc"]]]])
        extra["body"] = rb
        flows.append(extra)
    has_act = (not only_await) and rng.random() < 0.4
    if has_act:
        act = gen_sig(rng, "act")
        anames = [p[0] for p in act["params"]]
        act["body"] = [["assign", "loc", rand_expr(rng, anames, 1, 0.5)],
                       echo_of(tags.next(), anames + [r[0] for r in act["rets"]] + ["loc"]),
                       ["wait"]]
        flows.append(act)
    # main
    mvars = ["loc", "y", "tmp", "x"]
    mbody = []
    if use_globals:
        mbody += [["global", "g"], ["global", "h"], ["assign", "g", ["lit", rand_value(rng, 1)]]]
    mbody += [["assign", "loc", ["lit", rand_value(rng, 1)]], ["assign", "y", ["lit", rand_value(rng, 2)]]]
    ncalls = rng.randint(1, 4)
    act_done = False
    for _ in range(ncalls):
        cands = [f for f in flows if f["name"] != "act"]
        tgt = rng.choice(cands)
        if has_act and not act_done and rng.random() < 0.5:
            tgt = flows[-1]
            act_done = True
        if tgt["name"] == "rec":
            depth = rng.randint(0, 3)
            args = [["pos", ["lit", depth]]]
            for nm, _d in tgt["params"][1:]:
                if rng.random() < 0.5:
                    args.append(["named", nm, rand_expr(rng, mvars, 1, 0.4)])
            form, syntax, kind = "await", "classic", "wf"
        else:
            kind = call_kind(rng, tgt, 0.08)
            # A call argument may mention a global only when the callee is a leaf flow: the caller's
            # FlowStarted match is evaluated when the callee first waits at a user-level match, which
            # for a callee with nested awaits is in the MIDDLE of its body (after its first nested
            # call, before the later ones), not after it ran; the big-step model evaluates the
            # pattern after the callee's run, which is the same moment only for leaf callees.
            # (Found by seed 4 / the thorough tier; scheduling of internal events is C09's business.)
            args = gen_args(rng, tgt, mvars + (gnames if use_globals and not _has_calls(tgt) else []), kind)
            syntax, args = pick_syntax(rng, args)
            form = "activate" if tgt["name"] == "act" else ("await" if only_await or _has_calls(tgt) else rng.choice(["await", "await", "start", "start"]))
        ret = rng.choice(["x", "loc", "tmp"]) if form == "await" and _has_return(tgt) and rng.random() < 0.6 else None
        if use_globals and ret is None and form == "await" and _has_return(tgt) and rng.random() < 0.3:
            ret = "g"
        mbody.append(["call", form, syntax, tgt["name"], args, ret])
        mbody.append(echo_of(tags.next(), mvars + (gnames if use_globals else [])))
        if rng.random() < 0.4:
            mbody.append(["assign", rng.choice(mvars), rand_expr(rng, mvars, 1, 0.4)])
    mbody += [["echo", 99, []], ["wait"]]
    flows.append({"name": "main", "params": [], "rets": [], "body": mbody})
    return {"flows": flows, "family": "B", "ordered": only_await}


def gen_prog_O4(rng):
    """`$x = await f` where f ends without executing `return` (observation O4)"""
    sig = gen_sig(rng, "f")
    names = [p[0] for p in sig["params"]]
    sig["body"] = [["echo", 1, [[k, ["var", k]] for k in names]]]
    args = gen_args(rng, sig, ["y"], "wf")
    syntax, args = pick_syntax(rng, args)
    mid = {"name": "mid", "params": [], "rets": [], "body": [["call", "await", syntax, "f", args, "x"], ["echo", 2, []], ["return", ["var", "x"]]]}
    nested = rng.random() < 0.5
    mbody = [["assign", "x", ["lit", 77]], ["assign", "y", ["lit", rand_value(rng, 1)]]]
    if nested:
        mbody.append(["call", "await", "classic", "mid", [], "x"])
    else:
        mbody.append(["call", "await", syntax, "f", args, "x"])
    mbody += [["echo", 3, [["x", ["var", "x"]]]], ["echo", 99, []], ["wait"]]
    flows = [sig] + ([mid] if nested else []) + [{"name": "main", "params": [], "rets": [], "body": mbody}]
    return {"flows": flows, "family": "O4", "ordered": True}


def gen_prog_G(rng):
    """family G (O5): a well-formed await whose callee assigns a global that a call argument
    mentions, before the callee is started.  The direct oracle applies."""
    sig = gen_sig(rng, "f", n=rng.randint(1, 3))
    names = [p[0] for p in sig["params"]]
    v1, v2 = rng.sample([1, 2, 3, 5, 8, "a", "b1", 2.5, True], 2)
    args = gen_args(rng, sig, ["y"], "wf")
    # make one argument mention $g
    gexpr = rng.choice([["var", "g"], ["list", [["var", "g"], ["lit", 1]]], ["dict", [["k", ["var", "g"]]]]])
    pos = [a for a in args if a[0] == "pos"]
    if pos and rng.random() < 0.6:
        pos[rng.randrange(len(pos))][1] = gexpr
    else:
        named = [a for a in args if a[0] == "named"]
        if named:
            named[rng.randrange(len(named))][2] = gexpr
        else:
            free = names[len(pos):]
            if free:
                args.append(["named", free[0], gexpr])
            else:
                pos[-1][1] = gexpr
    syntax, args = pick_syntax(rng, args)
    want_ret = rng.random() < 0.8
    body = [["global", "g"], ["assign", "loc", ["lit", rand_value(rng, 1)]], ["assign", "g", ["lit", v2]],
            echo_of(1, names + ["loc", "g"]), ["return", rand_expr(rng, names + ["loc"], 1, 0.6)]]
    sig["body"] = body
    mbody = [["global", "g"], ["assign", "g", ["lit", v1]], ["assign", "loc", ["lit", rand_value(rng, 1)]],
             ["assign", "y", ["lit", rand_value(rng, 1)]],
             ["call", "await", syntax, "f", args, "x" if want_ret else None],
             echo_of(2, ["x", "loc", "y", "g"]), ["echo", 99, []], ["wait"]]
    main = {"name": "main", "params": [], "rets": [], "body": mbody}
    return {"flows": [sig, main], "family": "G", "kind": "wf", "ordered": True}


# values with many Python-equalities between them, falsy ones included
ACT_POOL = [0, False, "", [], {}, None, 0.0, 1, True, 1.0, 2, "a", [1], {"k": 1}, [0], 2.5]


def gen_act_sig(rng, name="watch"):
    n = rng.randint(1, 3)
    names = list(rng.choice(NAME_POOLS))[:n]
    params = []
    for nm in names:
        r = rng.random()
        if r < 0.7:
            params.append([nm, ["lit", rng.choice(ACT_POOL[7:] if rng.random() < 0.7 else ACT_POOL)]])
        else:
            params.append([nm, None])
    return {"name": name, "params": params, "rets": [], "body": []}


def gen_act_args(rng, sig, vec=None):
    """a well-formed call (positional prefix, named rest, some omitted) - if [vec] is given, one that
    binds (Python-)equal values through a possibly different mix of forms"""
    names = [p[0] for p in sig["params"]]
    n = len(names)
    k = rng.randint(0, n)
    args = []
    for i in range(n):
        nm, dflt = sig["params"][i]
        if vec is not None:
            val = vec[i]
            if rng.random() < 0.3:
                eqs = [x for x in ACT_POOL if _pyeq(x, val)]
                val = rng.choice(eqs) if eqs else val
        else:
            val = rng.choice(ACT_POOL)
        if i < k:
            args.append(["pos", ["lit", val]])
        else:
            can_omit = (vec is None) or (dflt is not None and _pyeq(pyeval(dflt, {}), val)) or (dflt is None and val is None)
            if can_omit and rng.random() < 0.5:
                continue
            args.append(["named", nm, ["lit", val]])
    named = [a for a in args if a[0] == "named"]
    rng.shuffle(named)
    return [a for a in args if a[0] == "pos"] + named


def _pyeq(a, b):
    try:
        return bool(a == b)
    except Exception:
        return False


def bound_vector(sig, args, ctx=None):
    """the binding rule of the property text, independently: positional, else named, else default
    (empty context), else None"""
    ctx = ctx or {}
    pos = [a[1] for a in args if a[0] == "pos"]
    named = {a[1]: a[2] for a in args if a[0] == "named"}
    out = []
    for i, (nm, dflt) in enumerate(sig["params"]):
        if i < len(pos):
            out.append(pyeval(pos[i], ctx))
        elif nm in named:
            out.append(pyeval(named[nm], ctx))
        elif dflt is not None:
            out.append(pyeval(dflt, {}))
        else:
            out.append(None)
    return out


def args_to_ev(args, activated=True):
    items = [["flow_id", "f"], ["flow_instance_uid", "(f)new"], ["source_flow_instance_uid", "@MAIN"],
             ["source_head_uid", "(head)"], ["flow_hierarchy_position", "0.1"]]
    if activated:
        items.append(["activated", True])
    i = 0
    for a in args:
        if a[0] == "pos":
            items.append([f"${i}", a[1][1]])
            i += 1
        else:
            items.append([a[1], a[2][1]])
    return {"items": items, "shared": None}


def gen_actref_case(rng):
    """function level: instances of one flow (some activated reference instances) + a new StartFlow"""
    sig = gen_act_sig(rng, "f")
    insts = []
    for _ in range(rng.randint(1, 3)):
        a = gen_act_args(rng, sig)
        kind = rng.choice(["ref", "ref", "ref", "not-activated", "child-of-same-flow", "parent-gone"])
        insts.append({"args": a, "kind": kind})
    evs = []
    for _ in range(6):
        if rng.random() < 0.6:
            base = rng.choice(insts)
            vec = bound_vector(sig, base["args"])
            if rng.random() < 0.4:      # change one value, preferably into a falsy one
                j = rng.randrange(len(vec))
                vec = list(vec)
                vec[j] = rng.choice(ACT_POOL[:7] if rng.random() < 0.6 else ACT_POOL)
            evs.append(gen_act_args(rng, sig, vec))
        else:
            evs.append(gen_act_args(rng, sig))
    return {"sig": sig, "insts": insts, "calls": evs}


def oracle_actref(sig, insts, call, res):
    """an activation may only be identified with an instance whose bound parameter values are equal"""
    if res.get("index") is None:
        return None
    j = res["index"]
    if j >= len(insts):
        return ("activation-reference-out-of-range", f"returned instance {j}")
    v_old = bound_vector(sig, insts[j]["args"])
    v_new = bound_vector(sig, call)
    for (nm, _d), a, b in zip(sig["params"], v_old, v_new):
        if not _pyeq(a, b):
            return ("activation-identified-despite-different-bound-values",
                    f"`activate` binding {nm}={b!r} is taken for the activated instance with {nm}={a!r}: no instance receives {b!r}")
    return None


def gen_prog_V(rng):
    """family V: main activates one flow repeatedly with equal / different parameter vectors (falsy
    and truthy values; named, positional and default mixes; an occasional plain `start`)."""
    sig = gen_act_sig(rng, "watch")
    names = [p[0] for p in sig["params"]]
    sig["body"] = [echo_of(1, names), ["wait"]]
    mbody = []
    calls = []
    vecs = []
    for j in range(rng.randint(2, 5)):
        r = rng.random()
        if vecs and r < 0.35:
            args = gen_act_args(rng, sig, rng.choice(vecs))
        elif vecs and r < 0.6:
            vec = list(rng.choice(vecs))
            vec[rng.randrange(len(vec))] = rng.choice(ACT_POOL[:7])
            args = gen_act_args(rng, sig, vec)
        else:
            args = gen_act_args(rng, sig)
        form = "start" if rng.random() < 0.12 else "activate"
        syntax, args = pick_syntax(rng, args)
        if syntax == "simple":
            # keep the positional prefix in front (a shuffled simple call renumbers nothing, but
            # the oracle below reads positions in order of appearance anyway)
            pass
        vecs.append(bound_vector(sig, args))
        calls.append((form, args))
        mbody.append(["call", form, syntax, "watch", args, None])
        mbody.append(["echo", 100 + j, []])
    mbody += [["echo", 99, []], ["wait"]]
    main = {"name": "main", "params": [], "rets": [], "body": mbody}
    return {"flows": [sig, main], "family": "V", "ordered": False}


def oracle_prog_V(prog, res):
    """every activation (reached by main) with a NEW parameter vector starts an instance that
    echoes exactly those values; a plain `start` always does"""
    if prog.get("family") != "V" or res.get("echoes") is None:
        return None
    sig, main = prog["flows"]
    calls = [st for st in main["body"] if st[0] == "call"]
    tags = {t for t, _ in res["echoes"]}
    inst_echoes = [[v for _k, v in items] for t, items in res["echoes"] if t == 1]
    activated = []     # vectors of the activations reached so far
    required = []      # (vector, how many instances must have echoed it)
    for j, st in enumerate(calls):
        if j > 0 and (100 + j - 1) not in tags:
            break       # main never reached this statement
        vec = bound_vector(sig, st[4])
        need = False
        if st[1] == "start":
            need = True
        else:
            if not any(all(_pyeq(a, b) for a, b in zip(vec, old)) for old in activated):
                need = True
            activated.append(vec)
        if need:
            for r in required:
                if all(_pyeq(a, b) for a, b in zip(vec, r[0])):
                    r[1] += 1
                    break
            else:
                required.append([vec, 1])
    for vec, cnt in required:
        got = sum(1 for e in inst_echoes if len(e) == len(vec) and all(_pyeq(a, b) for a, b in zip(e, vec)))
        if got < cnt:
            names = [p[0] for p in sig["params"]]
            return ("activate-new-parameter-values-start-no-instance",
                    f"`activate watch` binding {dict(zip(names, vec))!r}: {got} instance(s) echoed these values, {cnt} required (instances echoed: {inst_echoes!r})")
    return None


# ---- family M: defaults that are mutable values / non-constant expressions (oracle only:
#      in-place mutation is heap behaviour, outside the Coq model)


def gen_mut_spec(rng):
    sc = lambda: rng.choice([0, 1, 2, 7, "a", "b1", True, None, 2.5])
    items = rng.sample(["x", "y", "z", 3, 4, 5, False], 3)
    return {"list_default": [sc() for _ in range(rng.choice([0, 0, 1, 2]))],
            "dict_default": {k: sc() for k in rng.sample(["k", "a"], rng.choice([0, 1, 2]))},
            "items": items, "explicit": rng.random() < 0.5, "depth": rng.choice([0, 0, 1, 2]),
            "uid_default": rng.random() < 0.6, "use_dict": rng.random() < 0.7}


def src_mut(spec):
    L, D = src_value(spec["list_default"]), src_value(spec["dict_default"])
    sig = f"flow collect $item $depth=0 $bag={L}"
    if spec["use_dict"]:
        sig += f" $d={D}"
    if spec["uid_default"]:
        sig += ' $name="t_{uid()}"'
    lines = [sig,
             "  send Echo(tag=1, item=$item, depth=$depth, n=len($bag)" + (", m=len($d)" if spec["use_dict"] else "") + ")",
             "  ($bag.append($item))"]
    if spec["use_dict"]:
        lines.append('  ($d.update({"z": $item}))')
    lines += ["  if $depth > 0", "    await collect($item, $depth - 1)",
              "  send Echo(tag=2, item=$item, depth=$depth, bag=$bag" + (", d=$d" if spec["use_dict"] else "")
              + (", name=$name" if spec["uid_default"] else "") + ")",
              "  return $bag", "", "flow main",
              f"  $r0 = await collect({src_value(spec['items'][0])}, {spec['depth']})",
              f"  $r1 = await collect({src_value(spec['items'][1])})"]
    if spec["explicit"]:
        lines.append(f'  $r2 = await collect({src_value(spec["items"][2])}, 0, ["given"])')
    lines += ["  send Echo(tag=3, r0=$r0, r1=$r1" + (", r2=$r2" if spec["explicit"] else "") + ")",
              "  send Echo(tag=99)", "  match Never()", ""]
    return "\n".join(lines)


def oracle_mut(spec, res):
    """each instance that omits the argument sees the DECLARED default (an independent value), also
    in a second conversation of the same process; a non-constant default is evaluated per instance"""
    L, D = spec["list_default"], spec["dict_default"]
    names = []
    for run_no, run in enumerate(res["runs"]):
        if run.get("crashed") or not any(t == 99 for t, _ in run["echoes"]):
            return ("mutable-default-program-does-not-complete", f"conversation {run_no}: main did not reach its end ({run.get('crashed')})")
        inst = 0
        for t, items in run["echoes"]:
            e = dict(items)
            if t == 1:
                explicit_bag = spec["explicit"] and _pyeq(e.get("item"), spec["items"][2])
                want_n = 1 if explicit_bag else len(L)
                if e.get("n") != want_n or (spec["use_dict"] and e.get("m") != len(D)):
                    if run_no > 0 and inst == 0:
                        sig = "default-value-leaks-across-conversations"
                    elif inst > 0:
                        sig = "omitted-argument-default-shared-between-instances"
                    else:
                        sig = "omitted-argument-does-not-receive-declared-default"
                    return (sig, f"conversation {run_no}, instance {inst} (item={e.get('item')!r}): on entry len($bag)={e.get('n')!r}"
                            + (f", len($d)={e.get('m')!r}" if spec["use_dict"] else "")
                            + f"; the declared defaults are {L!r}" + (f" and {D!r}" if spec["use_dict"] else ""))
                inst += 1
            elif t == 2:
                explicit_bag = spec["explicit"] and _pyeq(e.get("item"), spec["items"][2])
                want = (["given"] if explicit_bag else list(L)) + [e.get("item")]
                if not same_value(e.get("bag"), want):
                    return ("omitted-argument-default-shared-between-instances",
                            f"conversation {run_no}: after its own append the instance with item={e.get('item')!r} has bag={e.get('bag')!r}, expected {want!r}")
                if spec["use_dict"]:
                    wd = dict(D)
                    wd["z"] = e.get("item")
                    if not (isinstance(e.get("d"), dict) and e["d"] == wd):
                        return ("omitted-argument-default-shared-between-instances",
                                f"conversation {run_no}: instance with item={e.get('item')!r} has d={e.get('d')!r}, expected {wd!r}")
                if spec["uid_default"]:
                    names.append(e.get("name"))
            elif t == 3:
                want = {"r0": list(L) + [spec["items"][0]], "r1": list(L) + [spec["items"][1]]}
                if spec["explicit"]:
                    want["r2"] = ["given", spec["items"][2]]
                for k, w in want.items():
                    if not same_value(e.get(k), w):
                        return ("e2e-return-value-not-assigned", f"conversation {run_no}: main got {k}={e.get(k)!r}, expected {w!r}")
    if spec["uid_default"]:
        if not all(isinstance(x, str) and x.startswith("t_") for x in names) or len(set(names)) != len(names):
            return ("non-constant-default-evaluated-once", f"the default \"t_{{uid()}}\" produced {names!r} for {len(names)} instances")
    return None


# ---- family T: an activated flow that reassigns its parameters and locals, finishes on an event
#      and is restarted (oracle only: event stepping is outside the big-step model; the binding of
#      the restart event itself is C08_restart_binds_original_call + check_restart)


def gen_restart_spec(rng):
    sig = gen_sig(rng, "counter", n=rng.randint(1, 3))
    sig["rets"] = []
    names = [p[0] for p in sig["params"]]
    args = gen_args(rng, sig, ["y", "z"], "wf")
    syntax, args = pick_syntax(rng, args)
    body = [echo_of(1, names + ["loc", "tmp"]), ["waitev", "Tick"]]
    for nm in names:
        if rng.random() < 0.8:
            body.append(["assign", nm, ["lit", rng.choice(["changed", 777, [9], {"c": 1}, False, 0])]])
    body.append(["assign", "loc", ["lit", rand_value(rng, 1)]])
    if names and rng.random() < 0.5:
        body.append(["assign", "tmp", ["var", names[0]]])
    body.append(echo_of(2, names + ["loc"]))
    sig["body"] = body
    mbody = [["assign", "y", ["lit", rand_value(rng, 1)]], ["assign", "z", ["lit", rand_value(rng, 1)]],
             ["assign", "loc", ["lit", rand_value(rng, 0)]],
             ["call", "activate", syntax, "counter", args, None], ["echo", 99, []], ["wait"]]
    main = {"name": "main", "params": [], "rets": [], "body": mbody}
    return {"prog": {"flows": [sig, main]}, "ticks": rng.randint(2, 4)}


def oracle_restart(spec, res):
    """EVERY instance of the activation (the first and each restarted one) binds its parameters per
    the binding rule from the ORIGINAL call, and starts with its locals undefined"""
    sig, main = spec["prog"]["flows"]
    call = [st for st in main["body"] if st[0] == "call"][0]
    caller = {}
    for st in main["body"]:
        if st[0] == "assign":
            caller[st[1]] = pyeval(st[2], caller)
        elif st[0] == "call":
            break
    want = dict(zip([p[0] for p in sig["params"]], bound_vector(sig, call[4], caller)))
    for lcl in ("loc", "tmp"):
        if lcl not in want:          # a parameter may itself be called `loc`
            want[lcl] = None
    if res.get("crashed"):
        return ("restarted-activation-run-raised", res["crashed"])
    starts = [dict(items) for t, items in res["echoes"] if t == 1]
    if len(starts) != spec["ticks"] + 1:
        return ("activated-flow-not-restarted", f"{len(starts)} instances started for {spec['ticks']} ticks (expected {spec['ticks'] + 1})")
    for n_inst, e in enumerate(starts):
        for k, w in want.items():
            if k not in e or not same_value(e[k], w):
                which = "first instance" if n_inst == 0 else f"restarted instance #{n_inst}"
                is_local = k in ("loc", "tmp") and k not in [p[0] for p in sig["params"]]
                sigk = ("restarted-instance-local-not-fresh" if is_local
                        else "restarted-instance-parameter-not-from-original-call" if n_inst > 0
                        else "e2e-param-not-bound")
                return (sigk, f"{which} starts with `{k}`={e.get(k, '<missing>')!r}; the original call binds {w!r}"
                        if not is_local else f"{which} starts with local `{k}`={e.get(k)!r} (assigned by its predecessor)")
    return None


def gen_prog_R(rng):
    """family R: a recursive flow; every level assigns the same-named local before the inner call
    and echoes it afterwards.  The direct oracle applies (privacy between instances of one flow)."""
    depth = rng.randint(1, 4)
    lit = rand_value(rng, 0, False)
    v_main = rand_value(rng, 1)
    want_ret = rng.random() < 0.7
    extra = rng.random() < 0.5
    params = [["n", None]] + ([["tag", ["lit", rand_value(rng, 1)]]] if extra else [])
    inner_args = [["pos", ["sub1", ["var", "n"]]]] + ([["named", "tag", ["var", "loc"]]] if extra and rng.random() < 0.5 else [])
    rb = [["assign", "loc", ["list", [["var", "n"], ["lit", lit]]]],
          ["ifpos", "n", [["call", "await", "classic", "rec", inner_args, "sub" if want_ret else None]]],
          echo_of(1, ["n", "loc"]),
          ["return", ["list", [["var", "n"], ["var", "loc"]]]]]
    rec = {"name": "rec", "params": params, "rets": [], "body": rb}
    mbody = [["assign", "loc", ["lit", v_main]], ["assign", "n", ["lit", rand_value(rng, 0)]],
             ["call", "await", "classic", "rec", [["pos", ["lit", depth]]], "x" if want_ret else None],
             echo_of(2, ["loc", "n", "x"]), ["echo", 99, []], ["wait"]]
    main = {"name": "main", "params": [], "rets": [], "body": mbody}
    return {"flows": [rec, main], "family": "R", "ordered": True, "depth": depth, "lit": lit}


def oracle_prog_R(prog, res):
    """recursive instances: level k echoes n = k and its own loc = [k, lit] AFTER the inner levels
    ran; main's locals are untouched; the returned value reaches main's x; final contexts keep them"""
    if prog.get("family") != "R":
        return None
    d, lit = prog["depth"], prog["lit"]
    rec, main = prog["flows"]
    v_main = main["body"][0][2][1]
    n_main = main["body"][1][2][1]
    want_ret = main["body"][2][5] is not None
    if res.get("outcome") != 2:
        return ("recursive-call-does-not-complete", f"main did not reach its end: outcome={res.get('outcome')}")
    rec_echoes = [dict(items) for t, items in res["echoes"] if t == 1]
    if len(rec_echoes) != d + 1:
        return ("recursive-echo-count", f"{len(rec_echoes)} echoes from rec, expected {d + 1}")
    for k, e in enumerate(rec_echoes):
        if not same_value(e.get("n"), k):
            return ("recursive-instance-parameter-overwritten", f"level {k} echoes n={e.get('n')!r} after its inner call")
        if not same_value(e.get("loc"), [k, lit]):
            return ("recursive-instance-local-overwritten", f"level {k} echoes loc={e.get('loc')!r} after its inner call, its own assignment was {[k, lit]!r}")
    m = [dict(items) for t, items in res["echoes"] if t == 2]
    if not m or not same_value(m[0].get("loc"), v_main) or not same_value(m[0].get("n"), n_main):
        return ("e2e-caller-local-changed-by-callee", f"main echoes {m[0] if m else None!r}, its own loc={v_main!r} n={n_main!r}")
    if want_ret and not same_value(m[0].get("x"), [d, [d, lit]]):
        return ("e2e-return-value-not-assigned", f"main got x={m[0].get('x')!r}, rec returned {[d, [d, lit]]!r}")
    fin = [dict(items) for fid, items in res["finals"] if fid == "rec"]
    for j, c in enumerate(fin):
        k = d - j
        if not same_value(c.get("loc"), [k, lit]) or not same_value(c.get("n"), k):
            return ("instance-final-context-changed-by-other-instance", f"final context of rec level {k}: n={c.get('n')!r} loc={c.get('loc')!r}")
    return None


def _has_calls(fl):
    return any(st[0] in ("call", "ifpos") for st in fl["body"])


def _has_return(fl):
    return any(st[0] == "return" for st in fl["body"])


def all_calls(prog):
    out = []

    def walk(body):
        for st in body:
            if st[0] == "call":
                out.append(st)
            elif st[0] == "ifpos":
                walk(st[2])

    for fl in prog["flows"]:
        walk(fl["body"])
    return out


# ---------------------------------------------------------------------------------------
# the implementation side (runs in child processes under a shell timeout)


def _impl_bind_job(job, sm, v2util, CRE):
    sig = job["sig"]
    src = src_prog({"flows": [dict(sig, body=[["echo", 1, []]]),
                              {"name": "main", "params": [], "rets": [], "body": [["wait"]]}]})
    try:
        state = v2util.init_state(src)
    except Exception as e:
        return {"error": "parse: " + repr(e)[:300], "src": src}
    cfg = state.flow_configs["f"]
    main_uid = state.main_flow_state.uid
    results = []
    for ev in job["evs"]:
        d = {}
        for k, v in ev["items"]:
            d[k] = main_uid if v == "@MAIN" else v
        shared_dict = None
        if ev["shared"] is not None:
            shared_dict = {k: v for k, v in ev["shared"]}
            d["context"] = shared_dict
        try:
            try:
                fs = sm.create_flow_instance(cfg, "(f)new", "0.1", d)
            except CRE as e:
                results.append({"r": "shared", "msg": str(e)[:80]})
                continue
            try:
                sm._start_flow(state, fs, d)
            except CRE as e:
                results.append({"r": "toomany", "msg": str(e)[:80]})
                continue
            same = shared_dict is not None and fs.context is shared_dict
            rr = {"r": "bound", "args": [[k, v] for k, v in fs.arguments.items()],
                  "ctx": [[k, v] for k, v in fs.context.items()], "aliased": same}
            if shared_dict is None:
                # the restart of an activated flow: a successor bound from start_event()
                try:
                    d2 = dict(fs.start_event([]).arguments)
                    d2["source_flow_instance_uid"] = main_uid
                    fs2 = sm.create_flow_instance(cfg, "(f)again", "0.1", d2)
                    try:
                        sm._start_flow(state, fs2, d2)
                        rr["restart"] = {"r": "bound", "args": [[k, v] for k, v in fs2.arguments.items()],
                                         "ctx": [[k, v] for k, v in fs2.context.items()]}
                    except CRE:
                        rr["restart"] = {"r": "toomany"}
                except Exception as e:
                    rr["restart"] = {"r": "exc", "msg": type(e).__name__ + ": " + str(e)[:200]}
            results.append(rr)
        except Exception as e:  # nothing else is predicted by the model
            results.append({"r": "exc", "msg": type(e).__name__ + ": " + str(e)[:200]})
    return {"results": results}


def _impl_actref_job(job, sm, v2util, CRE, fl):
    sig = job["sig"]
    src = src_prog({"flows": [dict(sig, name="f", body=[["echo", 1, []]]),
                              {"name": "main", "params": [], "rets": [], "body": [["wait"]]}]})
    try:
        state = v2util.init_state(src)
    except Exception as e:
        return {"error": "parse: " + repr(e)[:300], "src": src}
    cfg = state.flow_configs["f"]
    main_uid = state.main_flow_state.uid

    def to_dict(ev):
        return {k: (main_uid if v == "@MAIN" else v) for k, v in ev["items"]}

    objs = []
    for i, inst in enumerate(job["insts"]):
        d = to_dict(args_to_ev(inst["args"]))
        fs = sm.create_flow_instance(cfg, f"(f)inst{i}", f"0.{i}", d)
        sm.add_new_flow_instance(state, fs)
        objs.append(fs)
    for i, (inst, fs) in enumerate(zip(job["insts"], objs)):
        kind = inst["kind"]
        fs.activated = 0 if kind == "not-activated" else 1
        if kind == "child-of-same-flow":
            fs.parent_uid = objs[(i + 1) % len(objs)].uid if len(objs) > 1 else fs.uid
        elif kind == "parent-gone":
            fs.parent_uid = "(gone)"
        else:
            fs.parent_uid = main_uid
    order = [f.uid for f in state.flow_id_states["f"]]
    inst_args = [[[k, v] for k, v in f.arguments.items()] for f in objs]
    results = []
    for call in job["calls"]:
        d = to_dict(args_to_ev(call))
        try:
            ev = fl.InternalEvent(name="StartFlow", arguments=d, matching_scores=[])
            r = sm._get_reference_activated_flow_instance(state, ev)
            results.append({"index": None if r is None else order.index(r.uid)})
        except Exception as e:
            results.append({"exc": type(e).__name__ + ": " + str(e)[:200]})
    return {"results": results, "inst_args": inst_args,
            "order_ok": order == [f.uid for f in objs]}


def _impl_mut_job(job, sm, v2util, CRE):
    src = src_mut(job["spec"])
    runs = []
    for _ in range(2):           # two conversations in ONE process
        try:
            state = v2util.init_state(src)
        except Exception as e:
            return {"error": "parse: " + type(e).__name__ + ": " + str(e)[:300], "src": src}
        crashed = None
        try:
            v2util.start_main(state)
        except sm.VerifStepBudgetExceeded:
            crashed = "step budget exceeded"
        except Exception as e:
            crashed = type(e).__name__ + ": " + str(e)[:200]
        echoes = []
        for e in state.outgoing_events:
            if isinstance(e, dict) and e.get("type") == "Echo":
                echoes.append([e.get("tag"), [[k, v] for k, v in e.items()
                                              if k not in ("type", "uid", "event_created_at", "source_uid", "tag") and _plain(v)]])
        runs.append({"echoes": echoes, "crashed": crashed})
    return {"runs": runs, "src": src}


def _impl_restart_job(job, sm, v2util, CRE):
    spec = job["spec"]
    src = src_prog(spec["prog"])
    try:
        state = v2util.init_state(src)
    except Exception as e:
        return {"error": "parse: " + type(e).__name__ + ": " + str(e)[:300], "src": src}
    echoes = []
    crashed = None

    def grab():
        for e in state.outgoing_events:
            if isinstance(e, dict) and e.get("type") == "Echo":
                echoes.append([e.get("tag"), [[k, v] for k, v in e.items()
                                              if k not in ("type", "uid", "event_created_at", "source_uid", "tag") and _plain(v)]])
    try:
        v2util.start_main(state)
        grab()
        for _ in range(spec["ticks"]):
            v2util.step(state, {"type": "Tick"})
            grab()
    except sm.VerifStepBudgetExceeded:
        crashed = "step budget exceeded (non-terminating run)"
    except Exception as e:
        crashed = type(e).__name__ + ": " + str(e)[:200]
    return {"echoes": echoes, "crashed": crashed, "src": src}


def _plain(v):
    if v is None or isinstance(v, (bool, int, float, str)):
        return True
    if isinstance(v, list):
        return all(_plain(x) for x in v)
    if isinstance(v, dict):
        return all(isinstance(k, str) and _plain(x) for k, x in v.items())
    return False


def _impl_prog_job(job, sm, v2util, CRE):
    prog = job["prog"]
    src = src_prog(prog)
    try:
        state = v2util.init_state(src)
    except Exception as e:
        return {"error": "parse: " + type(e).__name__ + ": " + str(e)[:300], "src": src}
    crashed = None
    try:
        v2util.start_main(state)
    except CRE as e:
        crashed = str(e)[:100]
    except sm.VerifStepBudgetExceeded:
        return {"error": "step budget exceeded (non-terminating run)", "src": src}
    except Exception as e:
        return {"error": "run: " + type(e).__name__ + ": " + str(e)[:300], "src": src}
    if crashed is not None:
        return {"outcome": 5, "echoes": None, "finals": None, "msg": crashed, "src": src}
    echoes = []
    for e in state.outgoing_events:
        if isinstance(e, dict) and e.get("type") == "Echo":
            items = [[k, v] for k, v in e.items() if k not in ("type", "uid", "event_created_at", "source_uid", "tag")]
            echoes.append([e.get("tag"), items])
    main = state.main_flow_state
    reached_end = any(t == 99 for t, _ in echoes)
    if reached_end:
        oc = 2
    elif main.status.name in ("STOPPED", "STOPPING", "FINISHED"):
        oc = 4
    else:
        oc = 3
    finals = []
    nonplain = 0
    for uid, fs in state.flow_states.items():
        items = []
        for k, v in fs.context.items():
            if k.startswith("_"):
                continue
            if not _plain(v):
                nonplain += 1
                continue
            items.append([k, v])
        finals.append([fs.flow_id, items])
    glob = [[k, v] for k, v in state.context.items() if k in ("g", "h")]
    return {"outcome": oc, "echoes": echoes, "finals": finals, "globals": glob, "src": src,
            "main_status": main.status.name, "nonplain": nonplain}


def child_main(inp, outp):
    import logging

    logging.disable(logging.CRITICAL)
    sys.path.insert(1, C.REPO)
    from harness import v2util
    from nemoguardrails.colang.v2_x.runtime import statemachine as sm
    from nemoguardrails.colang.v2_x.runtime.errors import ColangRuntimeError as CRE

    jobs = json.load(open(inp))
    res = []
    for job in jobs:
        try:
            if job["kind"] == "bind":
                res.append(_impl_bind_job(job, sm, v2util, CRE))
            elif job["kind"] == "restart":
                res.append(_impl_restart_job(job, sm, v2util, CRE))
            elif job["kind"] == "mut":
                res.append(_impl_mut_job(job, sm, v2util, CRE))
            elif job["kind"] == "actref":
                from nemoguardrails.colang.v2_x.runtime import flows as fl
                res.append(_impl_actref_job(job, sm, v2util, CRE, fl))
            else:
                res.append(_impl_prog_job(job, sm, v2util, CRE))
        except Exception as e:
            res.append({"error": "harness-child: " + type(e).__name__ + ": " + str(e)[:300]})
        with open(outp + ".progress", "w") as f:
            f.write(str(len(res)))
    with open(outp, "w") as f:
        json.dump(res, f)


def run_impl(jobs, timeout):
    """Run the jobs on the real implementation in parallel child processes, each under a timeout.
    Returns a list of results aligned with jobs (None = child failed before that job)."""
    if not jobs:
        return [], []
    nw = min(C.NPROC, 12, max(1, len(jobs) // 20))
    chunks = [list(range(i, len(jobs), nw)) for i in range(nw)]
    tmp = tempfile.mkdtemp(prefix="c08_", dir=os.path.join(C.BUILD) if os.path.isdir(C.BUILD) else None)
    env = dict(C.impl_env())
    env["NEMO_GUARDRAILS_VERIF_MAX_STEPS"] = "50000"

    def one(ci):
        idxs = chunks[ci]
        inp = os.path.join(tmp, f"in{ci}.json")
        outp = os.path.join(tmp, f"out{ci}.json")
        json.dump([jobs[i] for i in idxs], open(inp, "w"))
        rc, out = C.sh(["timeout", str(timeout), C.PY, "-m", "harness.c08", "--child", inp, outp],
                       timeout=timeout + 30, cwd=C.VERIF, env=env)
        if rc != 0 or not os.path.exists(outp):
            done = 0
            try:
                done = int(open(outp + ".progress").read())
            except Exception:
                pass
            return ci, None, f"child rc={rc} after {done}/{len(idxs)} jobs: {out[-1500:]}"
        return ci, json.load(open(outp)), None

    results = [None] * len(jobs)
    errors = []
    with ThreadPoolExecutor(max_workers=nw) as ex:
        for ci, res, err in ex.map(one, range(nw)):
            if err:
                errors.append(err)
                continue
            for i, r in zip(chunks[ci], res):
                results[i] = r
    import shutil

    shutil.rmtree(tmp, ignore_errors=True)
    return results, errors


# ---------------------------------------------------------------------------------------
# oracles: the property text, re-stated


def oracle_bind(sig, ev, res):
    """well-formed event arguments: parameter i = positional i, else named, else default (empty
    context), else None.  Returns None or (signature, message)."""
    n, contiguous, k, double, _unknown = ev_shape(sig, ev)
    if not contiguous or k > n or double or ev["shared"] is not None:
        return None
    names = [p[0] for p in sig["params"]]
    rnames = [r[0] for r in sig["rets"]]
    if len(set(names)) != len(names) or set(names) & set(rnames):
        return None
    d = {kk: v for kk, v in ev["items"]}
    if res["r"] != "bound":
        return ("well-formed-call-rejected", f"well-formed call raised: {res}")
    got = {kk: v for kk, v in res["ctx"]}
    for i, (nm, dflt) in enumerate(sig["params"]):
        if i < k:
            want, why = d[f"${i}"], "positional"
        elif nm in d:
            want, why = d[nm], "named"
        elif dflt is not None:
            want, why = pyeval(dflt, {}), "default"
        else:
            want, why = None, "none"
        if nm not in got or not same_value(got[nm], want):
            return (f"param-{why}-not-bound", f"parameter {i} `{nm}` is {got.get(nm, '<missing>')!r}, {why} value is {want!r}")
    return None


def same_value(a, b):
    if type(a) is not type(b):
        return False
    if isinstance(a, list):
        return len(a) == len(b) and all(same_value(x, y) for x, y in zip(a, b))
    if isinstance(a, dict):
        return list(a.keys()) == list(b.keys()) and all(same_value(a[k], b[k]) for k in a)
    return a == b


def oracle_prog_A(prog, res):
    """families A and G, well-formed call whose named arguments are parameters: echoed parameters
    follow the binding rule with the argument expressions evaluated in the caller at the call;
    `$x = await` receives the returned value; caller's locals are untouched by the callee's
    assignments; variables declared `global` are shared."""
    if prog.get("family") not in ("A", "G") or prog.get("kind") != "wf":
        return None
    f, main = prog["flows"]
    call = [st for st in main["body"] if st[0] == "call"][0]
    _, form, _syntax, _f, args, ret = call
    G = {}

    class Inst:
        def __init__(self):
            self.local = {}
            self.declared = set()

        def view(self):
            d = dict(self.local)
            for x in self.declared:
                d[x] = G.get(x)
            return d

        def assign(self, k, v):
            if k in self.declared:
                G[k] = v
            else:
                self.local[k] = v

        def declare(self, x):
            self.declared.add(x)
            G.setdefault(x, None)

    caller = Inst()
    for st in main["body"]:
        if st[0] == "assign":
            caller.assign(st[1], pyeval(st[2], caller.view()))
        elif st[0] == "global":
            caller.declare(st[1])
        elif st[0] == "call":
            break
    pos = [a[1] for a in args if a[0] == "pos"]
    named = {a[1]: a[2] for a in args if a[0] == "named"}
    callee = Inst()
    at_call = caller.view()
    for i, (nm, dflt) in enumerate(f["params"]):
        if i < len(pos):
            callee.local[nm] = pyeval(pos[i], at_call)
        elif nm in named:
            callee.local[nm] = pyeval(named[nm], at_call)
        elif dflt is not None:
            callee.local[nm] = pyeval(dflt, {})
        else:
            callee.local[nm] = None
    for nm, dflt in f["rets"]:
        callee.local[nm] = pyeval(dflt, {}) if dflt is not None else None
    expect = []
    returned = ("none",)
    for st in f["body"]:
        if st[0] == "assign":
            callee.assign(st[1], pyeval(st[2], callee.view()))
        elif st[0] == "global":
            callee.declare(st[1])
        elif st[0] == "echo":
            expect.append((st[1], [(k, pyeval(e, callee.view())) for k, e in st[2]]))
        elif st[0] == "return":
            returned = ("value", None if st[1] is None else pyeval(st[1], callee.view()))
            break
        elif st[0] == "wait":
            break
    if ret is not None:
        if returned[0] == "none":
            return None
        caller.assign(ret, returned[1])
    for st in main["body"]:
        if st[0] == "echo" and st[1] != 99:
            expect.append((st[1], [(k, pyeval(e, caller.view())) for k, e in st[2]]))
    if res.get("outcome") != 2:
        if prog.get("family") == "G":
            if not O5_IS_FINDING:
                return None
            got1 = [items for t, items in (res.get("echoes") or []) if t == 1]
            return (O5_SIG, "caller of a well-formed await waits forever (outcome=%s): the callee ran with %s and changed the global `g` that a call argument mentions; `$%s` is never assigned"
                    % (res.get("outcome"), got1[0] if got1 else "?", ret or "x"))
        return ("well-formed-call-does-not-complete", f"main did not reach its end: outcome={res.get('outcome')} {res.get('msg', '')}")
    got = {t: items for t, items in res["echoes"]}
    for t, items in expect:
        if t not in got:
            return ("echo-missing", f"Echo tag {t} missing")
        g = {k: v for k, v in got[t]}
        for k, want in items:
            if k not in g or not same_value(g[k], want):
                where = "callee" if t == 1 else "caller"
                pn = [p[0] for p in f["params"]]
                if where == "callee" and k in pn:
                    i = pn.index(k)
                    why = "positional" if i < len(pos) else "named" if k in named else "default" if f["params"][i][1] is not None else "none"
                    sig = f"e2e-param-{why}-not-bound"
                elif where == "callee":
                    sig = "e2e-callee-local-or-return-member-wrong"
                elif k == ret:
                    sig = "e2e-return-value-not-assigned"
                else:
                    sig = "e2e-caller-local-changed-by-callee"
                return (sig, f"{where} echo tag {t}: `{k}` is {g.get(k, '<missing>')!r}, the property text requires {want!r}")
    return None


# ---------------------------------------------------------------------------------------


def _flags():
    try:
        from translator import gen_c08
        return gen_c08.started_match_flags()
    except Exception as e:  # reported as a broken translator by build_and_audit
        return {"error": str(e)}


def bind_term(sig, ev, res):
    items = [(k, v) for k, v in ev["items"]]
    shared = None if ev["shared"] is None else cctx([(k, v) for k, v in ev["shared"]])
    if res["r"] == "shared":
        x = "XShared"
    elif res["r"] == "toomany":
        x = "XTooMany"
    elif res["r"] == "bound":
        x = f"(XBound {cctx(res['args'])} {cctx(res['ctx'])})"
    else:
        return None
    sh = "(None : option ctx)" if shared is None else f"(Some {shared})"
    return f"({cparams(sig['params'])}, {cparams(sig['rets'])}, {cctx(items)}, {sh}, {x})"


def prog_term(prog, res):
    ordered = prog.get("ordered", True)
    if res["echoes"] is None:
        echoes = "(None : option (list (Z * ctx)))"
    else:
        echoes = "(Some (" + C.coq_list([f"({C.coq_Z(t)}, {cctx(items)})" for t, items in res["echoes"]]) + " : list (Z * ctx)))"
    if res.get("finals") is None:
        finals = "(None : option (list ctx * ctx))"
    else:
        finals = "(Some ((" + C.coq_list([cctx(items) for _fid, items in res["finals"]]) + " : list ctx), " + cctx(res["globals"]) + "))"
    return f"({cprog(prog)}, {C.coq_bool(ordered)}, {echoes}, {C.coq_Z(res['outcome'])}, {finals})"


def run(tier, seed, replay=None):
    out = C.Outcome(PID, tier, seed)
    rng = random.Random(seed * 1000003 + 8)
    b = C.build_and_audit(PID, GEN)
    C.proof_coverage(out, b, "make theories/Props/C08.vo && coqc Props/C08.v (Print Assumptions)")
    for br in b["broken"]:
        out.add_broken(br, b["log"])
    with C.BuildLock():
        okm, logm = C.coq_make(["theories/V2/BindRun.vo"])
    if not okm:
        out.add_broken("coq:theories/V2/BindRun.v", logm)

    n_sig = 150 if tier == "quick" else 1500
    ev_per_sig = 12
    n_A = 700 if tier == "quick" else 7000
    n_B = 500 if tier == "quick" else 5000
    n_O4 = 30 if tier == "quick" else 200
    n_R = 80 if tier == "quick" else 800
    n_G = 40 if tier == "quick" else 400
    n_V = 250 if tier == "quick" else 2500
    n_actref = 120 if tier == "quick" else 1200
    n_M = 60 if tier == "quick" else 600
    n_T = 120 if tier == "quick" else 1200

    # ---- cases: corpus first, then replay, then generated
    bind_cases = []   # (sig, ev)
    prog_cases = []   # prog
    actref_cases = []  # {"sig", "insts", "calls"}
    mut_cases = []     # spec
    restart_cases = []  # spec
    corpus_n = 0
    corpus_dir = os.path.join(C.VERIF, "corpus", PID)
    stored = []
    if os.path.isdir(corpus_dir):
        for fn in sorted(os.listdir(corpus_dir)):
            if fn.endswith(".json"):
                stored.append(json.load(open(os.path.join(corpus_dir, fn))))
                corpus_n += 1
    if replay:
        d = json.load(open(replay))
        stored.append(d.get("replay", d))
        n_sig = n_A = n_B = n_O4 = n_R = n_G = n_V = n_actref = n_M = n_T = 0
    for d in stored:
        if d.get("kind") == "bind":
            bind_cases.append((d["sig"], d["ev"]))
        elif d.get("kind") == "prog":
            prog_cases.append(d["prog"])
        elif d.get("kind") == "actref":
            actref_cases.append(d["case"])
        elif d.get("kind") == "mut":
            mut_cases.append(d["spec"])
        elif d.get("kind") == "restart":
            restart_cases.append(d["spec"])
    for _ in range(n_T):
        restart_cases.append(gen_restart_spec(rng))
    for _ in range(n_M):
        mut_cases.append(gen_mut_spec(rng))
    for _ in range(n_actref):
        actref_cases.append(gen_actref_case(rng))
    for _ in range(n_sig):
        sig = gen_sig(rng, "f")
        for _ in range(ev_per_sig):
            bind_cases.append((sig, gen_ev(rng, sig)))
    for _ in range(n_A):
        prog_cases.append(gen_prog_A(rng))
    for _ in range(n_B):
        prog_cases.append(gen_prog_B(rng))
    for _ in range(n_O4):
        prog_cases.append(gen_prog_O4(rng))
    for _ in range(n_R):
        prog_cases.append(gen_prog_R(rng))
    for _ in range(n_G):
        prog_cases.append(gen_prog_G(rng))
    for _ in range(n_V):
        prog_cases.append(gen_prog_V(rng))

    # ---- run the implementation
    jobs = []
    groups = {}
    for i, (sig, ev) in enumerate(bind_cases):
        key = json.dumps(sig, sort_keys=True)
        groups.setdefault(key, {"kind": "bind", "sig": sig, "evs": [], "idx": []})
        groups[key]["evs"].append(ev)
        groups[key]["idx"].append(i)
    bind_jobs = list(groups.values())
    jobs += [{"kind": "bind", "sig": j["sig"], "evs": j["evs"]} for j in bind_jobs]
    jobs += [{"kind": "prog", "prog": p} for p in prog_cases]
    jobs += [{"kind": "actref", **c} for c in actref_cases]
    jobs += [{"kind": "mut", "spec": c} for c in mut_cases]
    jobs += [{"kind": "restart", "spec": c} for c in restart_cases]
    impl_res, impl_errs = run_impl(jobs, timeout=600 if tier == "quick" else 3000)
    for e in impl_errs:
        out.add_broken("impl-run:C08", e)
    bind_res = [None] * len(bind_cases)
    for j, r in zip(bind_jobs, impl_res[: len(bind_jobs)]):
        if r is None:
            continue
        if "error" in r:
            out.add_broken("impl-run:C08-signature", r["error"] + "\n" + r.get("src", ""))
            continue
        for i, rr in zip(j["idx"], r["results"]):
            bind_res[i] = rr
    prog_res = impl_res[len(bind_jobs): len(bind_jobs) + len(prog_cases)]
    actref_res = impl_res[len(bind_jobs) + len(prog_cases): len(bind_jobs) + len(prog_cases) + len(actref_cases)]
    _o = len(bind_jobs) + len(prog_cases) + len(actref_cases)
    mut_res = impl_res[_o: _o + len(mut_cases)]
    restart_res = impl_res[_o + len(mut_cases):]

    seen = set()
    n_nontrivial = 0
    obs = {"O1_surplus_positional_not_rejected": 0, "O1_surplus_rejected_by_exception": 0,
           "O2_double_binding_positional_wins": 0, "O3_unknown_named_argument_ignored": 0,
           "O4_await_without_return_fails_caller": 0,
           "O5_wellformed_await_hangs_after_callee_changed_global_argument": 0,
           "O7_reactivation_through_other_call_form_leaves_caller_waiting": 0,
           "e2e_caller_left_waiting_forever": 0, "e2e_run_to_completion_raised": 0, "e2e_caller_failed": 0}
    obs_examples = {}
    dist = {"bind_results": {}, "bind_shapes": {}, "prog_outcomes": {}, "prog_families": {}, "call_forms": {},
            "call_syntax": {}, "call_kinds": {}, "value_types_in_defaults": {}}

    def bump(d, k):
        d[k] = d.get(k, 0) + 1

    # ---- function level
    terms, kept = [], []
    for (sig, ev), res in zip(bind_cases, bind_res):
        if res is None:
            continue
        bump(dist["bind_results"], res["r"])
        n, contiguous, k, double, unknown = ev_shape(sig, ev)
        shape = ("gap" if not contiguous else "surplus" if k > n else "double" if double else "wf") + ("+shared" if ev["shared"] is not None else "")
        bump(dist["bind_shapes"], shape)
        if res["r"] == "exc":
            out.findings.append(C.Finding("bind-unexpected-exception", f"create_flow_instance/_start_flow raised {res['msg']}",
                                          {"kind": "bind", "sig": sig, "ev": ev, "impl": res}))
            continue
        if res["r"] == "bound" and ev["shared"] is not None and not res.get("aliased"):
            out.add_broken("correspondence:C08-bind-shared-context-not-aliased", json.dumps({"sig": sig, "ev": ev}))
        if contiguous and k > n and ev["shared"] is None:
            key = "O1_surplus_positional_not_rejected" if res["r"] == "bound" else "O1_surplus_rejected_by_exception"
            obs[key] += 1
            obs_examples.setdefault(key, {"signature": src_sig(sig), "event_arguments": ev["items"], "impl": res})
        if contiguous and k <= n and double and res["r"] == "bound":
            obs["O2_double_binding_positional_wins"] += 1
            obs_examples.setdefault("O2_double_binding_positional_wins", {"signature": src_sig(sig), "event_arguments": ev["items"], "impl": res})
        v = oracle_bind(sig, ev, res)
        if v:
            out.findings.append(C.Finding("bind:" + v[0], v[1], {"kind": "bind", "sig": sig, "ev": ev, "impl": res}))
        try:
            t = bind_term(sig, ev, res)
        except Unsupported:
            continue
        h = C.canon_hash([sig, sorted(map(json.dumps, ev["items"])), ev["shared"]])
        if h not in seen:
            seen.add(h)
            if n >= 1 and (k >= 1 or any(kk in [p[0] for p in sig["params"]] for kk, _ in ev["items"]) or any(p[1] is not None for p in sig["params"])):
                n_nontrivial += 1
        terms.append(t)
        kept.append((sig, ev, res))
    for sig in {json.dumps(s, sort_keys=True): s for s, _ in bind_cases}.values():
        for _n, d in sig["params"] + sig["rets"]:
            if d is not None:
                bump(dist["value_types_in_defaults"], d[0] if d[0] != "lit" else type(d[1]).__name__)
    n_bind_dis = 0
    if okm and terms:
        bools, err = C.run_cases(PID + "_bind", PREAMBLE, terms, "check_bind")
        if err:
            out.add_broken("correspondence:C08-bind(coqc)", err)
        else:
            bad = [c for ok, c in zip(bools, kept) if not ok]
            n_bind_dis = len(bad)
            if bad:
                sig, ev, res = min(bad, key=lambda c: len(json.dumps(c[0])) + len(json.dumps(c[1])))
                model = C.eval_term(PID + "_bind", PREAMBLE,
                                    f"bind_in cexpr ceval {cparams(sig['params'])} {cparams(sig['rets'])} {cctx(ev['items'])} {C.coq_option(None if ev['shared'] is None else cctx(ev['shared']))}")
                out.add_broken("correspondence:C08-bind",
                               f"{len(bad)} disagreements; smallest: {src_sig(sig)} event_arguments={ev} impl={res} model={model[-1500:]}")

    # ---- function level: _get_reference_activated_flow_instance
    aterms, akept = [], []
    act_hist = {"identified": 0, "new-instance": 0}
    for case, r in zip(actref_cases, actref_res):
        if r is None:
            continue
        if "error" in r:
            out.add_broken("impl-run:C08-actref", r["error"] + "\n" + r.get("src", ""))
            continue
        if not r.get("order_ok"):
            out.add_broken("impl-run:C08-actref", "flow_id_states order differs from creation order")
            continue
        sig = case["sig"]
        insts_t = C.coq_list([f"({C.coq_bool(i['kind'] == 'ref')}, {cctx(a)})" for i, a in zip(case["insts"], r["inst_args"])])
        for call, rr in zip(case["calls"], r["results"]):
            payload = {"kind": "actref", "case": {"sig": sig, "insts": case["insts"], "calls": [call]}}
            if "exc" in rr:
                out.findings.append(C.Finding("actref-unexpected-exception", rr["exc"], payload))
                continue
            act_hist["identified" if rr["index"] is not None else "new-instance"] += 1
            v = oracle_actref(sig, case["insts"], call, rr)
            if v:
                out.findings.append(C.Finding(v[0], v[1], dict(payload, impl=rr, signature=src_sig(sig))))
            ev = args_to_ev(call)
            try:
                t = f"({cparams(sig['params'])}, ({insts_t} : list (bool * ctx)), {cctx(ev['items'])}, " + \
                    ("(None : option nat)" if rr["index"] is None else f"(Some {rr['index']}%nat)") + ")"
            except Unsupported:
                continue
            h = C.canon_hash(["actref", sig, case["insts"], call])
            if h not in seen:
                seen.add(h)
                n_nontrivial += 1
            aterms.append(t)
            akept.append((case, call, rr))
    n_act_dis = 0
    if okm and aterms:
        bools, err = C.run_cases(PID + "_actref", PREAMBLE, aterms, "check_actref")
        if err:
            out.add_broken("correspondence:C08-actref(coqc)", err)
        else:
            bad = [c for ok, c in zip(bools, akept) if not ok]
            n_act_dis = len(bad)
            if bad:
                case, call, rr = min(bad, key=lambda c: len(json.dumps(c[0]["insts"])) + len(json.dumps(c[1])))
                out.add_broken("correspondence:C08-actref",
                               f"{len(bad)} disagreements; smallest: {src_sig(case['sig'])} instances={case['insts']} new call={call} impl={rr}")
    dist["activation_reference_lookups"] = act_hist

    # ---- mutable / non-constant defaults (oracle only)
    n_mut = 0
    for spec, r in zip(mut_cases, mut_res):
        if r is None:
            continue
        if "error" in r:
            out.add_broken("impl-run:C08-mutable-default", r["error"] + "\n" + r.get("src", ""))
            continue
        n_mut += 1
        v = oracle_mut(spec, r)
        if v:
            out.findings.append(C.Finding(v[0], v[1], {"kind": "mut", "spec": spec, "source": r["src"], "impl": r["runs"]}))
    dist["mutable_default_programs_oracle_only"] = n_mut

    # ---- restarted activations (oracle only)
    n_restart = 0
    for spec, r in zip(restart_cases, restart_res):
        if r is None:
            continue
        if "error" in r:
            out.add_broken("impl-run:C08-restart", r["error"] + "\n" + r.get("src", ""))
            continue
        n_restart += 1
        v = oracle_restart(spec, r)
        if v:
            out.findings.append(C.Finding(v[0], v[1], {"kind": "restart", "spec": spec, "source": r["src"],
                                                       "impl": {"echoes": r["echoes"], "crashed": r["crashed"]}}))
    dist["restarted_activation_programs_oracle_only"] = n_restart

    # ---- function level: the restart event (start_event of a bound instance) binds again
    rterms, rkept = [], []
    for sig, ev, res in kept:
        rs_ = res.get("restart")
        if res["r"] != "bound" or not rs_:
            continue
        if rs_["r"] == "exc":
            out.findings.append(C.Finding("restart-bind-unexpected-exception", rs_["msg"], {"kind": "bind", "sig": sig, "ev": ev}))
            continue
        try:
            x = "XTooMany" if rs_["r"] == "toomany" else f"(XBound {cctx(rs_['args'])} {cctx(rs_['ctx'])})"
            rterms.append(f"({cparams(sig['params'])}, {cparams(sig['rets'])}, {cctx(ev['items'])}, {x})")
            rkept.append((sig, ev, res))
        except Unsupported:
            continue
    n_restart_dis = 0
    if okm and rterms:
        bools, err = C.run_cases(PID + "_restart", PREAMBLE, rterms, "check_restart")
        if err:
            out.add_broken("correspondence:C08-restart(coqc)", err)
        else:
            bad = [c for ok, c in zip(bools, rkept) if not ok]
            n_restart_dis = len(bad)
            if bad:
                sig, ev, res = min(bad, key=lambda c: len(json.dumps(c[0])) + len(json.dumps(c[1])))
                out.add_broken("correspondence:C08-restart",
                               f"{len(bad)} disagreements; smallest: {src_sig(sig)} event_arguments={ev} first={res['args']} restarted={res['restart']}")

    # ---- end to end
    pterms, pkept = [], []
    n_calls = 0
    for prog, res in zip(prog_cases, prog_res):
        if res is None:
            continue
        if "error" in res:
            out.add_broken("impl-run:C08-program", res["error"] + "\n" + res.get("src", ""))
            continue
        calls = all_calls(prog)
        n_calls += len(calls)
        for st in calls:
            bump(dist["call_forms"], st[1])
            bump(dist["call_syntax"], st[2])
        bump(dist["prog_families"], prog.get("family", "?"))
        if prog.get("family") == "A":
            bump(dist["call_kinds"], prog.get("kind"))
        oc = res["outcome"]
        bump(dist["prog_outcomes"], {2: "completed", 3: "caller-waits-forever", 4: "caller-failed", 5: "exception-escaped"}[oc])
        if oc == 3:
            obs["e2e_caller_left_waiting_forever"] += 1
            obs_examples.setdefault("e2e_caller_left_waiting_forever", {"program": res["src"], "echoes": res["echoes"]})
        if oc == 5:
            obs["e2e_run_to_completion_raised"] += 1
            obs_examples.setdefault("e2e_run_to_completion_raised", {"program": res["src"], "message": res.get("msg")})
        if oc == 4:
            obs["e2e_caller_failed"] += 1
            if prog.get("family") == "O4":
                obs["O4_await_without_return_fails_caller"] += 1
                obs_examples.setdefault("O4_await_without_return_fails_caller", {"program": res["src"], "echoes": res["echoes"]})
        if prog.get("family") == "V" and oc == 3:
            obs["O7_reactivation_through_other_call_form_leaves_caller_waiting"] += 1
            obs_examples.setdefault("O7_reactivation_through_other_call_form_leaves_caller_waiting", {"program": res["src"], "echoes": res["echoes"]})
        if prog.get("family") == "G" and oc == 3:
            obs["O5_wellformed_await_hangs_after_callee_changed_global_argument"] += 1
            obs_examples.setdefault("O5_wellformed_await_hangs_after_callee_changed_global_argument", {"program": res["src"], "echoes": res["echoes"]})
        if prog.get("family") == "A" and prog.get("kind") == "unknown" and oc == 3:
            obs["O3_unknown_named_argument_ignored"] += 1
            obs_examples.setdefault("O3_unknown_named_argument_ignored", {"program": res["src"], "echoes": res["echoes"]})
        v = oracle_prog_A(prog, res) or oracle_prog_R(prog, res) or oracle_prog_V(prog, res)
        if v:
            out.findings.append(C.Finding(v[0], v[1], {"kind": "prog", "prog": prog, "source": res["src"],
                                                       "impl": {k: res.get(k) for k in ("outcome", "echoes", "finals", "globals", "msg")}}))
        try:
            t = prog_term(prog, res)
        except Unsupported:
            continue
        h = C.canon_hash(prog)
        if h not in seen:
            seen.add(h)
            if any(len(st[4]) >= 1 for st in calls):
                n_nontrivial += 1
        pterms.append(t)
        pkept.append((prog, res))
    n_prog_dis = 0
    if okm and pterms:
        bools, err = C.run_cases(PID + "_prog", PREAMBLE, pterms, "check_prog", shard=60)
        if err:
            out.add_broken("correspondence:C08-prog(coqc)", err)
        else:
            bad = [c for ok, c in zip(bools, pkept) if not ok]
            n_prog_dis = len(bad)
            if bad:
                prog, res = min(bad, key=lambda c: len(c[1]["src"]))
                model = C.eval_term(PID + "_prog", PREAMBLE, f"run_full {cprog(prog)}")
                out.add_broken("correspondence:C08-prog",
                               f"{len(bad)} disagreements; smallest program:\n{res['src']}\nimpl: outcome={res['outcome']} echoes={res['echoes']} finals={res.get('finals')} globals={res.get('globals')}\nmodel: {model[-2500:]}")

    out.coverage.update({
        "evaluations": len(terms) + len(pterms) + len(aterms) + len(rterms),
        "restart_rebinds_function_level": len(rterms),
        "activation_reference_lookups_function_level": len(aterms),
        "calls_bound_function_level": len(terms),
        "calls_end_to_end": n_calls,
        "programs_end_to_end": len(pterms),
        "distinct_nontrivial": n_nontrivial,
        "rule": "function level: one (signature, event_arguments) pair, non-trivial = at least one parameter and (a positional or named argument for it, or a declared default); end to end: one program, non-trivial = contains a call with at least one argument; distinct by hash of the case",
        "samples": [{"signature": src_sig(s), "event_arguments": e["items"], "impl": r} for s, e, r in kept[:2]]
                   + [{"program": r["src"], "outcome": r["outcome"], "echoes": r["echoes"]} for _p, r in pkept[:2]],
        "input_distribution": dist | {"corpus_cases": corpus_n},
        "traces_validated_against_impl": len(terms) + len(pterms) + len(aterms),
        "correspondence_disagreements": n_bind_dis + n_prog_dis + n_act_dis + n_restart_dis,
        "oracle_violations": len(out.findings),
        "observations_outside_the_premise": {"counts": obs, "examples": obs_examples,
            "text": "O1: surplus positional arguments are rejected only when the flow has no parameter or more than 2n are given; otherwise the callee runs with the first n, its context gains keys `$j`, and the caller waits forever (its FlowStarted match mentions `$n`). O2: a parameter given positionally and by name gets the positional value; the caller waits forever when the two values differ. O3: a named argument that is no parameter is ignored by the callee and leaves the caller waiting forever. O4: `$x = await f` where f ends without executing `return` fails the caller (ColangValueError on `.arguments.return_value`). O6: an activation that omits a parameter WITHOUT default is never identified with an earlier one (C08_obs_activation_omitted_without_default). O7: re-activating with equal values through another call form (e.g. `activate w $a=1` then `activate w 1`) reuses the instance, but the reference's FlowStarted event lacks the `$0` key the caller's match mentions, so the caller waits forever - same root cause as O5 (FlowStarted match carries the call arguments), removed by the same candidate patch; modelled, counted, not claimed. O5 variant (seed 4): when the callee has nested awaits the match is evaluated in the middle of its body; if the global is changed there and restored before the callee finishes, the caller does not hang but FAILS (FlowFinished cross-matches its still waiting FlowStarted pattern) - same root cause, same candidate repair; such programs are outside the generated fragment (arguments mention globals only for leaf callees). O1-O4 are not claimed or counted as violations: the property text presupposes a corresponding positional or named argument and a value given to `return`. O5 (KNOWN FINDING, well-formed call): the caller's FlowStarted match re-evaluates the call arguments when the event arrives, so a callee that changes a global used in an argument before it is started leaves the caller of `$x = await f(..)` waiting forever; reported through the oracle with signature " + O5_SIG + "; candidate repair fixes/C08-flowstarted-match.patch (not applied: it changes match specificity scores).",
            "flowstarted_match_carries_call_arguments": _flags()},
    })
    out.assumptions += [
        "expression evaluation is an arbitrary total function eval : ctx -> expr -> value in the theorems (expressions that raise are outside the model); the correspondence uses literals of every value type, variables, list/dict displays and `$n - 1`",
        "Python heap aliasing of mutable argument values is not modelled (values are copied); a shared context (context=$self.context) IS modelled, by two instances owning the same heap cell",
        "the restart of an activated flow on an external event (finish, StartFlow built by start_event, new instance) is exercised end to end by family T with the oracle only (event stepping is outside the big-step model of BindRun.v); what the restart event binds is proved (C08_restart_binds_original_call) and tied at function level (check_restart on the real start_event() arguments)",
        "freshness of default VALUES (each instance that omits an argument gets an independent value, also across conversations in one process; non-constant default expressions are evaluated per instance) is observable only through in-place mutation, i.e. heap behaviour: it is covered by the oracle alone (family M: `($bag.append(..))`, `($d.update(..))`, recursion, `\"t_{uid()}\"` defaults, two conversations in one process), not by the Coq model, where `default_val` is re-evaluated per instance by construction",
        "signatures have distinct identifier parameter names that are not keys the runtime writes itself (flow_id, flow_instance_uid, activated, source_flow_instance_uid, source_head_uid, flow_hierarchy_position, context) and return members distinct from parameters",
        "call arguments mention a global only when the callee is a leaf flow (no nested calls): for a callee with nested awaits the caller's FlowStarted match is evaluated in the middle of the callee's body, a timing of internal events that the big-step model does not represent (generator restricted to the fragment the model covers)",
        "end-to-end programs are deterministic and single-threaded: callees run until they finish or reach `match Never()`; the big-step interpreter of V2/BindRun.v is validated against the real interpreter on exactly this class (scheduling in general is the business of C05/C09/C10)",
        "floats are quarters (exact); strings avoid quote, backslash, braces and `$` (string interpolation is outside C08)",
        "a dict read through a variable is an AttributeDict object; the matcher's isinstance asymmetry between dict and AttributeDict is not modelled - it is reachable only outside the premise (one parameter bound by two different expressions of equal dict value), found by the thorough tier and excluded from generation",
    ]
    if tier == "thorough" and b["ok"]:
        ok, log = C.coqchk(PID, b["files"])
        out.coverage["coqchk"] = "ok" if ok else "FAILED"
        if not ok:
            out.add_broken("coqchk", log)
    return C.finish(out)


if __name__ == "__main__":
    if len(sys.argv) == 4 and sys.argv[1] == "--child":
        child_main(sys.argv[2], sys.argv[3])
    else:
        sys.exit(run("quick", 0))
