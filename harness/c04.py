"""C04 — Colang 2 event matching follows the documented partial-match rules.

Model: coq/theories/Val/Match.v (score, event_score); spec: Val/MatchSpec.v; theorems:
Props/C04.v.  Tie: (T) Gen/MatchConsts.v regenerated from statemachine.py/flows.py;
(X) differential of the real _compute_arguments_dict_matching_score and
_compute_event_comparison_score against the model evaluated inside Coq.
Search: independent Python re-statement of the documented rules (spec_matches) evaluated
on the implementation's answers.
"""
from __future__ import annotations

import math
import random
import re
import sys

from harness import common as C

PID = "C04"
GEN = ["MatchConsts"]
ALPHA = "abc1_"
KEYS = ["a", "b", "c", "text", "flow_id", "flow_instance_uid", "return_value", "activated",
        "source_flow_instance_uid", "action_arguments", "x1"]

PREAMBLE = """From Coq Require Import ZArith List String.
From NG Require Import Val.Value Val.Match Val.MatchRun.
Import ListNotations.
Open Scope string_scope.
"""


def _impl():
    sys.path.insert(0, C.REPO)
    from nemoguardrails.colang.v2_x.runtime import statemachine as sm
    from nemoguardrails.colang.v2_x.runtime import eval as ev
    from nemoguardrails.colang.v2_x.runtime import flows as fl
    from nemoguardrails.colang.v2_x.runtime.errors import ColangValueError

    return sm, ev, fl, ColangValueError


# ---------------------------------------------------------------------------------------
# values: built as real Python objects; comparison expressions are registered so that they
# can be printed as Coq terms

CMP_REG = {}


def mk_cmp(ev, op, ref):
    f = {"lt": ev._less_than_operator, "le": ev._equal_or_less_than_operator,
         "gt": ev._greater_than_operator, "ge": ev._equal_or_greater_than_operator,
         "ne": ev._not_equal_to_operator}[op]
    obj = f(ref)
    CMP_REG[id(obj)] = (op, ref, obj)
    return obj


def rand_str(rng, lo=0, hi=3):
    return "".join(rng.choice(ALPHA) for _ in range(rng.randint(lo, hi)))


def rand_scalar(rng):
    k = rng.randrange(8)
    if k == 0:
        return None
    if k == 1:
        return rng.choice([True, False])
    if k in (2, 3):
        return rng.choice([0, 1, 2, -1, 7, 10, 12])
    if k == 4:
        return rng.choice([0.0, 1.0, 2.5, -0.25, 1.75, 12.0])
    return rand_str(rng)


def rand_regex(rng):
    lit = rand_str(rng, 0, 2)
    form = rng.randrange(6)
    pat = {0: lit, 1: "^" + lit, 2: lit + "$", 3: "^" + lit + "$", 4: ".", 5: lit}[form]
    return re.compile(pat)


def rand_pattern(rng, ev, depth, hashable=False):
    """A match pattern (what a statement writes)."""
    r = rng.random()
    if depth <= 0 or r < 0.30 or hashable:
        q = rng.random()
        if q < 0.2:
            return rand_regex(rng)
        if q < 0.3:
            return mk_cmp(ev, rng.choice(["lt", "le", "gt", "ge", "ne"]),
                          rng.choice([0, 1, 5, True, 1.0, 2.5]))
        return rand_scalar(rng)
    if r < 0.55:
        n = rng.randint(0, 3)
        keys = rng.sample(KEYS, n)
        return {k: rand_pattern(rng, ev, depth - 1) for k in keys}
    if r < 0.8:
        return [rand_pattern(rng, ev, depth - 1) for _ in range(rng.randint(0, 3))]
    return {rand_pattern(rng, ev, 0, hashable=True) for _ in range(rng.randint(0, 3))}


def instantiate(rng, p):
    """A received value that (normally) matches pattern p."""
    if isinstance(p, re.Pattern):
        pat = p.pattern
        if pat == ".":
            return rng.choice(["a", "b1", 5, 2.5])
        lit = pat.lstrip("^").rstrip("$")
        pre = "" if pat.startswith("^") else rand_str(rng, 0, 1)
        post = "" if pat.endswith("$") and pat != "" else rand_str(rng, 0, 1)
        return pre + lit + post
    if id(p) in CMP_REG:
        op, ref, _ = CMP_REG[id(p)]
        delta = {"lt": -1, "le": 0, "gt": 1, "ge": 0, "ne": 1}[op]
        if isinstance(ref, bool):
            return rng.choice([True, False])
        if isinstance(ref, float):
            return ref + delta * 0.25
        return ref + delta
    if isinstance(p, dict):
        d = {k: instantiate(rng, v) for k, v in p.items()}
        return d
    if isinstance(p, list):
        return [instantiate(rng, v) for v in p]
    if isinstance(p, set):
        out = set()
        for v in p:
            x = instantiate(rng, v)
            try:
                out.add(x)
            except TypeError:
                pass
        return out
    return p


def type_shift(rng, v):
    if isinstance(v, bool):
        return int(v)
    if isinstance(v, int):
        return rng.choice([float(v), bool(v) if v in (0, 1) else str(v)])
    if isinstance(v, float):
        return int(v) if v == int(v) else str(v)
    if isinstance(v, str):
        return [v]
    if isinstance(v, list):
        return rng.choice([set(x for x in v if _hashable(x)), {"a": v}])
    if isinstance(v, set):
        return list(v)
    if isinstance(v, dict):
        return list(v.values())
    return 0


def _hashable(x):
    try:
        hash(x)
        return not isinstance(x, (list, dict, set))
    except TypeError:
        return False


def mutate(rng, v, kinds):
    """One random mutation somewhere in v; records the mutation kind."""
    if isinstance(v, dict) and v and rng.random() < 0.6:
        k = rng.choice(list(v))
        v = dict(v)
        v[k] = mutate(rng, v[k], kinds)
        return v
    if isinstance(v, list) and v and rng.random() < 0.6:
        i = rng.randrange(len(v))
        v = list(v)
        v[i] = mutate(rng, v[i], kinds)
        return v
    m = rng.choice(["add", "drop", "reorder", "dup", "shift", "alter"])
    kinds[m] = kinds.get(m, 0) + 1
    if m == "add":
        if isinstance(v, dict):
            v = dict(v)
            v[rng.choice(KEYS)] = rand_scalar(rng)
            return v
        if isinstance(v, list):
            v = list(v)
            v.insert(rng.randint(0, len(v)), rand_scalar(rng))
            return v
        if isinstance(v, set):
            return set(v) | {rand_scalar(rng)}
    if m == "drop":
        if isinstance(v, dict) and v:
            v = dict(v)
            del v[rng.choice(list(v))]
            return v
        if isinstance(v, list) and v:
            v = list(v)
            del v[rng.randrange(len(v))]
            return v
        if isinstance(v, set) and v:
            v = set(v)
            v.discard(rng.choice(list(v)))
            return v
    if m == "reorder":
        if isinstance(v, list) and len(v) > 1:
            v = list(v)
            rng.shuffle(v)
            return v
        if isinstance(v, dict) and len(v) > 1:
            items = list(v.items())
            rng.shuffle(items)
            return dict(items)
    if m == "dup":
        if isinstance(v, list) and v:
            v = list(v)
            i = rng.randrange(len(v))
            v.insert(i, v[i])
            return v
    if m == "shift":
        return type_shift(rng, v)
    # alter
    if isinstance(v, bool):
        return not v
    if isinstance(v, int):
        return v + rng.choice([-1, 1])
    if isinstance(v, float):
        return v + 0.25
    if isinstance(v, str):
        return v[:-1] if v and rng.random() < 0.5 else v + rng.choice(ALPHA)
    return rand_scalar(rng)


FALSY = [None, False, 0, "", 0.0]


def gen_edge_pair(rng, ev, kinds):
    """Edge streams: (a) an expected entry with a None/falsy value whose key is missing in a
    received dict that is not smaller; (b) very many unmentioned members along the path."""
    if rng.random() < 0.5:
        kinds["edge-missing-falsy"] = kinds.get("edge-missing-falsy", 0) + 1
        keys = rng.sample(KEYS[:4] + ["x1"], rng.randint(1, 3))
        p = {k: rng.choice(FALSY + [rand_scalar(rng)]) for k in keys}
        v = {k: x for k, x in p.items()}
        drop = rng.choice(keys)
        del v[drop]
        for i in range(rng.randint(1, 3)):
            v["extra%d" % i] = rand_scalar(rng)
        wrap = rng.randrange(3)
        if wrap == 1:
            p, v = {"a": p}, {"a": v, "b": 1}
        elif wrap == 2:
            p, v = [p], [0, v]
        return p, v
    kinds["edge-many-unmentioned"] = kinds.get("edge-many-unmentioned", 0) + 1
    n = rng.choice([60, 100, 130, 200])
    shape = rng.randrange(3)
    if shape == 0:
        p = {"a": "x"}
        v = {"a": "x", **{"p%d" % i: i for i in range(n)}}
    elif shape == 1:
        p = {"a": ["needle"]}
        v = {"a": [str(i) for i in range(n)] + ["needle"]}
    else:
        m = n // 3
        p = {"a": {"b": [1]}}
        v = {"a": {"b": [0] * m + [1], **{"q%d" % i: i for i in range(m)}}, **{"p%d" % i: i for i in range(m)}}
    return p, v


def gen_pair(rng, ev, kinds):
    if rng.random() < 0.03:
        return gen_edge_pair(rng, ev, kinds)
    depth = rng.choice([1, 2, 2, 3, 3, 4])
    p = rand_pattern(rng, ev, depth)
    r = rng.random()
    if r < 0.15:
        kinds["independent"] = kinds.get("independent", 0) + 1
        v = instantiate(rng, rand_pattern(rng, ev, depth))
    else:
        v = instantiate(rng, p)
        n = rng.choice([0, 0, 1, 1, 2, 3])
        if n == 0:
            kinds["exact"] = kinds.get("exact", 0) + 1
        for _ in range(n):
            v = mutate(rng, v, kinds)
    return p, v


# ---------------------------------------------------------------------------------------
# printing as Coq terms


class Unsupported(Exception):
    pass


def coq_value(x):
    if x is None:
        return "VNone"
    if isinstance(x, bool):
        return f"(VBool {C.coq_bool(x)})"
    if isinstance(x, int):
        return f"(VInt {C.coq_Z(x)})"
    if isinstance(x, float):
        q = x * 4
        if q != int(q) or abs(q) > 10**6:
            raise Unsupported(f"float {x}")
        return f"(VFloat {C.coq_Z(int(q))})"
    if isinstance(x, str):
        return f"(VStr {C.coq_string(x)})"
    if isinstance(x, list):
        return "(VList " + C.coq_list([coq_value(e) for e in x]) + ")"
    if isinstance(x, (set, frozenset)):
        return "(VSet " + C.coq_list([coq_value(e) for e in x]) + ")"  # Python iteration order
    if isinstance(x, dict):
        items = []
        for k, v in x.items():
            if not isinstance(k, str):
                raise Unsupported("non-str dict key")
            items.append(f"({C.coq_string(k)}, {coq_value(v)})")
        return "(VDict " + C.coq_list(items) + ")"
    if isinstance(x, re.Pattern):
        return f"(VRegex {C.coq_string(x.pattern)})"
    if id(x) in CMP_REG:
        op, ref, _ = CMP_REG[id(x)]
        opn = {"lt": "OpLt", "le": "OpLe", "gt": "OpGt", "ge": "OpGe", "ne": "OpNe"}[op]
        if isinstance(ref, bool):
            n = f"(NBool {C.coq_bool(ref)})"
        elif isinstance(ref, int):
            n = f"(NInt {C.coq_Z(ref)})"
        else:
            n = f"(NFloat {C.coq_Z(int(ref * 4))})"
        return f"(VCmp {opn} {n})"
    raise Unsupported(type(x).__name__)


def show(x):
    """JSON-able rendering for evidence/replay."""
    if isinstance(x, (set, frozenset)):
        return {"__set__": [show(e) for e in x]}
    if isinstance(x, list):
        return [show(e) for e in x]
    if isinstance(x, dict):
        return {k: show(v) for k, v in x.items()}
    if isinstance(x, re.Pattern):
        return {"__regex__": x.pattern}
    if id(x) in CMP_REG:
        op, ref, _ = CMP_REG[id(x)]
        return {"__cmp__": [op, ref]}
    return x


def unshow(ev, x):
    if isinstance(x, dict):
        if "__set__" in x:
            return set(unshow(ev, e) for e in x["__set__"])
        if "__regex__" in x:
            return re.compile(x["__regex__"])
        if "__cmp__" in x:
            return mk_cmp(ev, x["__cmp__"][0], x["__cmp__"][1])
        return {k: unshow(ev, v) for k, v in x.items()}
    if isinstance(x, list):
        return [unshow(ev, e) for e in x]
    return x


# ---------------------------------------------------------------------------------------
# the implementation's answer, abstracted to the model's result type


def float_to_res(s, factor, priority=None):
    """0.0 -> no ; -1.0 -> fail ; p*factor^k -> ('yes',k) ; anything else -> ('odd', s)."""
    if isinstance(s, bool):
        return ("yes", 0) if s else ("no",)
    if s == 0:
        return ("no",)
    if s == -1.0:
        return ("fail",)
    base = s / priority if priority else s
    if base <= 0:
        return ("odd", s)
    k = round(math.log(base) / math.log(factor))
    if abs(base - factor ** k) <= 1e-9 * base:
        return ("yes", k)
    return ("odd", s)


def impl_args(sm, CVE, p, v, factor):
    try:
        s = sm._compute_arguments_dict_matching_score(v, p)
    except CVE:
        return ("err",)
    except RecursionError:
        raise
    except Exception as e:  # any other exception is not something the model predicts
        return ("exc", type(e).__name__)
    return float_to_res(s, factor)


def coq_res(r):
    return {"err": "RErr", "no": "RNo"}.get(r[0]) or (f"(RYes {C.coq_Z(r[1])})" if r[0] == "yes" else None)


def coq_eres(r):
    return {"err": "EErr", "no": "ENo", "fail": "EFail"}.get(r[0]) or (
        f"(EYes {C.coq_Z(r[1])})" if r[0] == "yes" else None)


# ---------------------------------------------------------------------------------------
# independent oracle: the documented rules, re-stated (used only to classify)


class SpecErr(Exception):
    pass


FILTER = None  # filled from the translator output


def spec_matches(p, v):
    if isinstance(p, re.Pattern):
        if isinstance(v, (str, int, float)):
            return p.search(str(v)) is not None
        return isinstance(v, re.Pattern) and v == p
    if id(p) in CMP_REG:
        op, ref, _ = CMP_REG[id(p)]
        if not isinstance(v, type(ref)):
            raise SpecErr()
        return {"lt": v < ref, "le": v <= ref, "gt": v > ref, "ge": v >= ref, "ne": v != ref}[op]
    if isinstance(p, dict):
        if not isinstance(v, dict) or len(p) > len(v):
            return False
        for k, pv in p.items():
            if k in FILTER:
                continue
            if k not in v or not spec_matches(pv, v[k]):
                return False
        return True
    if isinstance(p, list):
        if not isinstance(v, list) or len(p) > len(v):
            return False
        # exists an order-preserving embedding (dynamic programming, not greedy)
        n, m = len(p), len(v)
        ok = [[False] * (m + 1) for _ in range(n + 1)]
        for j in range(m + 1):
            ok[n][j] = True
        for i in range(n - 1, -1, -1):
            for j in range(m - 1, -1, -1):
                ok[i][j] = ok[i][j + 1] or (ok[i + 1][j + 1] and spec_matches(p[i], v[j]))
        return ok[0][0]
    if isinstance(p, (set, frozenset)):
        if not isinstance(v, (set, frozenset)) or len(p) > len(v):
            return False
        return all(any(_safe(spec_matches, e, x) for x in v) for e in p)
    # scalars: equal values of the same type (bool counts as the int it is)
    if p is None:
        return v is None
    if isinstance(v, (list, dict, set, frozenset, re.Pattern)) or id(v) in CMP_REG or v is None:
        return False
    if not isinstance(p, type(v)):
        return False
    return p == v


def _safe(f, a, b):
    try:
        return f(a, b)
    except SpecErr:
        raise


def strip_cmp(p):
    """Pattern with comparison expressions replaced by None (they make the spec undefined)."""
    if id(p) in CMP_REG:
        return None
    if isinstance(p, dict):
        return {k: strip_cmp(x) for k, x in p.items()}
    if isinstance(p, list):
        return [strip_cmp(x) for x in p]
    if isinstance(p, (set, frozenset)):
        return {strip_cmp(x) for x in p}
    return p


def classify_args(p, v):
    """Signature of the defect class for a mismatch between impl and spec."""
    def walk(p, v):
        if isinstance(p, (set, frozenset)) and isinstance(v, (set, frozenset)) and len(p) > len(v):
            return "set-pattern-larger-than-received-set"
        if isinstance(p, dict) and isinstance(v, dict):
            for k in p:
                if k in v:
                    s = walk(p[k], v[k])
                    if s:
                        return s
        if isinstance(p, list) and isinstance(v, list):
            for a in p:
                for b in v:
                    s = walk(a, b)
                    if s:
                        return s
        return None
    return walk(p, v) or "args-match-differs-from-documented-rules"


def nontrivial(p, v):
    def depth(x):
        if isinstance(x, dict):
            return 1 + max([depth(e) for e in x.values()] + [0])
        if isinstance(x, (list, set, frozenset)):
            return 1 + max([depth(e) for e in x] + [0])
        return 0

    def has_edge(x):
        if isinstance(x, re.Pattern) or id(x) in CMP_REG or isinstance(x, (bool, float)):
            return True
        if isinstance(x, dict):
            return any(has_edge(e) for e in x.values())
        if isinstance(x, (list, set, frozenset)):
            return any(has_edge(e) for e in x)
        return False

    return (depth(p) >= 2 and depth(v) >= 2) or has_edge(p)


# ---------------------------------------------------------------------------------------
# event level


def gen_event_case(rng, ev, fl, kinds):
    names_int = ["StartFlow", "FlowStarted", "FlowFinished", "FlowFailed", "FinishFlow", "StopFlow", "UnhandledEvent"]
    names_act = ["UtteranceBotActionFinished", "UtteranceBotActionStarted", "StartUtteranceBotAction", "TimerBotActionFinished"]
    names_plain = ["UserSaid", "Ping", "CustomEvent"]
    branch = rng.choice(["internal", "internal", "action", "action", "plain", "mixed"])
    uids = ["u1", "u2", "u3"]

    def args_for(names):
        d = {}
        for k in rng.sample(["flow_id", "flow_instance_uid", "source_flow_instance_uid", "a", "text", "return_value", "activated", "final_script"], rng.randint(0, 4)):
            if k == "flow_id":
                d[k] = rng.choice(["f", "g", "h"])
            elif k in ("flow_instance_uid", "source_flow_instance_uid"):
                d[k] = rng.choice(uids)
            elif k == "activated":
                d[k] = rng.choice([True, False])
            else:
                d[k] = rng.choice([rand_scalar(rng), rand_str(rng, 1, 2), [1, 2], rand_regex(rng)])
        return d

    def recv_from(ref_args):
        d = {}
        for k, v in ref_args.items():
            d[k] = instantiate(rng, v)
        for _ in range(rng.choice([0, 0, 1, 2])):
            d = mutate(rng, d, kinds)
        if not isinstance(d, dict):
            d = {}
        d = {k: v for k, v in d.items() if isinstance(k, str)}
        return d

    tbl = {}
    if branch == "internal" or (branch == "mixed" and rng.random() < 0.5):
        rn = rng.choice(names_int)
        en = rn if rng.random() < 0.6 else rng.choice(names_int)
        ra = args_for(names_int)
        ea = recv_from(ra) if rng.random() < 0.8 else args_for(names_int)
        flow_uid = rng.choice([None, "u1", "u2"])
        ref = ("internal", rn, ra, flow_uid)
        evt = ("internal", en, ea, None)
    elif branch == "action":
        rn = rng.choice(names_act)
        en = rn if rng.random() < 0.8 else rng.choice(names_act)
        ra = args_for(names_act)
        if rng.random() < 0.3:
            ra["action_arguments"] = {"script": rng.choice(["hi", "yo"])}
        ea = recv_from(ra) if rng.random() < 0.8 else args_for(names_act)
        ru = rng.choice([None, "a1", "a2"])
        eu = rng.choice([None, "a1", "a2", "a1"])
        for a in ("a1", "a2"):
            if rng.random() < 0.6:
                tbl[a] = {"script": rng.choice(["hi", "yo"]), "n": rng.choice([1, 2])} if rng.random() < 0.7 else {}
        ref = ("action", rn, ra, ru)
        evt = ("action", en, ea, eu)
    else:
        rn = rng.choice(names_plain + names_act[:1])
        en = rn if rng.random() < 0.8 else rng.choice(names_plain)
        ra = args_for(names_plain)
        ea = recv_from(ra) if rng.random() < 0.8 else args_for(names_plain)
        kind_r = rng.choice(["plain", "plain", "action"])
        ref = (kind_r, rn, ra, rng.choice([None, "a1"]) if kind_r == "action" else None)
        evt = ("plain", en, ea, None)
    for d in (ref[2], evt[2]):
        d.pop("action_uid", None)
    priority = rng.choice([None, 1.0, 0.5, 0.9, 0.0])
    return tbl, evt, ref, priority


class _StubAction:
    def __init__(self, args):
        self.start_event_arguments = args


class _StubFlow:
    def __init__(self, uid):
        self.uid = uid


class _StubState:
    def __init__(self, tbl):
        self.actions = {k: _StubAction(v) for k, v in tbl.items()}


def build_event(fl, desc):
    kind, name, args, extra = desc
    import copy
    args = copy.deepcopy({k: v for k, v in args.items() if id(v) not in CMP_REG}) | {k: v for k, v in args.items() if id(v) in CMP_REG}
    if kind == "internal":
        return fl.InternalEvent(name=name, arguments=args, flow=_StubFlow(extra) if extra else None)
    if kind == "action":
        return fl.ActionEvent(name=name, arguments=args, action_uid=extra)
    return fl.Event(name=name, arguments=args)


def coq_event(desc):
    kind, name, args, extra = desc
    kv = C.coq_list([f"({C.coq_string(k)}, {coq_value(v)})" for k, v in args.items()])
    if kind == "internal":
        k = f"(KInternal {C.coq_option(C.coq_string(extra) if extra else None)})"
    elif kind == "action":
        k = f"(KAction {C.coq_option(C.coq_string(extra) if extra else None)})"
    else:
        k = "KPlain"
    return f"{{| e_name := {C.coq_string(name)}; e_args := {kv}; e_kind := {k} |}}"


def impl_event(sm, CVE, fl, tbl, evt, ref, priority, factor):
    state = _StubState(tbl)
    e = build_event(fl, evt)
    r = build_event(fl, ref)
    if not isinstance(r, type(e)):
        return ("no",)
    try:
        s = sm._compute_event_comparison_score(state, e, r, priority)
    except (CVE, KeyError):
        return ("err",)
    except Exception as ex:
        return ("exc", type(ex).__name__)
    return float_to_res(s, factor, priority)


def spec_event(tbl, evt, ref):
    """Documented event-level rule for non-internal events: same name, parameters match,
    and a statement bound to an action instance only matches that instance.  Returns
    True/False/None (None = rule not stated for this shape: internal events)."""
    INTERNAL = set(INTERNAL_ALL)
    if evt[1] in INTERNAL and ref[1] in INTERNAL:
        return None
    if evt[1] != ref[1]:
        return False
    if ref[0] == "action" and ref[3] is not None and evt[0] == "action" and evt[3] != ref[3]:
        return False
    args = dict(evt[2])
    if evt[0] == "action" and ref[0] == "action" and evt[3] is not None and evt[3] in tbl:
        args["action_arguments"] = tbl[evt[3]]
    return spec_matches(ref[2], args)


INTERNAL_ALL = []


# ---------------------------------------------------------------------------------------


def end_to_end_smoke(rng, n, out):
    """A flow with `match` + marker `send` under run_to_completion: covers the glue between
    statements and the matcher (argument evaluation, get_event_from_element)."""
    sys.path.insert(0, C.REPO)
    from harness import v2util

    def lit(x):
        if isinstance(x, re.Pattern):
            return 'regex("%s")' % x.pattern
        if isinstance(x, str):
            return '"%s"' % x
        if isinstance(x, (set, frozenset)):
            return "{" + ", ".join(lit(e) for e in x) + "}" if x else None
        if isinstance(x, list):
            return "[" + ", ".join(lit(e) for e in x) + "]"
        if isinstance(x, dict):
            return "{" + ", ".join('"%s": %s' % (k, lit(v)) for k, v in x.items()) + "}"
        return repr(x)

    def ok_lit(x):
        if isinstance(x, (set, frozenset)):
            return len(x) > 0 and all(ok_lit(e) and not isinstance(e, re.Pattern) or isinstance(e, re.Pattern) for e in x)
        if isinstance(x, list):
            return all(ok_lit(e) for e in x)
        if isinstance(x, dict):
            return all(ok_lit(e) for e in x.values())
        if isinstance(x, re.Pattern):
            return '"' not in x.pattern
        return id(x) not in CMP_REG

    sm, ev, fl, CVE = _impl()
    done = 0
    mism = []
    tries = 0
    skipped_parse = [0]
    while done < n and tries < n * 20:
        tries += 1
        kinds = {}
        # parameter names include the UMIM bookkeeping names: a parameter is a parameter
        names = ["a", "b", "c", "text", "uid", "source_uid", "event_created_at", "action_info_modality"]
        if rng.random() < 0.25:
            # regex family: `.` must behave as in re.search without flags (no DOTALL/IGNORECASE/MULTILINE)
            key = rng.choice(names)
            pat = rng.choice(["x.y", "x.+y", "^.$", ".", "^x.*y$", "X", "^y"])
            p = {key: re.compile(pat)}
            v = {key: rng.choice(["x\ny", "\n", "xzy", "x\n\ny", "xy", "x", "a\ny"])}
            if rng.random() < 0.3:
                v["extra"] = 1
        else:
            p = {k: rand_pattern(rng, ev, 2) for k in rng.sample(names, rng.randint(1, 2))}
            if not ok_lit(p):
                continue
            v = instantiate(rng, p)
            for _ in range(rng.choice([0, 1, 2])):
                v = mutate(rng, v, kinds)
        if not isinstance(v, dict) or not all(isinstance(k, str) for k in v):
            continue
        params = ", ".join(f"{k}={lit(pv)}" for k, pv in p.items())
        src = f"flow main\n  match Ev({params})\n  send Done()\n"
        try:
            state0 = v2util.init_state(src)
        except Exception:
            skipped_parse[0] += 1      # literal outside Colang's expression syntax: not a case
            continue
        try:
            state = v2util.start_main(state0)
            # value sent as a plain event
            state = v2util.step(state, {"type": "Ev", **v})
        except Exception as e:
            mism.append({"src": src, "event": show(v), "exception": repr(e)})
            continue
        fired = "Done" in v2util.out_types(state)
        try:
            want = spec_matches(p, v)
        except SpecErr:
            continue
        done += 1
        if fired != want:
            mism.append({"src": src, "event": show(v), "fired": fired, "documented": want,
                         "sig": classify_args(p, v)})
    out.coverage['e2e_skipped_unparseable_literals'] = skipped_parse[0]
    return done, mism


def end_to_end_actions(rng, n, out):
    """Statements that write ACTION parameters: `match XAction(p=..).Started()/…Updated(..)/Finished(..)`.
    Two or three actions of one type are started with different arguments; every action's
    Started / ScriptUpdated / Finished event is then delivered.  Documented rule: the statement
    advances exactly on an event of an action whose start arguments match the written action
    parameters (partial match) and whose event parameters match the written event parameters."""
    from harness import v2util

    def lit(x):
        if isinstance(x, re.Pattern):
            return 'regex("%s")' % x.pattern
        if isinstance(x, str):
            return '"%s"' % x
        return repr(x)

    vals = ["Hi", "Bye", "Hi there", "yo"]
    done = 0
    mism = []
    skipped = 0
    tries = 0
    while done < n and tries < n * 10:
        tries += 1
        k = rng.choice([2, 2, 3])
        starts = []
        for _ in range(k):
            a = {"script": rng.choice(vals)}
            if rng.random() < 0.5:
                a["intensity"] = rng.choice([1, 2, 1.5])
            starts.append(a)
        # written action parameters: subset of one action's args, possibly altered / regex
        base = rng.choice(starts)
        apat = {}
        for key, v in base.items():
            r = rng.random()
            if r < 0.55:
                apat[key] = v
            elif r < 0.7:
                apat[key] = re.compile("^" + v[:1]) if isinstance(v, str) else v
            elif r < 0.85:
                apat[key] = rng.choice(vals) if isinstance(v, str) else rng.choice([1, 2, 1.5])
        kind = rng.choice(["Started", "ScriptUpdated", "Finished"])
        epat, evargs = {}, {}
        if kind == "ScriptUpdated":
            evargs = {"interim_script": rng.choice(["H", "By"])}
            if rng.random() < 0.6:
                epat = {"interim_script": rng.choice(["H", "By"])}
        elif kind == "Finished":
            evargs = {"final_script": rng.choice(vals), "is_success": True}
            if rng.random() < 0.6:
                epat = {"final_script": rng.choice([evargs["final_script"], rng.choice(vals)])}
        ap = ", ".join(f"{k_}={lit(v)}" for k_, v in apat.items())
        ep = ", ".join(f"{k_}={lit(v)}" for k_, v in epat.items())
        src = "flow main\n" + "".join(
            "  start UtteranceBotAction(%s)\n" % ", ".join(f"{k_}={lit(v)}" for k_, v in a.items()) for a in starts
        ) + f"  match UtteranceBotAction({ap}).{kind}({ep})\n  send Done()\n  match Never()\n"
        try:
            st = v2util.start_main(v2util.init_state(src))
        except Exception:
            skipped += 1
            continue
        sent = [e for e in st.outgoing_events if e["type"] == "StartUtteranceBotAction"]
        if len(sent) != k:
            skipped += 1   # identical actions are merged by the interpreter
            continue
        order = list(range(k))
        rng.shuffle(order)
        fired_at = None
        want_at = None
        try:
            for step_i, idx in enumerate(order):
                ev = {"type": "UtteranceBotAction" + kind, "action_uid": sent[idx]["action_uid"], **evargs}
                st = v2util.step(st, ev)
                if fired_at is None and "Done" in v2util.out_types(st):
                    fired_at = step_i
                if want_at is None and spec_matches(apat, starts[idx]) and spec_matches(epat, evargs):
                    want_at = step_i
        except Exception as e:
            mism.append({"src": src, "order": order, "exception": repr(e), "sig": "action-statement-match-raises"})
            continue
        done += 1
        if fired_at != want_at:
            mism.append({"src": src, "order": order, "event_kind": kind, "event_args": evargs,
                         "fired_at_step": fired_at, "documented_step": want_at,
                         "sig": "action-statement-parameters-not-matched:" + kind})
    out.coverage["e2e_action_statement_cases"] = done
    out.coverage["e2e_action_statement_skipped"] = skipped
    return done, mism


def run(tier, seed, replay=None):
    global FILTER, INTERNAL_ALL
    out = C.Outcome(PID, tier, seed)
    rng = random.Random(seed * 1000003 + 4)
    b = C.build_and_audit(PID, GEN)
    C.proof_coverage(out, b, "make theories/Props/C04.vo && coqc Props/C04.v (Print Assumptions)")
    for br in b["broken"]:
        out.add_broken(br, b["log"])
    # the executable model must build for the correspondence even when a proof is broken
    with C.BuildLock():
        okm, logm = C.coq_make(["theories/Val/MatchRun.vo"])
    from translator import consts as TC
    try:
        mc = TC.matcher_consts()
    except Exception as e:
        mc = None
        out.add_broken("translator:MatchConsts", str(e))
    factor = float(mc["factor"]) if mc else 0.9
    FILTER = set(mc["argument_filter"]) if mc else {"return_value", "activated", "source_flow_instance_uid"}
    INTERNAL_ALL = mc["internal_all"] if mc else []

    sm, ev, fl, CVE = _impl()
    n_args = 6000 if tier == "quick" else 60000
    n_ev = 3000 if tier == "quick" else 30000
    n_e2e = 150 if tier == "quick" else 1500
    if replay:
        n_args = n_ev = n_e2e = 0

    kinds = {}
    cases = []  # (p, v)
    import json, os
    corpus_dir = os.path.join(C.VERIF, "corpus", PID)
    corpus_n = 0
    if os.path.isdir(corpus_dir):
        for fn in sorted(os.listdir(corpus_dir)):
            if fn.endswith(".json"):
                d = json.load(open(os.path.join(corpus_dir, fn)))
                if d.get("kind") == "args":
                    cases.append((unshow(ev, d["pattern"]), unshow(ev, d["received"])))
                    corpus_n += 1
    if replay:
        d = json.load(open(replay))
        r = d.get("replay", d)
        if r.get("kind") == "args":
            cases.append((unshow(ev, r["pattern"]), unshow(ev, r["received"])))
    for _ in range(n_args):
        cases.append(gen_pair(rng, ev, kinds))

    terms, kept, results = [], [], []
    seen = set()
    n_nontrivial = 0
    res_hist = {}
    spec_viol = []
    for p, v in cases:
        try:
            tp, tv = coq_value(p), coq_value(v)
        except Unsupported:
            kinds["unsupported"] = kinds.get("unsupported", 0) + 1
            continue
        r = impl_args(sm, CVE, p, v, factor)
        res_hist[r[0]] = res_hist.get(r[0], 0) + 1
        h = C.canon_hash([tp, tv])
        if h not in seen:
            seen.add(h)
            if nontrivial(p, v):
                n_nontrivial += 1
        # direct oracle on the implementation
        try:
            want = spec_matches(p, v)
            got = r[0] == "yes"
            if r[0] in ("yes", "no") and got != want:
                spec_viol.append((p, v, r, want))
            if r[0] == "yes" and r[1] < 0:
                spec_viol.append((p, v, r, "score-above-1"))
        except SpecErr:
            pass
        cr = coq_res(r)
        if cr is None:
            out.findings.append(C.Finding("matcher-unexpected-result", f"implementation returned {r}",
                                          {"kind": "args", "pattern": show(p), "received": show(v), "impl": list(r)}))
            continue
        terms.append(f"({tp}, {tv}, {cr})")
        kept.append((p, v, r))

    disagreements = []
    if okm and terms:
        bools, err = C.run_cases(PID + "_args", PREAMBLE, terms, "check_args")
        if err:
            out.add_broken("correspondence:C04-args(coqc)", err)
        else:
            for ok, (p, v, r) in zip(bools, kept):
                if not ok:
                    disagreements.append((p, v, r))
    elif not okm:
        out.add_broken("coq:theories/Val/MatchRun.v", logm)

    # search amplification: when the correspondence broke, widen around the disagreeing cases
    # with the direct oracle on the implementation (no Coq needed)
    if disagreements and not spec_viol:
        tried = 0
        for p, v, r in disagreements[:40]:
            for _ in range(400):
                tried += 1
                k2 = {}
                v2 = mutate(rng, v, k2) if rng.random() < 0.7 else instantiate(rng, p)
                p2 = p
                if rng.random() < 0.5:
                    p2 = strip_cmp(p)
                r2 = impl_args(sm, CVE, p2, v2, factor)
                try:
                    want = spec_matches(p2, v2)
                except SpecErr:
                    continue
                if r2[0] in ("yes", "no") and (r2[0] == "yes") != want:
                    spec_viol.append((p2, v2, r2, want))
            if spec_viol:
                break
        out.coverage["amplification_cases"] = tried

    for p, v, r, want in spec_viol[:50]:
        sig = classify_args(p, v)
        out.findings.append(C.Finding(sig, f"matcher says {r}, documented rules say match={want}",
                                      {"kind": "args", "pattern": show(p), "received": show(v), "impl": list(r), "documented": want}))
    if disagreements:
        p, v, r = min(disagreements, key=lambda c: len(str(show(c[0]))) + len(str(show(c[1]))))
        model = C.eval_term(PID + "_args", PREAMBLE, f"score_c {coq_value(p)} {coq_value(v)}")
        out.add_broken("correspondence:C04-args",
                       f"{len(disagreements)} disagreements; smallest: pattern={show(p)} received={show(v)} impl={r} model={model}")

    # ---- event level
    ev_terms, ev_kept = [], []
    ev_hist = {}
    ev_viol = []
    for _ in range(n_ev):
        tbl, evt, ref, priority = gen_event_case(rng, ev, fl, kinds)
        try:
            t = "({tbl}, {e}, {r}".format(
                tbl=C.coq_list([f"({C.coq_string(k)}, {C.coq_list([f'({C.coq_string(a)}, {coq_value(x)})' for a, x in v.items()])})" for k, v in tbl.items()]),
                e=coq_event(evt), r=coq_event(ref))
        except Unsupported:
            continue
        r = impl_event(sm, CVE, fl, tbl, evt, ref, priority, factor)
        ev_hist[r[0]] = ev_hist.get(r[0], 0) + 1
        h = C.canon_hash(t)
        if h not in seen:
            seen.add(h)
            n_nontrivial += 1 if (len(evt[2]) + len(ref[2])) >= 2 else 0
        try:
            want = spec_event(tbl, evt, ref)
            if want is not None and r[0] in ("yes", "no") and (r[0] == "yes") != want:
                ev_viol.append((tbl, evt, ref, priority, r, want))
        except SpecErr:
            pass
        cr = coq_eres(r)
        if cr is None:
            out.findings.append(C.Finding("event-matcher-unexpected-result", f"implementation returned {r}",
                                          {"kind": "event", "event": show(list(evt)), "ref": show(list(ref)), "impl": list(r)}))
            continue
        ev_terms.append(t + f", {cr})")
        ev_kept.append((tbl, evt, ref, priority, r))
    if okm and ev_terms:
        bools, err = C.run_cases(PID + "_ev", PREAMBLE, ev_terms, "check_event")
        if err:
            out.add_broken("correspondence:C04-event(coqc)", err)
        else:
            bad = [c for ok, c in zip(bools, ev_kept) if not ok]
            if bad:
                tbl, evt, ref, priority, r = min(bad, key=lambda c: len(str(show(list(c[1])))) + len(str(show(list(c[2])))))
                out.add_broken("correspondence:C04-event",
                               f"{len(bad)} disagreements; smallest: actions={show(tbl)} event={show(list(evt))} ref={show(list(ref))} priority={priority} impl={r}")
    for tbl, evt, ref, priority, r, want in ev_viol[:50]:
        sig = classify_args(ref[2], evt[2])
        if sig == "args-match-differs-from-documented-rules":
            sig = "event-match-differs-from-documented-rules"
        out.findings.append(C.Finding(sig, f"event matcher says {r}, documented rules say match={want}",
                                      {"kind": "event", "actions": show(tbl), "event": show(list(evt)), "ref": show(list(ref)), "impl": list(r), "documented": want}))

    # ---- end to end smoke
    e2e_n, e2e_bad = (0, [])
    if n_e2e:
        e2e_n, e2e_bad = end_to_end_smoke(rng, n_e2e, out)
        for m in e2e_bad[:20]:
            out.findings.append(C.Finding(m.get("sig", "end-to-end-match-differs"), "flow with `match` reacts differently from the documented rules", {"kind": "e2e", **m}))

    act_n, act_bad = (0, [])
    if n_e2e:
        act_n, act_bad = end_to_end_actions(rng, n_e2e, out)
        for m in act_bad[:20]:
            out.findings.append(C.Finding(m.get("sig", "action-statement-match-differs"),
                                          "statement with action parameters reacts differently from the documented rules",
                                          {"kind": "e2e-action", **m}))
    e2e_n += act_n

    out.coverage.update({
        "evaluations": len(terms) + len(ev_terms) + e2e_n,
        "distinct_nontrivial": n_nontrivial,
        "rule": "args: pattern depth<=4 over all scalar types/regex/comparison/list/set/dict, received value derived by instantiate+mutations (add/drop/reorder/dup/type-shift/alter) or independent; non-trivial = both sides nested depth>=2 or a regex/comparison/bool/float edge involved; events: internal/action/plain branches with instance uids, non-trivial = >=2 arguments in play; distinct by hash of the Coq case term",
        "samples": [{"pattern": show(p), "received": show(v), "impl": list(r)} for p, v, r in kept[:3]]
                   + [{"event": show(list(c[1])), "ref": show(list(c[2])), "priority": c[3], "impl": list(c[4])} for c in ev_kept[:2]],
        "input_distribution": {"mutation_kinds": kinds, "args_results": res_hist, "event_results": ev_hist,
                               "corpus_cases": corpus_n, "end_to_end_flows": e2e_n},
        "traces_validated_against_impl": len(terms) + len(ev_terms),
        "correspondence_disagreements": len(disagreements),
        "oracle_violations": len(spec_viol) + len(ev_viol) + len(e2e_bad),
    })
    out.assumptions += [
        "re.search and str() of scalars are oracles (arbitrary in the theorems; the small dialect of Val/MatchRun.v in the correspondence)",
        "scores are factor^k exactly; float->k conversion with relative tolerance 1e-9; no float underflow (k < 7000)",
        "dict keys are strings; sets are printed in Python iteration order",
    ]
    if tier == "thorough" and b["ok"]:
        ok, log = C.coqchk(PID, b["files"])
        out.coverage["coqchk"] = "ok" if ok else "FAILED"
        if not ok:
            out.add_broken("coqchk", log)
    return C.finish(out)
